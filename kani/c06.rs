//! C06 — command ring (ManyToOneRingBuffer): each written command is read exactly once, intact, in order.
//!
//! Regime R1 (HARNESS_GUIDE): the ring is ONE object of capacity + 768-byte trailer = 800 B (`fs=801`); everything
//! that decides WHERE bytes go (head, tail, message length, preemption point) is a literal inside each arm,
//! everything else (payload, head-cache word, message limit, counters; the type id wherever the record is not read
//! back through `read`) is symbolic.
//! "Solver-chosen but concretised": a selector chosen by the solver (`kani::any`) is case-split with `split!` into an
//! else-if chain whose arms call the body with a literal, so every combination is decided by the solver while CBMC
//! still constant-propagates the layout inside each arm (each arm starts from the state before the split).
//! Measured while building this file (so nobody has to re-measure):
//!  * `for byte in slice` (set_memory) with a length that is not a syntactic constant makes every byte store a
//!    whole-object update (800 fields x 33 iterations): the read step with a symbolic limit runs WITHOUT `fs` (40 s
//!    instead of 150 s); everything else with `fs=801`.
//!  * `read` fetches (length, type) as one i64; a symbolic type id makes the length non-constant for CBMC => type ids
//!    of records that are read back are literals (TYPES), except in `c06_read_any_type`.
//!  * the discriminant of `Result<Index, RingBufferError>` (niche-encoded) is never a syntactic constant: after a
//!    REFUSED write symex also walks the accepting path, so a refused write followed by more ring operations is 10-100x
//!    more expensive than an accepted one.  Refusals are therefore checked as the last ring operation of an arm.
//!  * loop bounds: `claim` (CAS retry) 2 resp. 3 under interference, `read` 6 records, `set_memory` bytes + 1.
//! Oracle: `spec_place` - the placement rule of the property statement in i128 arithmetic (never calls ring code);
//! trailer offsets are the literal numbers of the Aeron ring-buffer descriptor (tail +128, head cache +256, head +384,
//! correlation counter +512, consumer heartbeat +640 behind the data area).
use super::hook;
use super::util::*;
use crate::command::control_protocol_events::AeronCommand;
use crate::concurrent::atomic_buffer::AtomicBuffer;
use crate::concurrent::ring_buffer::{ManyToOneRingBuffer, RingBufferError};
use crate::utils::types::Index;

pub const CAP: usize = 32;
pub const N: usize = CAP + 768;
pub const TAIL_AT: usize = CAP + 128;
pub const HCACHE_AT: usize = CAP + 256;
pub const HEAD_AT: usize = CAP + 384;
pub const CORR_AT: usize = CAP + 512;
pub const HBEAT_AT: usize = CAP + 640;
/// longest message a ring of this capacity takes (capacity / 8)
pub const MAX_MSG: i32 = (CAP / 8) as i32;

/// The ring memory: capacity + trailer bytes, 16-aligned.
#[repr(C, align(16))]
pub struct Ring(pub [u8; N]);

impl Ring {
    pub fn buf(&mut self) -> AtomicBuffer {
        AtomicBuffer::new(self.0.as_mut_ptr(), N as Index)
    }
    pub fn i64_at(&self, at: usize) -> i64 {
        let m = &self.0;
        i64::from_le_bytes([m[at], m[at + 1], m[at + 2], m[at + 3], m[at + 4], m[at + 5], m[at + 6], m[at + 7]])
    }
    pub fn i32_at(&self, at: usize) -> i32 {
        let m = &self.0;
        i32::from_le_bytes([m[at], m[at + 1], m[at + 2], m[at + 3]])
    }
    pub fn byte(&self, at: usize) -> u8 {
        self.0[at]
    }
    pub fn set_i64(&mut self, at: usize, v: i64) {
        let b = v.to_le_bytes();
        let m = &mut self.0;
        m[at] = b[0];
        m[at + 1] = b[1];
        m[at + 2] = b[2];
        m[at + 3] = b[3];
        m[at + 4] = b[4];
        m[at + 5] = b[5];
        m[at + 6] = b[6];
        m[at + 7] = b[7];
    }
    pub fn set_i32(&mut self, at: usize, v: i32) {
        let b = v.to_le_bytes();
        let m = &mut self.0;
        m[at] = b[0];
        m[at + 1] = b[1];
        m[at + 2] = b[2];
        m[at + 3] = b[3];
    }
}

/// The ring under test lives in a static (zero-initialised for free; moving an 800-byte local costs one symex step per
/// element).  Unused trailer bytes are zero as in a freshly mapped CnC file.  ONE static with a distinctive non-zero
/// field: Kani merges all-zero `static mut`s with same-content constant allocations (see hook.rs).
#[repr(C, align(16))]
pub struct World {
    pub ring: Ring,
    pub magic: u64,
    /// the second producer (interference harnesses)
    pub b_src: Mem<8>,
    pub b_cmd: AeronCommand,
    pub b_len: i32,
    pub b_ran: bool,
    pub b_ok: bool,
    /// the consumer (interference harnesses)
    pub c_limit: i32,
    pub c_ran: bool,
    pub c_count: i32,
    pub log: Log,
}

pub static mut W: World = World {
    ring: Ring([0u8; N]),
    magic: 0x5a5a_4330_3652_1e07,
    b_src: Mem([0u8; 8]),
    b_cmd: AeronCommand::ClientKeepAlive,
    b_len: 0,
    b_ran: false,
    b_ok: false,
    c_limit: 0,
    c_ran: false,
    c_count: 0,
    log: EMPTY_LOG,
};

pub fn world() -> &'static mut World {
    unsafe { &mut *std::ptr::addr_of_mut!(W) }
}

pub fn ring_mem() -> &'static mut Ring {
    unsafe { &mut *std::ptr::addr_of_mut!(W.ring) }
}

pub fn ring() -> ManyToOneRingBuffer {
    vok!(ManyToOneRingBuffer::new(ring_mem().buf()), "C06: a ring over capacity 32 + trailer is accepted")
}

/// data area := arbitrary bytes
pub fn fill_data(m: &mut Ring) {
    let d: [i64; CAP / 8] = kani::any();
    m.set_i64(0, d[0]);
    m.set_i64(8, d[1]);
    m.set_i64(16, d[2]);
    m.set_i64(24, d[3]);
}

/// consumer position, producer position, head cache; correlation counter and heartbeat arbitrary
pub fn set_positions(m: &mut Ring, head: i64, tail: i64, hcache: i64) {
    m.set_i64(TAIL_AT, tail);
    m.set_i64(HEAD_AT, head);
    m.set_i64(HCACHE_AT, hcache);
    m.set_i64(CORR_AT, kani::any());
    m.set_i64(HBEAT_AT, kani::any());
}

/// Any command type a client may write (every protocol code >= 1), with its numeric code.
pub fn any_cmd() -> (AeronCommand, i32) {
    let id: i32 = kani::any();
    kani::assume((0x01..=0x0E).contains(&id) || (0x0F01..=0x0F0A).contains(&id));
    (AeronCommand::from_command_id(id), id)
}

/// else-if chain over literal alternatives of a solver-chosen selector
#[macro_export]
macro_rules! c06_split {
    ($s:ident, $f:expr, $k:expr) => {
        if $s == $k { $f($k) } else { kani::assume(false) }
    };
    ($s:ident, $f:expr, $k:expr, $($rest:expr),+) => {
        if $s == $k { $f($k) } else { $crate::c06_split!($s, $f, $($rest),+) }
    };
}
pub use c06_split as split;

/// The lap magnitudes of the instance set: 0, 3 laps, 2^31 - capacity, 2^32, 2^40.
pub const B0: i64 = 0;
pub const B1: i64 = 3 * CAP as i64;
pub const B2: i64 = (1i64 << 31) - CAP as i64;
pub const B3: i64 = 1i64 << 32;
pub const B4: i64 = 1i64 << 40;

/// Placement rule of the property statement (i128: cannot wrap).
#[derive(Copy, Clone)]
pub struct Place {
    pub accept: bool,
    pub required: i64,
    pub padding: i64,
    pub tail_index: usize,
    pub index: usize,
    pub new_tail: i64,
}

pub fn spec_place(head: i64, tail: i64, len: i64) -> Place {
    let cap = CAP as i128;
    let required = (len as i128 + 8 + 7) / 8 * 8;
    let used = tail as i128 - head as i128;
    let tail_index = (tail as i128) % cap; // tail >= 0
    let to_end = cap - tail_index;
    let padding = if required > to_end { to_end } else { 0 };
    let accept = len <= MAX_MSG as i64 && used + required + padding <= cap;
    Place {
        accept,
        required: required as i64,
        padding: padding as i64,
        tail_index: tail_index as usize,
        index: if padding != 0 { 0 } else { tail_index as usize },
        new_tail: (tail as i128 + required + padding) as i64,
    }
}

/// committed record `(len, type, bytes)` at `index`
pub fn record_is(m: &Ring, index: usize, len: i32, id: i32, bytes: &[u8; 8]) -> bool {
    let j: usize = kani::any();
    kani::assume(j < 8);
    m.i32_at(index) == len + 8 && m.i32_at(index + 4) == id && (j >= len as usize || m.byte(index + 8 + j) == bytes[j])
}

#[derive(Copy, Clone, Default)]
pub struct Seen {
    pub plain: bool,
    pub wrap: bool,
    pub refuse: bool,
    pub too_long: bool,
    pub cache_refreshed: bool,
    pub cache_sufficient: bool,
}

// ------------------------------------------------------------------------------------------------------------------
// a + d.  write step
// ------------------------------------------------------------------------------------------------------------------

/// One `write` of `len` bytes from the state prepared by the caller (head, tail literal; head cache `hc` symbolic).
fn write_len(head: i64, tail: i64, hc: i64, cmd: AeronCommand, id: i32, len: i32, seen: &mut Seen) {
    let m = ring_mem();
    let mut src = Mem::<8>::any();
    let p: usize = kani::any();
    kani::assume(p < N);
    let before = m.byte(p);
    let rb = ring();
    let r = rb.write(cmd, src.buf(), 0, len);
    let sp = spec_place(head, tail, len as i64);
    let hc_after = m.i64_at(HCACHE_AT);
    assert!(hc_after == hc || hc_after == head, "C06: head cache holds a value the consumer position really had");
    assert!(m.i64_at(HEAD_AT) == head, "C06: a producer never moves the consumer position");
    let in_hcache = p >= HCACHE_AT && p < HCACHE_AT + 8;
    let in_tail = p >= TAIL_AT && p < TAIL_AT + 8;
    match r {
        Ok(()) => {
            assert!(len <= MAX_MSG, "C06: a message longer than the maximum was accepted");
            assert!(sp.accept, "C06: write accepted although unconsumed bytes + record + wrap padding exceed the capacity");
            assert!(m.i64_at(TAIL_AT) == sp.new_tail, "C06: producer position advances by exactly record + wrap padding");
            assert!(record_is(m, sp.index, len, id, &src.0), "C06: committed record carries length, type and bytes of the command");
            let mut in_pad = false;
            if sp.padding != 0 {
                assert!(m.i32_at(sp.tail_index) == sp.padding as i32, "C06: wrap padding record spans exactly the rest of the data area");
                assert!(m.i32_at(sp.tail_index + 4) == -1, "C06: wrap padding record has the padding type");
                in_pad = p >= sp.tail_index && p < sp.tail_index + 8;
                seen.wrap = true;
            } else {
                seen.plain = true;
            }
            let in_rec = p >= sp.index && p < sp.index + 8 + len as usize;
            assert!(in_rec || in_pad || in_tail || in_hcache || m.byte(p) == before,
                "C06: write changed a byte outside its record, its padding header and the tail word");
        }
        Err(e) => {
            assert!(!sp.accept, "C06: write refused although unconsumed bytes + record + wrap padding fit the capacity");
            if len > MAX_MSG {
                assert!(matches!(e, RingBufferError::MessageTooLong { .. }), "C06: over-long message is refused as too long");
                assert!(hc_after == hc, "C06: refusing an over-long message touches nothing");
                seen.too_long = true;
            } else {
                assert!(matches!(e, RingBufferError::InsufficientCapacity), "C06: lack of space is reported as insufficient capacity");
                seen.refuse = true;
            }
            assert!(in_hcache || m.byte(p) == before, "C06: a refused write changed the ring");
        }
    }
    if hc != head && len <= MAX_MSG {
        if hc_after == head {
            seen.cache_refreshed = true;
        } else {
            seen.cache_sufficient = true;
        }
    }
}

/// State (head = base + hi, tail = head + used) with a symbolic head-cache word that is a value the consumer position
/// had less than 2^31 bytes ago; then one write of every length 0..=max+1.
fn write_state(base: i64, hi: usize, used: usize, seen: &mut Seen) {
    let m = ring_mem();
    fill_data(m); // `write` never looks at the data area: arbitrary content, and the probe shows it is left alone
    let head = base + hi as i64;
    let tail = head + used as i64;
    let hc: i64 = kani::any();
    kani::assume(0 <= hc && hc <= head && head - hc <= i32::MAX as i64 - CAP as i64);
    set_positions(m, head, tail, hc);
    let (cmd, id) = any_cmd();
    let len: i32 = kani::any();
    kani::assume(0 <= len && len <= MAX_MSG + 1);
    split!(len, |l| write_len(head, tail, hc, cmd, id, l, seen), 0, 1, 2, 3, 4, 5);
}

fn write_occupancies(base: i64, hi: usize, seen: &mut Seen) {
    let used: usize = kani::any();
    kani::assume(used <= CAP && used % 8 == 0);
    split!(used, |u| write_state(base, hi, u, seen), 0, 8, 16, 24, 32);
}

macro_rules! write_cover {
    ($seen:ident, plain) => { kani::cover!($seen.plain, "[must] accepted without wrap"); };
    ($seen:ident, wrap) => { kani::cover!($seen.wrap, "[must] wrap path: padding record + record at index 0"); };
    ($seen:ident, refuse) => { kani::cover!($seen.refuse, "[must] refuse path: insufficient capacity"); };
    ($seen:ident, too_long) => { kani::cover!($seen.too_long, "[must] over-long message refused"); };
    ($seen:ident, cache_refreshed) => { kani::cover!($seen.cache_refreshed, "[must] stale head cache refreshed from the consumer position"); };
    ($seen:ident, cache_sufficient) => { kani::cover!($seen.cache_sufficient, "[must] stale head cache sufficient, not refreshed"); };
}

/// every occupancy x every message length at head index `hi`, lap magnitude `base`
macro_rules! write_step_all {
    ($name:ident, $base:expr, $hi:expr, [$($kind:ident),*]) => {
        #[kani::proof]
        fn $name() {
            let mut seen = Seen::default();
            write_occupancies($base, $hi, &mut seen);
            $( write_cover!(seen, $kind); )*
        }
    };
}

/// one occupancy x every message length
macro_rules! write_step_one {
    ($name:ident, $base:expr, $hi:expr, $used:expr, [$($kind:ident),*]) => {
        #[kani::proof]
        fn $name() {
            let mut seen = Seen::default();
            write_state($base, $hi, $used, &mut seen);
            $( write_cover!(seen, $kind); )*
        }
    };
}

// Instance table (generated once, static text): one harness per state (lap magnitude, head index, occupancy); inside,
// the message length 0..=5 is chosen by the solver (6 instances per harness).  quick = every head index at lap 0 (empty
// / refused-on-wrap / wrap behind a record / full), plus every other lap magnitude at two alignments (head 24 / empty:
// the wrap alignment; head 16 / half full: tail on a lap boundary, crossing 2^31 resp. 2^32) = 72 instances.
// thorough = the full product 5 x 4 x 5 x 6 = 600 instances.
// @verif tier=quick fs=801 unwind=2
write_step_one!(c06_write_b0_h00_u00, B0, 0, 0, [plain, too_long]);
// @verif tier=thorough fs=801 unwind=2
write_step_one!(c06_write_b0_h00_u08, B0, 0, 8, [plain, too_long]);
// @verif tier=thorough fs=801 unwind=2
write_step_one!(c06_write_b0_h00_u16, B0, 0, 16, [plain, too_long]);
// @verif tier=thorough fs=801 unwind=2
write_step_one!(c06_write_b0_h00_u24, B0, 0, 24, [plain, refuse, too_long]);
// @verif tier=thorough fs=801 unwind=2
write_step_one!(c06_write_b0_h00_u32, B0, 0, 32, [refuse, too_long]);
// @verif tier=thorough fs=801 unwind=2
write_step_one!(c06_write_b0_h08_u00, B0, 8, 0, [plain, too_long]);
// @verif tier=thorough fs=801 unwind=2
write_step_one!(c06_write_b0_h08_u08, B0, 8, 8, [plain, too_long]);
// @verif tier=quick fs=801 unwind=2
write_step_one!(c06_write_b0_h08_u16, B0, 8, 16, [plain, refuse, too_long]);
// @verif tier=thorough fs=801 unwind=2
write_step_one!(c06_write_b0_h08_u24, B0, 8, 24, [plain, refuse, too_long]);
// @verif tier=thorough fs=801 unwind=2
write_step_one!(c06_write_b0_h08_u32, B0, 8, 32, [refuse, too_long]);
// @verif tier=thorough fs=801 unwind=2
write_step_one!(c06_write_b0_h16_u00, B0, 16, 0, [plain, too_long]);
// @verif tier=quick fs=801 unwind=2
write_step_one!(c06_write_b0_h16_u08, B0, 16, 8, [plain, wrap, too_long]);
// @verif tier=thorough fs=801 unwind=2
write_step_one!(c06_write_b0_h16_u16, B0, 16, 16, [plain, too_long]);
// @verif tier=thorough fs=801 unwind=2
write_step_one!(c06_write_b0_h16_u24, B0, 16, 24, [plain, refuse, too_long]);
// @verif tier=thorough fs=801 unwind=2
write_step_one!(c06_write_b0_h16_u32, B0, 16, 32, [refuse, too_long]);
// @verif tier=thorough fs=801 unwind=2
write_step_one!(c06_write_b0_h24_u00, B0, 24, 0, [plain, wrap, too_long]);
// @verif tier=thorough fs=801 unwind=2
write_step_one!(c06_write_b0_h24_u08, B0, 24, 8, [plain, too_long]);
// @verif tier=thorough fs=801 unwind=2
write_step_one!(c06_write_b0_h24_u16, B0, 24, 16, [plain, too_long]);
// @verif tier=thorough fs=801 unwind=2
write_step_one!(c06_write_b0_h24_u24, B0, 24, 24, [plain, refuse, too_long]);
// @verif tier=quick fs=801 unwind=2
write_step_one!(c06_write_b0_h24_u32, B0, 24, 32, [refuse, too_long]);
// @verif tier=thorough fs=801 unwind=2
write_step_one!(c06_write_b1_h00_u00, B1, 0, 0, [plain, too_long]);
// @verif tier=thorough fs=801 unwind=2
write_step_one!(c06_write_b1_h00_u08, B1, 0, 8, [plain, too_long]);
// @verif tier=thorough fs=801 unwind=2
write_step_one!(c06_write_b1_h00_u16, B1, 0, 16, [plain, too_long]);
// @verif tier=thorough fs=801 unwind=2
write_step_one!(c06_write_b1_h00_u24, B1, 0, 24, [plain, refuse, too_long]);
// @verif tier=thorough fs=801 unwind=2
write_step_one!(c06_write_b1_h00_u32, B1, 0, 32, [refuse, too_long]);
// @verif tier=thorough fs=801 unwind=2
write_step_one!(c06_write_b1_h08_u00, B1, 8, 0, [plain, too_long]);
// @verif tier=thorough fs=801 unwind=2
write_step_one!(c06_write_b1_h08_u08, B1, 8, 8, [plain, too_long]);
// @verif tier=quick fs=801 unwind=2
write_step_one!(c06_write_b1_h08_u16, B1, 8, 16, [plain, refuse, too_long]);
// @verif tier=thorough fs=801 unwind=2
write_step_one!(c06_write_b1_h08_u24, B1, 8, 24, [plain, refuse, too_long]);
// @verif tier=thorough fs=801 unwind=2
write_step_one!(c06_write_b1_h08_u32, B1, 8, 32, [refuse, too_long]);
// @verif tier=thorough fs=801 unwind=2
write_step_one!(c06_write_b1_h16_u00, B1, 16, 0, [plain, too_long]);
// @verif tier=thorough fs=801 unwind=2
write_step_one!(c06_write_b1_h16_u08, B1, 16, 8, [plain, wrap, too_long]);
// @verif tier=quick fs=801 unwind=2
write_step_one!(c06_write_b1_h16_u16, B1, 16, 16, [plain, too_long]);
// @verif tier=thorough fs=801 unwind=2
write_step_one!(c06_write_b1_h16_u24, B1, 16, 24, [plain, refuse, too_long]);
// @verif tier=thorough fs=801 unwind=2
write_step_one!(c06_write_b1_h16_u32, B1, 16, 32, [refuse, too_long]);
// @verif tier=quick fs=801 unwind=2
write_step_one!(c06_write_b1_h24_u00, B1, 24, 0, [plain, wrap, too_long]);
// @verif tier=thorough fs=801 unwind=2
write_step_one!(c06_write_b1_h24_u08, B1, 24, 8, [plain, too_long]);
// @verif tier=thorough fs=801 unwind=2
write_step_one!(c06_write_b1_h24_u16, B1, 24, 16, [plain, too_long]);
// @verif tier=thorough fs=801 unwind=2
write_step_one!(c06_write_b1_h24_u24, B1, 24, 24, [plain, refuse, too_long]);
// @verif tier=thorough fs=801 unwind=2
write_step_one!(c06_write_b1_h24_u32, B1, 24, 32, [refuse, too_long]);
// @verif tier=thorough fs=801 unwind=2
write_step_one!(c06_write_b2_h00_u00, B2, 0, 0, [plain, too_long]);
// @verif tier=thorough fs=801 unwind=2
write_step_one!(c06_write_b2_h00_u08, B2, 0, 8, [plain, too_long]);
// @verif tier=thorough fs=801 unwind=2
write_step_one!(c06_write_b2_h00_u16, B2, 0, 16, [plain, too_long]);
// @verif tier=thorough fs=801 unwind=2
write_step_one!(c06_write_b2_h00_u24, B2, 0, 24, [plain, refuse, too_long]);
// @verif tier=thorough fs=801 unwind=2
write_step_one!(c06_write_b2_h00_u32, B2, 0, 32, [refuse, too_long]);
// @verif tier=thorough fs=801 unwind=2
write_step_one!(c06_write_b2_h08_u00, B2, 8, 0, [plain, too_long]);
// @verif tier=thorough fs=801 unwind=2
write_step_one!(c06_write_b2_h08_u08, B2, 8, 8, [plain, too_long]);
// @verif tier=thorough fs=801 unwind=2
write_step_one!(c06_write_b2_h08_u16, B2, 8, 16, [plain, refuse, too_long]);
// @verif tier=thorough fs=801 unwind=2
write_step_one!(c06_write_b2_h08_u24, B2, 8, 24, [plain, refuse, too_long]);
// @verif tier=thorough fs=801 unwind=2
write_step_one!(c06_write_b2_h08_u32, B2, 8, 32, [refuse, too_long]);
// @verif tier=thorough fs=801 unwind=2
write_step_one!(c06_write_b2_h16_u00, B2, 16, 0, [plain, too_long]);
// @verif tier=thorough fs=801 unwind=2
write_step_one!(c06_write_b2_h16_u08, B2, 16, 8, [plain, wrap, too_long]);
// @verif tier=quick fs=801 unwind=2
write_step_one!(c06_write_b2_h16_u16, B2, 16, 16, [plain, too_long]);
// @verif tier=thorough fs=801 unwind=2
write_step_one!(c06_write_b2_h16_u24, B2, 16, 24, [plain, refuse, too_long]);
// @verif tier=thorough fs=801 unwind=2
write_step_one!(c06_write_b2_h16_u32, B2, 16, 32, [refuse, too_long]);
// @verif tier=quick fs=801 unwind=2
write_step_one!(c06_write_b2_h24_u00, B2, 24, 0, [plain, wrap, too_long]);
// @verif tier=thorough fs=801 unwind=2
write_step_one!(c06_write_b2_h24_u08, B2, 24, 8, [plain, too_long]);
// @verif tier=thorough fs=801 unwind=2
write_step_one!(c06_write_b2_h24_u16, B2, 24, 16, [plain, too_long]);
// @verif tier=thorough fs=801 unwind=2
write_step_one!(c06_write_b2_h24_u24, B2, 24, 24, [plain, refuse, too_long]);
// @verif tier=thorough fs=801 unwind=2
write_step_one!(c06_write_b2_h24_u32, B2, 24, 32, [refuse, too_long]);
// @verif tier=thorough fs=801 unwind=2
write_step_one!(c06_write_b3_h00_u00, B3, 0, 0, [plain, too_long]);
// @verif tier=thorough fs=801 unwind=2
write_step_one!(c06_write_b3_h00_u08, B3, 0, 8, [plain, too_long]);
// @verif tier=thorough fs=801 unwind=2
write_step_one!(c06_write_b3_h00_u16, B3, 0, 16, [plain, too_long]);
// @verif tier=thorough fs=801 unwind=2
write_step_one!(c06_write_b3_h00_u24, B3, 0, 24, [plain, refuse, too_long]);
// @verif tier=thorough fs=801 unwind=2
write_step_one!(c06_write_b3_h00_u32, B3, 0, 32, [refuse, too_long]);
// @verif tier=thorough fs=801 unwind=2
write_step_one!(c06_write_b3_h08_u00, B3, 8, 0, [plain, too_long]);
// @verif tier=thorough fs=801 unwind=2
write_step_one!(c06_write_b3_h08_u08, B3, 8, 8, [plain, too_long]);
// @verif tier=thorough fs=801 unwind=2
write_step_one!(c06_write_b3_h08_u16, B3, 8, 16, [plain, refuse, too_long]);
// @verif tier=thorough fs=801 unwind=2
write_step_one!(c06_write_b3_h08_u24, B3, 8, 24, [plain, refuse, too_long]);
// @verif tier=thorough fs=801 unwind=2
write_step_one!(c06_write_b3_h08_u32, B3, 8, 32, [refuse, too_long]);
// @verif tier=thorough fs=801 unwind=2
write_step_one!(c06_write_b3_h16_u00, B3, 16, 0, [plain, too_long]);
// @verif tier=thorough fs=801 unwind=2
write_step_one!(c06_write_b3_h16_u08, B3, 16, 8, [plain, wrap, too_long]);
// @verif tier=quick fs=801 unwind=2
write_step_one!(c06_write_b3_h16_u16, B3, 16, 16, [plain, too_long]);
// @verif tier=thorough fs=801 unwind=2
write_step_one!(c06_write_b3_h16_u24, B3, 16, 24, [plain, refuse, too_long]);
// @verif tier=thorough fs=801 unwind=2
write_step_one!(c06_write_b3_h16_u32, B3, 16, 32, [refuse, too_long]);
// @verif tier=quick fs=801 unwind=2
write_step_one!(c06_write_b3_h24_u00, B3, 24, 0, [plain, wrap, too_long]);
// @verif tier=thorough fs=801 unwind=2
write_step_one!(c06_write_b3_h24_u08, B3, 24, 8, [plain, too_long]);
// @verif tier=thorough fs=801 unwind=2
write_step_one!(c06_write_b3_h24_u16, B3, 24, 16, [plain, too_long]);
// @verif tier=thorough fs=801 unwind=2
write_step_one!(c06_write_b3_h24_u24, B3, 24, 24, [plain, refuse, too_long]);
// @verif tier=thorough fs=801 unwind=2
write_step_one!(c06_write_b3_h24_u32, B3, 24, 32, [refuse, too_long]);
// @verif tier=thorough fs=801 unwind=2
write_step_one!(c06_write_b4_h00_u00, B4, 0, 0, [plain, too_long]);
// @verif tier=thorough fs=801 unwind=2
write_step_one!(c06_write_b4_h00_u08, B4, 0, 8, [plain, too_long]);
// @verif tier=thorough fs=801 unwind=2
write_step_one!(c06_write_b4_h00_u16, B4, 0, 16, [plain, too_long]);
// @verif tier=thorough fs=801 unwind=2
write_step_one!(c06_write_b4_h00_u24, B4, 0, 24, [plain, refuse, too_long]);
// @verif tier=thorough fs=801 unwind=2
write_step_one!(c06_write_b4_h00_u32, B4, 0, 32, [refuse, too_long]);
// @verif tier=thorough fs=801 unwind=2
write_step_one!(c06_write_b4_h08_u00, B4, 8, 0, [plain, too_long]);
// @verif tier=thorough fs=801 unwind=2
write_step_one!(c06_write_b4_h08_u08, B4, 8, 8, [plain, too_long]);
// @verif tier=thorough fs=801 unwind=2
write_step_one!(c06_write_b4_h08_u16, B4, 8, 16, [plain, refuse, too_long]);
// @verif tier=thorough fs=801 unwind=2
write_step_one!(c06_write_b4_h08_u24, B4, 8, 24, [plain, refuse, too_long]);
// @verif tier=thorough fs=801 unwind=2
write_step_one!(c06_write_b4_h08_u32, B4, 8, 32, [refuse, too_long]);
// @verif tier=thorough fs=801 unwind=2
write_step_one!(c06_write_b4_h16_u00, B4, 16, 0, [plain, too_long]);
// @verif tier=thorough fs=801 unwind=2
write_step_one!(c06_write_b4_h16_u08, B4, 16, 8, [plain, wrap, too_long]);
// @verif tier=quick fs=801 unwind=2
write_step_one!(c06_write_b4_h16_u16, B4, 16, 16, [plain, too_long]);
// @verif tier=thorough fs=801 unwind=2
write_step_one!(c06_write_b4_h16_u24, B4, 16, 24, [plain, refuse, too_long]);
// @verif tier=thorough fs=801 unwind=2
write_step_one!(c06_write_b4_h16_u32, B4, 16, 32, [refuse, too_long]);
// @verif tier=quick fs=801 unwind=2
write_step_one!(c06_write_b4_h24_u00, B4, 24, 0, [plain, wrap, too_long]);
// @verif tier=thorough fs=801 unwind=2
write_step_one!(c06_write_b4_h24_u08, B4, 24, 8, [plain, too_long]);
// @verif tier=thorough fs=801 unwind=2
write_step_one!(c06_write_b4_h24_u16, B4, 24, 16, [plain, too_long]);
// @verif tier=thorough fs=801 unwind=2
write_step_one!(c06_write_b4_h24_u24, B4, 24, 24, [plain, refuse, too_long]);
// @verif tier=thorough fs=801 unwind=2
write_step_one!(c06_write_b4_h24_u32, B4, 24, 32, [refuse, too_long]);

/// `write` with the padding type (the only member of the type set below 1): refused, nothing changes.
// @verif tier=quick fs=801 unwind=2
#[kani::proof]
fn c06_write_rejects_non_positive_type() {
    let m = ring_mem();
    fill_data(m);
    set_positions(m, B1 + 8, B1 + 16, B1 + 8);
    let mut src = Mem::<8>::any();
    let p: usize = kani::any();
    kani::assume(p < N);
    let before = m.byte(p);
    let len: i32 = kani::any();
    kani::assume(0 <= len && len <= MAX_MSG);
    let rb = ring();
    match rb.write(AeronCommand::Padding, src.buf(), 0, len) {
        Ok(()) => assert!(false, "C06: a command with type id < 1 was accepted"),
        Err(e) => assert!(matches!(e, RingBufferError::NonPositiveMessageTypeId(-1)), "C06: type id < 1 is refused as such"),
    }
    assert!(m.byte(p) == before, "C06: a refused write changed the ring");
    kani::cover!(len == MAX_MSG, "[must] refusal with a maximal message explored");
}

/// d. head-cache staleness: the dedicated instances whose covers demand both the "stale but sufficient" and the
/// "stale, refreshed" path (lap magnitudes > 0 so that earlier consumer positions exist).
// @verif tier=quick fs=801 unwind=2
write_step_one!(c06_head_cache_stale_plain, B1, 8, 8, [plain, cache_refreshed, cache_sufficient]);
// @verif tier=quick fs=801 unwind=2
write_step_one!(c06_head_cache_stale_wrap, B3, 24, 0, [wrap, cache_refreshed, cache_sufficient]);

// ------------------------------------------------------------------------------------------------------------------
// b.  read step
// ------------------------------------------------------------------------------------------------------------------

#[derive(Copy, Clone)]
pub struct Cmd {
    pub id: i32,
    pub len: i32,
    pub bytes: [u8; 8],
}
pub const NO_CMD: Cmd = Cmd { id: 0, len: 0, bytes: [0; 8] };

/// What the consumer's handler was given, in call order.
#[derive(Copy, Clone)]
pub struct Log {
    pub n: usize,
    pub id: [i32; 4],
    pub len: [i32; 4],
    pub bytes: [[u8; 4]; 4],
    pub overflow: bool,
}
pub const EMPTY_LOG: Log = Log { n: 0, id: [0; 4], len: [0; 4], bytes: [[0; 4]; 4], overflow: false };

pub fn log_push(log: &mut Log, t: AeronCommand, b: AtomicBuffer) {
    if log.n >= 4 {
        log.overflow = true;
        return;
    }
    let k = log.n;
    let n = b.capacity();
    log.id[k] = t as i32;
    log.len[k] = n;
    if n > 0 {
        log.bytes[k][0] = b.get::<u8>(0);
    }
    if n > 1 {
        log.bytes[k][1] = b.get::<u8>(1);
    }
    if n > 2 {
        log.bytes[k][2] = b.get::<u8>(2);
    }
    if n > 3 {
        log.bytes[k][3] = b.get::<u8>(3);
    }
    log.n = k + 1;
}

/// log entry k is command c, intact
pub fn delivered_is(log: &Log, k: usize, c: &Cmd) -> bool {
    let j: usize = kani::any();
    kani::assume(j < 4);
    log.id[k] == c.id && log.len[k] == c.len && (j >= c.len as usize || log.bytes[k][j] == c.bytes[j])
}

/// Command types of the commands that are read back.  They are literals: `read` fetches length and type as ONE
/// 64-bit header word and CBMC does not fold `(header & 0xFFFF_FFFF)` of a half-symbolic word, so a symbolic type makes
/// the length - the layout - symbolic (measured: 2-3.8 M variables per read instead of 0.2 M).  Every type id is
/// covered by the write step (any id lands in the type word) and by `c06_read_any_type` (any id comes back).
pub const TYPES: [AeronCommand; 4] =
    [AeronCommand::AddPublication, AeronCommand::TerminateDriver, AeronCommand::ResponseOnClientTimeout, AeronCommand::AddCounter];

/// a real `write` of a command with literal type and length, symbolic bytes; must be accepted
pub fn produce(rb: &ManyToOneRingBuffer, cmd: AeronCommand, len: i32) -> Cmd {
    let mut src = Mem::<8>::any();
    vok!(rb.write(cmd, src.buf(), 0, len), "C06: harness instance: pre-fill write fits");
    Cmd { id: cmd as i32, len, bytes: src.0 }
}

/// One record of the ring in position order as the property statement lays it out.
#[derive(Copy, Clone)]
pub struct Entry {
    pub pos: i64,
    pub alen: i64,
    pub msg: i32, // index of the command, -1 = padding
}
pub const NO_ENTRY: Entry = Entry { pos: 0, alen: 0, msg: -1 };

#[derive(Copy, Clone)]
pub struct Layout {
    pub e: [Entry; 8],
    pub n: usize,
    pub tail: i64,
}

/// add command number `msg` of length `len` to the layout (spec placement; must fit)
pub fn layout_add(l: &mut Layout, head: i64, msg: i32, len: i32) {
    let sp = spec_place(head, l.tail, len as i64);
    assert!(sp.accept, "C06: harness instance: command fits by the placement rule");
    if sp.padding != 0 {
        l.e[l.n] = Entry { pos: l.tail, alen: sp.padding, msg: -1 };
        l.n += 1;
    }
    l.e[l.n] = Entry { pos: l.tail + sp.padding, alen: sp.required, msg };
    l.n += 1;
    l.tail = sp.new_tail;
}

#[derive(Copy, Clone, Default)]
pub struct ReadSeen {
    pub cut: bool,
    pub all: bool,
    pub none: bool,
    pub pad: bool,
}

/// The read step under test: `read(handler, limit)` with ANY limit from the current (literal) state of the ring,
/// checked against the layout `l` (commands `w`), `d0` commands delivered before.
pub fn read_step_check(rb: &ManyToOneRingBuffer, l: &Layout, w: &[Cmd; 4], log: &mut Log, seen: &mut ReadSeen) {
    let m = ring_mem();
    let head = m.i64_at(HEAD_AT);
    let tail = m.i64_at(TAIL_AT);
    assert!(tail == l.tail, "C06: producer position equals the sum of what was written");
    let d0 = log.n;
    // entry at the consumer position
    let mut e0 = l.n;
    let mut k = 0;
    while k < l.n {
        if l.e[k].pos == head {
            e0 = k;
        }
        k += 1;
    }
    assert!(e0 < l.n || head == tail, "C06: consumer position is a record boundary");
    let hidx = (head as i128 % CAP as i128) as i64;
    let block_end = head + (CAP as i64 - hidx);
    // messages inside the contiguous block [head, end of data area)
    let mut in_block = 0;
    let mut k = e0;
    while k < l.n {
        if l.e[k].pos < block_end && l.e[k].msg >= 0 {
            in_block += 1;
        }
        k += 1;
    }
    let limit: i32 = kani::any();
    let q: usize = kani::any();
    kani::assume(q < CAP);
    let before_q = m.byte(q);
    let p: usize = kani::any();
    kani::assume(p >= CAP && p < N && !(p >= HEAD_AT && p < HEAD_AT + 8));
    let before_p = m.byte(p);

    let c = rb.read(|t, b| log_push(log, t, b), limit);

    let want = if limit <= 0 { 0 } else if (limit as i64) < in_block { limit as i64 } else { in_block };
    assert!(c as i64 == want, "C06: read hands out min(limit, committed commands up to the end of the data area) commands");
    assert!(!log.overflow && log.n == d0 + c as usize, "C06: handler called exactly once per command read");
    // everything handed out so far is the written sequence, in order, intact, without repetition
    let mut i = 0;
    while i < 4 {
        if i < log.n {
            assert!(delivered_is(log, i, &w[i]), "C06: commands are delivered in the order written, each once, with the type and bytes written");
        }
        i += 1;
    }
    let h2 = m.i64_at(HEAD_AT);
    assert!(h2 <= tail, "C06: consumer position passed the producer position");
    assert!(h2 >= head && h2 <= block_end, "C06: consumer position moves forward inside the contiguous block");
    // h2 is a record boundary with exactly the delivered commands below it
    let mut below = 0;
    let mut boundary = h2 == head || h2 == tail;
    let mut k = e0;
    while k < l.n {
        if l.e[k].pos == h2 {
            boundary = true;
        }
        if l.e[k].msg >= 0 && l.e[k].pos + l.e[k].alen <= h2 {
            below += 1;
        }
        if l.e[k].msg < 0 && l.e[k].pos >= head && l.e[k].pos + l.e[k].alen <= h2 {
            seen.pad = true;
        }
        k += 1;
    }
    assert!(boundary, "C06: consumer position stops at a record boundary");
    assert!(below == c as i64, "C06: the space consumed is exactly the space of the commands handed out (plus padding)");
    let qpos = head - hidx + q as i64; // position of data byte q in the lap of the consumer
    if qpos >= head && qpos < h2 {
        assert!(m.byte(q) == 0, "C06: consumed space is returned zeroed");
    } else {
        assert!(m.byte(q) == before_q, "C06: read changed data outside the space it consumed");
    }
    assert!(m.byte(p) == before_p, "C06: read changed the trailer apart from the consumer position");
    assert!(rb.size() as i64 == tail - h2, "C06: size() is producer position - consumer position");
    if c as i64 == in_block && in_block > 0 {
        seen.all = true;
    }
    if (c as i64) < in_block && c > 0 {
        seen.cut = true;
    }
    if c == 0 {
        seen.none = true;
    }
}

macro_rules! read_cover {
    ($seen:ident, cut) => { kani::cover!($seen.cut, "[must] limit stops the read before the last committed command"); };
    ($seen:ident, all) => { kani::cover!($seen.all, "[must] every committed command of the block handed out"); };
    ($seen:ident, none) => { kani::cover!($seen.none, "[must] read that hands out nothing"); };
    ($seen:ident, pad) => { kani::cover!($seen.pad, "[must] padding record consumed"); };
}

/// ring at (base + hi), empty and zeroed; real writes of the literal lengths; reads with the literal limits `pre`; then
/// the read step with a symbolic limit.
macro_rules! read_step {
    ($name:ident, $base:expr, $hi:expr, [$($len:expr),*], [$($pre:expr),*], [$($kind:ident),*]) => {
        #[kani::proof]
        fn $name() {
            let m = ring_mem();
            let head: i64 = $base + $hi;
            set_positions(m, head, head, head);
            let rb = ring();
            let mut w = [NO_CMD; 4];
            let mut l = Layout { e: [NO_ENTRY; 8], n: 0, tail: head };
            let mut nw = 0usize;
            $(
                w[nw] = produce(&rb, TYPES[nw], $len);
                layout_add(&mut l, head, nw as i32, $len);
                nw += 1;
            )*
            let mut log = EMPTY_LOG;
            $( let _ = rb.read(|t, b| log_push(&mut log, t, b), $pre); )*
            let mut seen = ReadSeen::default();
            read_step_check(&rb, &l, &w, &mut log, &mut seen);
            $( read_cover!(seen, $kind); )*
        }
    };
}

// full ring 16 + 8 + 8 from index 0: limit decides among 0..3 commands
// @verif tier=quick unwind=9 unwindset=claim:2,RingBuffer4read:6,set_memory:33
read_step!(c06_read_full_from_0, B0, 0, [4, 0, 0], [], [cut, all, none]);
// wrapped fill: record at 16, padding at 24, record at 0 (full); first block holds one command + the padding
// @verif tier=quick unwind=9 unwindset=claim:2,RingBuffer4read:6,set_memory:17
read_step!(c06_read_wrapped_first_block, B1, 16, [0, 3], [], [all, none, pad]);
// same ring after a read with limit 1: the consumer stands on the padding record
// @verif tier=thorough unwind=9 unwindset=claim:2,RingBuffer4read:6,set_memory:9
read_step!(c06_read_wrapped_on_padding, B1, 16, [0, 3], [1], [none, pad]);
// same ring after the first block was consumed: consumer at index 0 of the next lap
// @verif tier=thorough unwind=9 unwindset=claim:2,RingBuffer4read:6,set_memory:17
read_step!(c06_read_wrapped_second_block, B1, 16, [0, 3], [i32::MAX], [all, none]);
// positions crossing 2^31: padding at 2^31-8, records at 2^31 and 2^31+16; the padding consumed before
// @verif tier=quick unwind=9 unwindset=claim:2,RingBuffer4read:6,set_memory:25
read_step!(c06_read_across_2_31, B2, 24, [4, 0], [i32::MAX], [cut, all, none]);
// partly filled ring at 2^40 + 8, three commands (the third wrapped to index 0), one consumed before
// @verif tier=thorough unwind=9 unwindset=claim:2,RingBuffer4read:6,set_memory:17
read_step!(c06_read_partial_2_40, B4, 8, [0, 1, 0], [1], [all, none]);
// empty ring (everything consumed): nothing handed out, nothing changes
// @verif tier=thorough unwind=9 unwindset=claim:2,RingBuffer4read:6,set_memory:17
read_step!(c06_read_drained_2_32, B3, 8, [2], [5], [none]);
// the remaining head alignments
// @verif tier=thorough unwind=9 unwindset=claim:2,RingBuffer4read:6,set_memory:25
read_step!(c06_read_h08, B0, 8, [3, 0], [], [cut, all, none]);
// @verif tier=thorough unwind=9 unwindset=claim:2,RingBuffer4read:6,set_memory:9
read_step!(c06_read_h24_wrap, B0, 24, [2, 0], [], [none, pad]);

/// any command type comes back as written: one command with a symbolic type id, any limit
// @verif tier=quick unwind=9 unwindset=claim:2,RingBuffer4read:6,set_memory:17
#[kani::proof]
fn c06_read_any_type() {
    let m = ring_mem();
    let head: i64 = B3 + 8;
    set_positions(m, head, head, head);
    let rb = ring();
    let mut src = Mem::<8>::any();
    let (cmd, id) = any_cmd();
    vok!(rb.write(cmd, src.buf(), 0, 3), "C06: harness instance: pre-fill write fits");
    let mut w = [NO_CMD; 4];
    w[0] = Cmd { id, len: 3, bytes: src.0 };
    let mut l = Layout { e: [NO_ENTRY; 8], n: 0, tail: head };
    layout_add(&mut l, head, 0, 3);
    let mut log = EMPTY_LOG;
    let mut seen = ReadSeen::default();
    read_step_check(&rb, &l, &w, &mut log, &mut seen);
    kani::cover!(seen.all && log.id[0] == 0x0F09, "[must] a response-range type id read back");
    kani::cover!(seen.all && log.id[0] == 0x01, "[must] the smallest type id read back");
}

// ------------------------------------------------------------------------------------------------------------------
// c.  correlation ids
// ------------------------------------------------------------------------------------------------------------------

/// two ids from any counter value: distinct; increasing by one (below the i64 wrap); nothing else touched
// @verif tier=quick fs=801 unwind=2
#[kani::proof]
fn c06_correlation_ids_unique_increasing() {
    let m = ring_mem();
    fill_data(m);
    set_positions(m, B1, B1 + 8, B1);
    let start: i64 = kani::any();
    m.set_i64(CORR_AT, start);
    let p: usize = kani::any();
    kani::assume(p < N && !(p >= CORR_AT && p < CORR_AT + 8));
    let before = m.byte(p);
    let rb = ring();
    let a = rb.next_correlation_id();
    let b = rb.next_correlation_id();
    assert!(a == start, "C06: the id handed out is the counter value");
    assert!(a != b, "C06: two correlation ids handed out are distinct");
    if start < i64::MAX {
        assert!(b == a + 1 && b > a, "C06: correlation ids increase");
    }
    assert!(m.i64_at(CORR_AT) == start.wrapping_add(2), "C06: the counter advances once per id");
    assert!(m.byte(p) == before, "C06: next_correlation_id touched something besides its counter");
    kani::cover!(start == i64::MAX, "[must] counter at the i64 wrap explored");
}

// ------------------------------------------------------------------------------------------------------------------
// e.  two parties mid-operation, one preemption (access hook)
// ------------------------------------------------------------------------------------------------------------------
// Schedule A[0..j) . X . A[j..] for every shared-memory access j of producer A's `write`, X = a COMPLETE operation of
// another party on the same ring (producer B's write / the consumer's read).  j is chosen by the solver and
// case-split into literal arms (the preemption point decides the layout).  j beyond A's last access = X after A.

pub const CMD_A: AeronCommand = AeronCommand::AddSubscription; // 0x04
pub const CMD_B: AeronCommand = AeronCommand::RemoveCounter; // 0x0A

fn env_b_write() {
    let w = world();
    w.b_ran = true;
    let rb = ring();
    w.b_ok = match rb.write(w.b_cmd, w.b_src.buf(), 0, w.b_len) {
        Ok(()) => true,
        Err(e) => false,
    };
}

fn env_consumer_read() {
    let w = world();
    w.c_ran = true;
    let rb = ring();
    let log = unsafe { &mut *std::ptr::addr_of_mut!(W.log) };
    w.c_count = rb.read(|t, b| log_push(log, t, b), w.c_limit);
}

#[derive(Copy, Clone, Default)]
pub struct ConcSeen {
    pub before_cas: bool,
    pub after_cas: bool,
    pub sequential: bool,
    pub refused: bool,
    pub helped: bool,
}

/// the record (and wrap padding header) a placement `sp` promises is in the ring
pub fn placed(m: &Ring, sp: &Place, len: i32, id: i32, bytes: &[u8; 8]) -> bool {
    record_is(m, sp.index, len, id, bytes)
        && (sp.padding == 0 || (m.i32_at(sp.tail_index) == sp.padding as i32 && m.i32_at(sp.tail_index + 4) == -1))
}

/// drain the ring with up to three unlimited reads (a wrap needs one read per block)
pub fn drain(rb: &ManyToOneRingBuffer, log: &mut Log) {
    let _ = rb.read(|t, b| log_push(log, t, b), i32::MAX);
    let _ = rb.read(|t, b| log_push(log, t, b), i32::MAX);
    let _ = rb.read(|t, b| log_push(log, t, b), i32::MAX);
}

/// Producer A (length la) preempted at access j by producer B's complete write (length lb) on an empty ring at `head`.
fn two_producers_at(j: u32, head: i64, la: i32, lb: i32, seen: &mut ConcSeen) {
    let m = ring_mem();
    set_positions(m, head, head, head);
    let w = world();
    w.b_src = Mem::<8>::any();
    w.b_cmd = CMD_B;
    w.b_len = lb;
    w.b_ran = false;
    w.b_ok = false;
    let mut src_a = Mem::<8>::any();
    let rb = ring();
    hook::begin(u32::MAX, j, Some(env_b_write as fn()), false);
    let ra = rb.write(CMD_A, src_a.buf(), 0, la);
    let n = hook::end();
    let during = w.b_ran;
    if !w.b_ran {
        env_b_write();
    }
    let a_ok = ra.is_ok();
    let b_ok = w.b_ok;
    // the two sequential orders by the placement rule
    let a1 = spec_place(head, head, la as i64);
    let t_a = if a1.accept { a1.new_tail } else { head };
    let b2 = spec_place(head, t_a, lb as i64);
    let t_ab = if b2.accept { b2.new_tail } else { t_a };
    let b1 = spec_place(head, head, lb as i64);
    let t_b = if b1.accept { b1.new_tail } else { head };
    let a2 = spec_place(head, t_b, la as i64);
    let t_ba = if a2.accept { a2.new_tail } else { t_b };
    let tail = m.i64_at(TAIL_AT);
    let (ida, idb) = (CMD_A as i32, CMD_B as i32);
    let ab = a_ok == a1.accept && b_ok == b2.accept && tail == t_ab
        && (!a_ok || placed(m, &a1, la, ida, &src_a.0)) && (!b_ok || placed(m, &b2, lb, idb, &w.b_src.0));
    let ba = a_ok == a2.accept && b_ok == b1.accept && tail == t_ba
        && (!a_ok || placed(m, &a2, la, ida, &src_a.0)) && (!b_ok || placed(m, &b1, lb, idb, &w.b_src.0));
    assert!(ab || ba, "C06: two concurrent writes leave the ring as one of the two sequential orders would: both records present once, intact, non-overlapping, capacity accounting exact");
    assert!(m.i64_at(HEAD_AT) == head, "C06: producers never move the consumer position");
    assert!(tail - head <= CAP as i64, "C06: unconsumed bytes never exceed the capacity");
    if during && ba && !ab {
        seen.before_cas = true;
    }
    if during && ab && !ba {
        seen.after_cas = true;
    }
    if !during {
        seen.sequential = true;
    }
    if !(a_ok && b_ok) {
        seen.refused = true;
    }
    // the consumer hands each accepted command out exactly once, in ring order
    let mut log = EMPTY_LOG;
    drain(&rb, &mut log);
    let ca = Cmd { id: ida, len: la, bytes: src_a.0 };
    let cb = Cmd { id: idb, len: lb, bytes: w.b_src.0 };
    let want = a_ok as usize + b_ok as usize;
    assert!(!log.overflow && log.n == want, "C06: every accepted command is handed out exactly once");
    if a_ok && b_ok {
        let (first, second) = if ab { (&ca, &cb) } else { (&cb, &ca) };
        assert!(delivered_is(&log, 0, first) && delivered_is(&log, 1, second), "C06: commands come out intact in claim order");
    } else if a_ok {
        assert!(delivered_is(&log, 0, &ca), "C06: the accepted command comes out intact");
    } else if b_ok {
        assert!(delivered_is(&log, 0, &cb), "C06: the accepted command comes out intact");
    }
    assert!(m.i64_at(HEAD_AT) == tail, "C06: a drained ring has consumer position == producer position");
    let q: usize = kani::any();
    kani::assume(q < CAP);
    assert!(m.byte(q) == 0, "C06: consumed space is returned zeroed");
}

macro_rules! conc_cover {
    ($seen:ident, before_cas) => { kani::cover!($seen.before_cas, "[must] interference before the claim CAS: the other producer's record comes first"); };
    ($seen:ident, after_cas) => { kani::cover!($seen.after_cas, "[must] interference after the claim CAS: the preempted producer's record comes first"); };
    ($seen:ident, sequential) => { kani::cover!($seen.sequential, "[must] preemption point beyond the last access (sequential order)"); };
    ($seen:ident, refused) => { kani::cover!($seen.refused, "[must] one of the writes refused for lack of space"); };
    ($seen:ident, helped) => { kani::cover!($seen.helped, "[must] write accepted thanks to the concurrent read"); };
}

macro_rules! two_producers {
    ($name:ident, $head:expr, $la:expr, $lb:expr, [$($j:expr),+], [$($kind:ident),*]) => {
        #[kani::proof]
        fn $name() {
            let mut seen = ConcSeen::default();
            let j: u32 = kani::any();
            split!(j, |k| two_producers_at(k, $head, $la, $lb, &mut seen), $($j),+);
            $( conc_cover!(seen, $kind); )*
        }
    };
}

// empty ring at 3 laps, A = 4 bytes, B = 1 byte: both fit without wrap
// @verif tier=quick fs=801 unwind=4 unwindset=claim:3,RingBuffer4read:6,set_memory:33
two_producers!(c06_conc_two_producers_plain_early, B1, 4, 1, [0, 1, 2, 3], [before_cas, after_cas]);
// @verif tier=quick fs=801 unwind=4 unwindset=claim:3,RingBuffer4read:6,set_memory:33
two_producers!(c06_conc_two_producers_plain_late, B1, 4, 1, [4, 5, 6, 7], [after_cas, sequential]);
// empty ring at 2^31 - 8 (index 24): whoever claims first decides who wraps (A first: padding + A at 0, B at 16;
// B first: B at 24, A at 0 without padding)
// @verif tier=quick fs=801 unwind=4 unwindset=claim:3,RingBuffer4read:6,set_memory:33
two_producers!(c06_conc_two_producers_wrap_early, B2 + 24, 4, 0, [0, 1, 2, 3, 4], [before_cas, after_cas]);
// @verif tier=thorough fs=801 unwind=4 unwindset=claim:3,RingBuffer4read:6,set_memory:33
two_producers!(c06_conc_two_producers_wrap_late, B2 + 24, 4, 0, [5, 6, 7, 8, 9, 10], [after_cas, sequential]);
/// Full ring (two 16-byte records); producer A (length la) preempted at access j by a complete consumer read with
/// limit `lim`, which frees space.
fn producer_vs_consumer_at(j: u32, head: i64, la: i32, lim: i32, r: &[Cmd; 4], seen: &mut ConcSeen) {
    let m = ring_mem();
    let w = world();
    w.c_limit = lim;
    w.c_ran = false;
    w.c_count = 0;
    w.log = EMPTY_LOG;
    let tail = m.i64_at(TAIL_AT);
    let mut src_a = Mem::<8>::any();
    let rb = ring();
    hook::begin(u32::MAX, j, Some(env_consumer_read as fn()), false);
    let ra = rb.write(CMD_A, src_a.buf(), 0, la);
    let n = hook::end();
    let during = w.c_ran;
    if !w.c_ran {
        env_consumer_read();
    }
    let a_ok = ra.is_ok();
    let head2 = m.i64_at(HEAD_AT);
    assert!(w.c_count == lim && head2 == head + 16 * lim as i64, "C06: the consumer's read is not disturbed by a concurrent write");
    // A decided either before the consumer freed the space or after it
    let before = spec_place(head, tail, la as i64);
    let after = spec_place(head2, tail, la as i64);
    assert!(!before.accept && after.accept, "C06: harness instance: the read makes the difference");
    let tail2 = m.i64_at(TAIL_AT);
    if a_ok {
        assert!(during, "C06: write accepted although unconsumed bytes + record exceed the capacity");
        assert!(tail2 == after.new_tail && placed(m, &after, la, CMD_A as i32, &src_a.0), "C06: accepted record placed by the rule on the freed space");
        seen.helped = true;
    } else {
        assert!(tail2 == tail, "C06: a refused write leaves the producer position alone");
    }
    assert!(tail2 - head2 <= CAP as i64 && head2 <= tail2, "C06: unconsumed bytes stay within 0..=capacity");
    // everything written is handed out exactly once, in order
    let log = unsafe { &mut *std::ptr::addr_of_mut!(W.log) };
    drain(&rb, log);
    let ca = Cmd { id: CMD_A as i32, len: la, bytes: src_a.0 };
    assert!(!log.overflow && log.n == 2 + a_ok as usize, "C06: every accepted command is handed out exactly once");
    assert!(delivered_is(log, 0, &r[0]) && delivered_is(log, 1, &r[1]), "C06: earlier commands come out first, intact");
    if a_ok {
        assert!(delivered_is(log, 2, &ca), "C06: the concurrently written command comes out intact");
    }
    assert!(m.i64_at(HEAD_AT) == tail2, "C06: a drained ring has consumer position == producer position");
}

macro_rules! producer_vs_consumer {
    ($name:ident, $head:expr, $la:expr, $lim:expr, [$($j:expr),+], [$($kind:ident),*]) => {
        #[kani::proof]
        fn $name() {
            let m = ring_mem();
            let head: i64 = $head;
            set_positions(m, head, head, head);
            let rb = ring();
            let mut r = [NO_CMD; 4];
            r[0] = produce(&rb, TYPES[0], 4);
            r[1] = produce(&rb, TYPES[1], 3);
            let mut seen = ConcSeen::default();
            let j: u32 = kani::any();
            split!(j, |k| producer_vs_consumer_at(k, head, $la, $lim, &r, &mut seen), $($j),+);
            $( conc_cover!(seen, $kind); )*
        }
    };
}

// Arms j = 0, 1, 2 only: the producer looks at the consumer position in its access 2 and gives up right there when the
// ring is still full, so every later preemption point is the plain sequential order "write refused, then read" (write
// step + read step).  (A refused write followed by more ring operations is also what CBMC cannot constant-fold: the
// niche-encoded Result discriminant stays symbolic and the accepting path is explored as well.)
// @verif tier=quick fs=801 unwind=4 unwindset=claim:3,RingBuffer4read:6,set_memory:33
producer_vs_consumer!(c06_conc_consumer_frees_space, B3, 4, 1, [0, 1, 2], [helped]);
// the consumer frees the whole ring; header-only message
// @verif tier=thorough fs=801 unwind=4 unwindset=claim:3,RingBuffer4read:6,set_memory:33
producer_vs_consumer!(c06_conc_consumer_frees_all, B0, 0, 2, [0, 1, 2], [helped]);

// ------------------------------------------------------------------------------------------------------------------
// vacuity witnesses
// ------------------------------------------------------------------------------------------------------------------

/// The write family must be able to fail: "a wrapping write puts its record at the tail index" is false.
// @verif tier=quick twin=1 fs=801 unwind=2
#[kani::proof]
fn c06_twin_wrapping_write_stays_at_tail_index() {
    let m = ring_mem();
    set_positions(m, B1 + 24, B1 + 24, B1 + 24);
    let rb = ring();
    let c = produce(&rb, TYPES[0], 4);
    assert!(m.i32_at(24) == 12 && m.i32_at(0) == 0, "C06: TWIN a wrapping write puts its record at the tail index");
}

/// The read family must be able to fail: "read never hands anything out" is false.
// @verif tier=quick twin=1 fs=801 unwind=4 unwindset=claim:2,RingBuffer4read:6,set_memory:17
#[kani::proof]
fn c06_twin_read_hands_out_nothing() {
    let m = ring_mem();
    set_positions(m, B1 + 8, B1 + 8, B1 + 8);
    let rb = ring();
    let c = produce(&rb, TYPES[1], 2);
    let mut log = EMPTY_LOG;
    let n = rb.read(|t, b| log_push(&mut log, t, b), 1);
    assert!(n == 0 && log.n == 0, "C06: TWIN read never hands anything out");
}
