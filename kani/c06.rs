//! C06 harnesses.
