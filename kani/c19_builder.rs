//! C19 harnesses that need the URI builder's private fields (child module of channel_uri_string_builder.rs via hook H4).
//!
//! SETTER FRAME CONDITIONS.  Every public mutator of `ChannelUriStringBuilder` is called once on an ARBITRARY builder
//! (every `Option<Value>` field: presence and payload symbolic; every string field: absent or present with symbolic
//! ASCII content, the three validated string fields restricted to the values their own validation lets in) with a
//! symbolic argument.  The builder is snapshotted field by field before and after the call and compared with the
//! expected state written from the Aeron builder contract (Java/C++ `ChannelUriStringBuilder`):
//!   * legal argument  -> Ok, the setter's OWN field is `Some(argument)` (numbers as i64, booleans as 1/0, the encoding
//!     `build()` prints through `Value::bool_to_string`), EVERY OTHER field is bit-for-bit what it was;
//!   * illegal argument (mtu outside 32..=65504 or not a multiple of 32; term length below 64 KiB / above 1 GiB / not a
//!     power of two; term offset above 1 GiB or not a multiple of 32; negative linger; media other than udp/ipc; control
//!     mode other than manual/dynamic; prefix other than "" / "aeron-spy") -> Err and NO field changed.
//! By induction over call sequences this gives "each setter affects only its own parameter" for all subsets and orders.
//! `build()`/`parse()` (String formatting) are out of the solver's reach here; the field -> parameter-name mapping of
//! `build()` is pinned by the native test /verif/native/tests/c19.rs.
#![allow(dead_code, unused_imports, unused_variables, unused_mut)]
use super::*;
use std::mem;

type B = ChannelUriStringBuilder;

/// Snapshot of an `Option<String>` field: presence, length and the content byte at the probe position `j` (0 beyond the
/// end).  `j` is one symbolic value per harness, chosen before the pre-state snapshot and never constrained, so "equal
/// presence, equal length and equal byte at position j" is decided for EVERY j, i.e. it is string equality.
/// (The probe is carried in the snapshot, not in a `static mut`: Kani 0.68 merges a zero-initialised static with
/// same-content constants such as `RawVec`'s `Cap::ZERO`, which turned every empty String's capacity symbolic.)
#[derive(Clone, Copy, PartialEq, Eq)]
struct S {
    some: bool,
    len: usize,
    byte: u8,
}

impl S {
    const NONE: S = S { some: false, len: 0, byte: 0 };

    fn of(s: &str, j: usize) -> S {
        let b = s.as_bytes();
        S { some: true, len: b.len(), byte: if j < b.len() { b[j] } else { 0 } }
    }

    fn opt(o: &Option<String>, j: usize) -> S {
        match o {
            None => S::NONE,
            Some(s) => S::of(s.as_str(), j),
        }
    }
}

/// Snapshot of an `Option<Value>` field.
#[derive(Clone, Copy, PartialEq, Eq)]
struct N {
    some: bool,
    v: i64,
}

impl N {
    const NONE: N = N { some: false, v: 0 };

    fn val(v: i64) -> N {
        N { some: true, v }
    }

    fn flag(b: bool) -> N {
        N { some: true, v: if b { 1 } else { 0 } }
    }

    fn opt(o: &Option<Value>) -> N {
        match o {
            None => N::NONE,
            Some(x) => N { some: true, v: x.value },
        }
    }
}

macro_rules! cmp_field {
    ($post:ident, $exp:ident, $own:ident, $which:ident, $f:ident, $t:ident) => {
        if $which != F::$t as u8 {
            // another field is looked at on this path (one field per path: a violated field cannot mask the others)
        } else if $own == F::$t || $own == F::Everything {
            kani::assert(
                $post.$f == $exp.$f,
                concat!("C19: `", stringify!($f), "` does not hold exactly what its own setter was given (its setter stores somewhere else, or stores another value)"),
            );
        } else {
            kani::assert(
                $post.$f == $exp.$f,
                concat!("C19: frame condition: `", stringify!($f), "` was changed by a call that must leave it untouched"),
            );
        }
    };
}

macro_rules! define_snapshot {
    (str: [$($sf:ident $st:ident),*], num: [$($nf:ident $nt:ident),*]) => {
        /// Which field a call is allowed to change.
        #[derive(Clone, Copy, PartialEq, Eq)]
        enum F { Nothing, Everything, Tagged, $($st,)* $($nt,)* }

        #[derive(Clone, Copy)]
        struct Snap { probe: usize, $($sf: S,)* $($nf: N,)* tagged: bool }

        fn empty(probe: usize) -> Snap {
            Snap { probe, $($sf: S::NONE,)* $($nf: N::NONE,)* tagged: false }
        }

        fn snap(b: &B, probe: usize) -> Snap {
            Snap { probe, $($sf: S::opt(&b.$sf, probe),)* $($nf: N::opt(&b.$nf),)* tagged: b.is_session_id_tagged }
        }

        /// `post` must equal `exp` on every field; the message tells the own field from the frame.
        fn compare(post: &Snap, exp: &Snap, own: F) {
            let which: u8 = kani::any();
            $( cmp_field!(post, exp, own, which, $sf, $st); )*
            $( cmp_field!(post, exp, own, which, $nf, $nt); )*
            cmp_field!(post, exp, own, which, tagged, Tagged);
        }
    };
}

define_snapshot! {
    str: [prefix Prefix, media Media, endpoint Endpoint, network_interface NetworkInterface, control_endpoint ControlEndpoint,
          control_mode ControlMode, tags Tags, alias Alias, cc Cc],
    num: [reliable Reliable, ttl Ttl, mtu Mtu, term_length TermLength, initial_term_id InitialTermId, term_id TermId,
          term_offset TermOffset, session_id SessionId, linger Linger, sparse Sparse, eos Eos, tether Tether, group Group,
          rejoin Rejoin]
}

/// Symbolic ASCII text of 0..=K bytes.
struct Txt<const K: usize> {
    b: [u8; K],
    n: usize,
}

impl<const K: usize> Txt<K> {
    fn any() -> Self {
        let b: [u8; K] = kani::any();
        let n: usize = kani::any();
        kani::assume(n <= K);
        let mut i = 0;
        while i < K {
            kani::assume(b[i] < 0x80);
            i += 1;
        }
        Txt { b, n }
    }

    fn s(&self) -> &str {
        unsafe { std::str::from_utf8_unchecked(&self.b[..self.n]) }
    }
}

/// string equality for the oracles, byte by byte (texts here are at most 9 bytes)
fn same(a: &str, b: &str) -> bool {
    let (a, b) = (a.as_bytes(), b.as_bytes());
    if a.len() != b.len() {
        return false;
    }
    let mut i = 0;
    while i < b.len() {
        if a[i] != b[i] {
            return false;
        }
        i += 1;
    }
    true
}

fn any_num() -> Option<Value> {
    if kani::any() {
        Some(Value::new(kani::any()))
    } else {
        None
    }
}

/// free-form string parameter: absent, or any two ASCII characters
fn any_text() -> Option<String> {
    if kani::any() {
        let t = Txt::<2>::any();
        kani::assume(t.n == 2);
        Some(String::from(unsafe { std::str::from_utf8_unchecked(&t.b[..]) }))
    } else {
        None
    }
}

/// validated string parameter: absent or one of the two values its setter lets in (invariant of every reachable builder)
fn any_of(a: &str, b: &str) -> Option<String> {
    let k: u8 = kani::any();
    match k {
        0 => None,
        1 => Some(String::from(a)),
        _ => Some(String::from(b)),
    }
}

fn any_builder() -> B {
    B {
        prefix: any_of("", "aeron-spy"),
        media: any_of("udp", "ipc"),
        endpoint: any_text(),
        network_interface: any_text(),
        control_endpoint: any_text(),
        control_mode: any_of("manual", "dynamic"),
        tags: any_text(),
        alias: any_text(),
        cc: any_text(),
        reliable: any_num(),
        ttl: any_num(),
        mtu: any_num(),
        term_length: any_num(),
        initial_term_id: any_num(),
        term_id: any_num(),
        term_offset: any_num(),
        session_id: any_num(),
        linger: any_num(),
        sparse: any_num(),
        eos: any_num(),
        tether: any_num(),
        group: any_num(),
        rejoin: any_num(),
        is_session_id_tagged: kani::any(),
    }
}

/// Uniform view of what a mutator returned: Some(builder it handed back) or None for Err.
trait Outcome {
    fn ok_ptr(self) -> Option<*const B>;
}

impl Outcome for &mut B {
    fn ok_ptr(self) -> Option<*const B> {
        Some(self as *const B)
    }
}

impl Outcome for Result<&mut B, AeronError> {
    fn ok_ptr(self) -> Option<*const B> {
        match self {
            Ok(p) => Some(p as *const B),
            Err(e) => {
                mem::forget(e);
                None
            }
        }
    }
}

macro_rules! refused_cover {
    (yes, $out:ident) => {
        kani::cover!($out.is_none(), "[must] refused call explored");
    };
    (no, $out:ident) => {
        kani::assert($out.is_some(), "C19: a setter without a validity rule must not fail");
    };
}

/// One harness per mutator: arbitrary builder, symbolic argument, expected state = pre-state with the own field replaced.
macro_rules! setter {
    ($name:ident, $own:ident, { $($decl:tt)* }, |$b:ident| $call:expr, legal: $legal:expr, refusable: $rf:tt, |$e:ident| $upd:expr) => {
        #[kani::proof]
        fn $name() {
            let mut bld = any_builder();
            let probe: usize = kani::any();
            let pre = snap(&bld, probe);
            $($decl)*
            let legal: bool = $legal;
            let me = &bld as *const B;
            let out = {
                let $b = &mut bld;
                Outcome::ok_ptr($call)
            };
            let post = snap(&bld, probe);
            match out {
                Some(p) => {
                    kani::assert(legal, concat!("C19: ", stringify!($name), ": an illegal value was accepted (the Aeron builder contract requires an error and an unchanged builder)"));
                    kani::assert(p == me, "C19: a setter hands back the builder it was called on");
                    let mut exp = pre;
                    {
                        let $e = &mut exp;
                        $upd;
                    }
                    compare(&post, &exp, F::$own);
                }
                None => {
                    kani::assert(!legal, concat!("C19: ", stringify!($name), ": a legal value was refused"));
                    compare(&post, &pre, F::Nothing);
                }
            }
            kani::cover!(out.is_some(), "[must] accepted call explored");
            refused_cover!($rf, out);
            mem::forget(bld);
        }
    };
}

// ---- validated string setters -------------------------------------------------------------------------------------

// @verif tier=quick unwind=11
setter!(c19_set_prefix, Prefix,
    { let t = Txt::<9>::any(); let k: u8 = kani::any(); let v: &str = match k { 0 => "", 1 => "aeron-spy", _ => t.s() }; },
    |b| b.prefix(v), legal: same(v, "") || same(v, "aeron-spy"), refusable: yes,
    |e| e.prefix = S::of(v, e.probe));

// @verif tier=quick unwind=11
setter!(c19_set_media, Media,
    { let t = Txt::<4>::any(); let k: u8 = kani::any(); let v: &str = match k { 0 => "udp", 1 => "ipc", _ => t.s() }; },
    |b| b.media(v), legal: same(v, "udp") || same(v, "ipc"), refusable: yes,
    |e| e.media = S::of(v, e.probe));

// @verif tier=quick unwind=11
setter!(c19_set_control_mode, ControlMode,
    { let t = Txt::<7>::any(); let k: u8 = kani::any(); let v: &str = match k { 0 => "manual", 1 => "dynamic", _ => t.s() }; },
    |b| b.control_mode(v), legal: same(v, "manual") || same(v, "dynamic"), refusable: yes,
    |e| e.control_mode = S::of(v, e.probe));

// ---- free-form string setters -------------------------------------------------------------------------------------

// @verif tier=quick unwind=11
setter!(c19_set_endpoint, Endpoint, { let t = Txt::<4>::any(); let v = t.s(); },
    |b| b.endpoint(v), legal: true, refusable: no, |e| e.endpoint = S::of(v, e.probe));

// @verif tier=quick unwind=11
setter!(c19_set_network_interface, NetworkInterface, { let t = Txt::<4>::any(); let v = t.s(); },
    |b| b.network_interface(v), legal: true, refusable: no, |e| e.network_interface = S::of(v, e.probe));

// @verif tier=quick unwind=11
setter!(c19_set_control_endpoint, ControlEndpoint, { let t = Txt::<4>::any(); let v = t.s(); },
    |b| b.control_endpoint(v), legal: true, refusable: no, |e| e.control_endpoint = S::of(v, e.probe));

// @verif tier=quick unwind=11
setter!(c19_set_tags, Tags, { let t = Txt::<4>::any(); let v = t.s(); },
    |b| b.tags(v), legal: true, refusable: no, |e| e.tags = S::of(v, e.probe));

// @verif tier=quick unwind=11
setter!(c19_set_alias, Alias, { let t = Txt::<4>::any(); let v = t.s(); },
    |b| b.alias(v), legal: true, refusable: no, |e| e.alias = S::of(v, e.probe));

// @verif tier=quick unwind=11
setter!(c19_set_congestion_control, Cc, { let t = Txt::<4>::any(); let v = t.s(); },
    |b| b.congestion_control(v), legal: true, refusable: no, |e| e.cc = S::of(v, e.probe));

// ---- numeric setters ----------------------------------------------------------------------------------------------

// @verif tier=quick unwind=11
setter!(c19_set_ttl, Ttl, { let v: u8 = kani::any(); },
    |b| b.ttl(v), legal: true, refusable: no, |e| e.ttl = N::val(v as i64));

// @verif tier=quick unwind=11
setter!(c19_set_mtu, Mtu, { let v: u32 = kani::any(); },
    |b| b.mtu(v), legal: v >= 32 && v <= 65504 && v % 32 == 0, refusable: yes, |e| e.mtu = N::val(v as i64));

// @verif tier=quick unwind=11
setter!(c19_set_term_length, TermLength, { let v: i32 = kani::any(); },
    |b| b.term_length(v), legal: v >= 64 * 1024 && v <= 1024 * 1024 * 1024 && (v as u32).count_ones() == 1, refusable: yes,
    |e| e.term_length = N::val(v as i64));

// @verif tier=quick unwind=11
setter!(c19_set_initial_term_id, InitialTermId, { let v: i32 = kani::any(); },
    |b| b.initial_term_id(v), legal: true, refusable: no, |e| e.initial_term_id = N::val(v as i64));

// @verif tier=quick unwind=11
setter!(c19_set_term_id, TermId, { let v: i32 = kani::any(); },
    |b| b.term_id(v), legal: true, refusable: no, |e| e.term_id = N::val(v as i64));

// @verif tier=quick unwind=11
setter!(c19_set_term_offset, TermOffset, { let v: u32 = kani::any(); },
    |b| b.term_offset(v), legal: v <= 1024 * 1024 * 1024 && v % 32 == 0, refusable: yes,
    |e| e.term_offset = N::val(v as i64));

// @verif tier=quick unwind=11
setter!(c19_set_session_id, SessionId, { let v: i32 = kani::any(); },
    |b| b.session_id(v), legal: true, refusable: no, |e| e.session_id = N::val(v as i64));

// @verif tier=quick unwind=11
setter!(c19_set_linger, Linger, { let v: i64 = kani::any(); },
    |b| b.linger(v), legal: v >= 0, refusable: yes, |e| e.linger = N::val(v));

// ---- boolean setters (stored as Value 1 / 0, printed by build() through Value::bool_to_string) -------------------

// @verif tier=quick unwind=11
setter!(c19_set_reliable, Reliable, { let v: bool = kani::any(); },
    |b| b.reliable(v), legal: true, refusable: no, |e| e.reliable = N::flag(v));

// @verif tier=quick unwind=11
setter!(c19_set_sparse, Sparse, { let v: bool = kani::any(); },
    |b| b.sparse(v), legal: true, refusable: no, |e| e.sparse = N::flag(v));

// @verif tier=quick unwind=11
setter!(c19_set_eos, Eos, { let v: bool = kani::any(); },
    |b| b.eos(v), legal: true, refusable: no, |e| e.eos = N::flag(v));

// @verif tier=quick unwind=11
setter!(c19_set_tether, Tether, { let v: bool = kani::any(); },
    |b| b.tether(v), legal: true, refusable: no, |e| e.tether = N::flag(v));

// @verif tier=quick unwind=11
setter!(c19_set_group, Group, { let v: bool = kani::any(); },
    |b| b.group(v), legal: true, refusable: no, |e| e.group = N::flag(v));

// @verif tier=quick unwind=11
setter!(c19_set_rejoin, Rejoin, { let v: bool = kani::any(); },
    |b| b.rejoin(v), legal: true, refusable: no, |e| e.rejoin = N::flag(v));

// @verif tier=quick unwind=11
setter!(c19_set_is_session_tagged, Tagged, { let v: bool = kani::any(); },
    |b| b.is_session_tagged(v), legal: true, refusable: no, |e| e.tagged = v);

// ---- resets -------------------------------------------------------------------------------------------------------

// @verif tier=quick unwind=11
setter!(c19_reset_prefix, Prefix, {},
    |b| b.reset_prefix(), legal: true, refusable: no, |e| e.prefix = S::NONE);

// @verif tier=quick unwind=11
setter!(c19_reset_reliable, Reliable, {},
    |b| b.reset_reliable(), legal: true, refusable: no, |e| e.reliable = N::NONE);

// @verif tier=quick unwind=11
setter!(c19_reset_rejoin, Rejoin, {},
    |b| b.reset_rejoin(), legal: true, refusable: no, |e| e.rejoin = N::NONE);

/// clear() forgets every parameter, the prefix, the media and the session-id tag flag.
// @verif tier=quick unwind=11
#[kani::proof]
fn c19_clear_forgets_everything() {
    let mut bld = any_builder();
    let probe: usize = kani::any();
    let pre = snap(&bld, probe);
    bld.clear();
    let post = snap(&bld, probe);
    compare(&post, &empty(probe), F::Everything);
    kani::cover!(pre.session_id.some && pre.prefix.some && pre.tagged, "[must] non-empty builder explored");
    mem::forget(bld);
}

/// Every setter once on a fresh builder (legal symbolic values): each field ends up with the value given to ITS setter.
// @verif tier=quick unwind=11
#[kani::proof]
fn c19_all_setters_once() {
    let probe: usize = kani::any();
    let mut b = B::default();
    let ttl: u8 = kani::any();
    let (mtu, toff): (u32, u32) = (kani::any(), kani::any());
    let (tlen, itid, tid, sid): (i32, i32, i32, i32) = (kani::any(), kani::any(), kani::any(), kani::any());
    let linger: i64 = kani::any();
    let (rel, sp, eos, teth, grp, rej, tag): (bool, bool, bool, bool, bool, bool, bool) =
        (kani::any(), kani::any(), kani::any(), kani::any(), kani::any(), kani::any(), kani::any());
    kani::assume(mtu >= 32 && mtu <= 65504 && mtu % 32 == 0);
    kani::assume(toff <= 1 << 30 && toff % 32 == 0);
    kani::assume(tlen >= 1 << 16 && tlen <= 1 << 30 && (tlen as u32).count_ones() == 1);
    kani::assume(linger >= 0);
    let dynamic: bool = kani::any();
    let mode = if dynamic { "dynamic" } else { "manual" };
    crate::vok!(b.prefix("aeron-spy"), "C19: legal prefix refused");
    crate::vok!(b.media("udp"), "C19: legal media refused");
    b.endpoint("e").network_interface("i").control_endpoint("c");
    crate::vok!(b.control_mode(mode), "C19: legal control mode refused");
    b.tags("t").alias("a").congestion_control("g").reliable(rel).ttl(ttl);
    crate::vok!(b.mtu(mtu), "C19: legal mtu refused");
    crate::vok!(b.term_length(tlen), "C19: legal term length refused");
    b.initial_term_id(itid).term_id(tid);
    crate::vok!(b.term_offset(toff), "C19: legal term offset refused");
    b.session_id(sid);
    crate::vok!(b.linger(linger), "C19: legal linger refused");
    b.sparse(sp).eos(eos).tether(teth).group(grp).rejoin(rej).is_session_tagged(tag);
    let exp = Snap {
        probe,
        prefix: S::of("aeron-spy", probe),
        media: S::of("udp", probe),
        endpoint: S::of("e", probe),
        network_interface: S::of("i", probe),
        control_endpoint: S::of("c", probe),
        control_mode: S::of(mode, probe),
        tags: S::of("t", probe),
        alias: S::of("a", probe),
        cc: S::of("g", probe),
        reliable: N::flag(rel),
        ttl: N::val(ttl as i64),
        mtu: N::val(mtu as i64),
        term_length: N::val(tlen as i64),
        initial_term_id: N::val(itid as i64),
        term_id: N::val(tid as i64),
        term_offset: N::val(toff as i64),
        session_id: N::val(sid as i64),
        linger: N::val(linger),
        sparse: N::flag(sp),
        eos: N::flag(eos),
        tether: N::flag(teth),
        group: N::flag(grp),
        rejoin: N::flag(rej),
        tagged: tag,
    };
    let post = snap(&b, probe);
    compare(&post, &exp, F::Everything);
    kani::cover!(sid != tid && teth != grp, "[must] distinct values per parameter explored");
    mem::forget(b);
}

/// The text build() prints for a boolean parameter: "true" exactly for the stored 1, "false" for the stored 0.
// @verif tier=quick unwind=11
#[kani::proof]
fn c19_bool_value_text() {
    let probe: usize = kani::any();
    let v: bool = kani::any();
    let stored = Value::new(N::flag(v).v);
    let text = S::of(Value::bool_to_string(&stored), probe);
    kani::assert(text == S::of(if v { "true" } else { "false" }, probe), "C19: boolean parameter is not printed as the true/false that was set");
    kani::cover!(v, "[must] true explored");
    kani::cover!(!v, "[must] false explored");
}

/// Vacuity witness: the snapshot comparison must notice a field that did change.
// @verif tier=quick unwind=11 twin=1
#[kani::proof]
fn c19_twin_frame_notices_a_changed_field() {
    let mut bld = any_builder();
    let probe: usize = kani::any();
    let pre = snap(&bld, probe);
    let v: u8 = kani::any();
    bld.ttl(v);
    let post = snap(&bld, probe);
    kani::assert(post.ttl == pre.ttl, "C19: TWIN ttl() claimed to leave `ttl` untouched");
    mem::forget(bld);
}

/// build() prints the session id under Aeron's `session-id` name (one concrete id, no other parameter).
/// Measured: no verdict within the 600 s time box (format!/Display machinery), as the design round predicted; switched
/// off.  The field -> parameter-name mapping of build() is pinned natively in /verif/native/tests/c19.rs.
// @verif tier=off unwind=24 timeout=600
#[kani::proof]
fn c19_build_prints_session_id_under_its_own_name() {
    let mut b = B::default();
    crate::vok!(b.media("ipc"), "C19: legal media refused");
    b.session_id(7);
    let s = b.build();
    kani::assert(same(s.as_str(), "aeron:ipc?session-id=7"), "C19: build() does not print the session id as `session-id=<id>`");
    mem::forget(s);
    mem::forget(b);
}
