//! C19 harnesses that need the URI builder's private fields (child module of channel_uri_string_builder.rs via hook H4).
#![allow(dead_code, unused_imports, unused_variables, unused_mut)]
