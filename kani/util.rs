//! Shared harness vocabulary.
use crate::concurrent::atomic_buffer::AtomicBuffer;
use crate::concurrent::logbuffer::{data_frame_header as dfh, log_buffer_descriptor as lbd};
use crate::utils::types::Index;

/// Small, 16-byte aligned backing store for an AtomicBuffer.
#[repr(C, align(16))]
pub struct Mem<const N: usize>(pub [u8; N]);

impl<const N: usize> Mem<N> {
    pub fn zeroed() -> Self {
        Mem([0u8; N])
    }
    pub fn any() -> Self {
        Mem(kani::any())
    }
    pub fn buf(&mut self) -> AtomicBuffer {
        AtomicBuffer::new(self.0.as_mut_ptr(), N as Index)
    }
    /// An AtomicBuffer over the sub-range [off, off+len) of this memory.
    pub fn window(&mut self, off: usize, len: usize) -> AtomicBuffer {
        assert!(off + len <= N);
        AtomicBuffer::new(unsafe { self.0.as_mut_ptr().add(off) }, len as Index)
    }
}

/// Force the lazy_static offsets so that `Once` machinery is executed once, concretely, up front.
pub fn pretouch() {
    let _ = *lbd::TERM_TAIL_COUNTER_OFFSET
        + *lbd::LOG_ACTIVE_TERM_COUNT_OFFSET
        + *lbd::LOG_END_OF_STREAM_POSITION_OFFSET
        + *lbd::LOG_IS_CONNECTED_OFFSET
        + *lbd::LOG_ACTIVE_TRANSPORT_COUNT
        + *lbd::LOG_INITIAL_TERM_ID_OFFSET
        + *lbd::LOG_DEFAULT_FRAME_HEADER_LENGTH_OFFSET
        + *lbd::LOG_MTU_LENGTH_OFFSET
        + *lbd::LOG_TERM_LENGTH_OFFSET
        + *lbd::LOG_PAGE_SIZE_OFFSET;
    let _ = *dfh::FRAME_LENGTH_FIELD_OFFSET
        + *dfh::VERSION_FIELD_OFFSET
        + *dfh::FLAGS_FIELD_OFFSET
        + *dfh::TYPE_FIELD_OFFSET
        + *dfh::TERM_OFFSET_FIELD_OFFSET
        + *dfh::SESSION_ID_FIELD_OFFSET
        + *dfh::STREAM_ID_FIELD_OFFSET
        + *dfh::TERM_ID_FIELD_OFFSET
        + *dfh::RESERVED_VALUE_FIELD_OFFSET;
}

pub fn align32(v: i64) -> i64 {
    (v + 31) & !31
}

/// raw tail word as the driver lays it out: term id in the high 32 bits, offset in the low 32 bits.
pub fn pack_tail(term_id: i32, offset: i32) -> i64 {
    ((term_id as i64) << 32) | (offset as u32 as i64)
}

/// Result unwrapping without pulling `Debug` formatting of the error type into the model.
#[macro_export]
macro_rules! vok {
    ($e:expr, $msg:literal) => {
        match $e {
            Ok(v) => v,
            Err(e) => {
                std::mem::forget(e);
                assert!(false, $msg);
                kani::assume(false);
                loop {}
            }
        }
    };
}
pub use vok;
