//! H5 — shared-memory access hook. Every AtomicBuffer accessor (and HeaderWriter::write, and the exclusive appender's
//! raw-tail access) calls `read`/`write` here before touching memory. All state is harness-controlled and OFF by
//! default, so sequential harnesses are unaffected.
//!
//!  * crash prefix: top-level accesses are numbered 0,1,2,..; from access number CRASH_AT on, every *write* of the
//!    operation under test is suppressed (CAS reports success without storing, fetch-add returns the current value):
//!    shared memory holds exactly the effect of the first CRASH_AT accesses = "stopped forever after its k-th access".
//!  * interference: just before access number ENV_AT the harness-supplied ENV function runs (complete operations of
//!    other parties on the same memory), i.e. the schedule A[0..j) . B* . A[j..].
//!  * trace: (address, length, ordering class, is_write) of each top-level access, for ordering-discipline checks.
pub const PLAIN: u8 = 0;
pub const ACQUIRE: u8 = 1;
pub const RELEASE: u8 = 2;
pub const RMW: u8 = 3;

pub const TR: usize = 24;

#[derive(Copy, Clone)]
pub struct Access {
    pub addr: usize,
    pub len: usize,
    pub kind: u8,
    pub is_write: bool,
}

static mut DEPTH: u32 = 0;
static mut ON: bool = false;
static mut STEP: u32 = 0;
static mut CRASH_AT: u32 = u32::MAX;
static mut ENV_AT: u32 = u32::MAX;
static mut ENV: Option<fn()> = None;
static mut TRACE_ON: bool = false;
static mut TRACE_N: usize = 0;
static mut TRACE: [Access; TR] = [Access { addr: 0, len: 0, kind: 0, is_write: false }; TR];

pub struct Guard;

impl Drop for Guard {
    fn drop(&mut self) {
        unsafe { DEPTH -= 1 }
    }
}

#[inline(never)]
fn enter(ptr: *mut u8, pos: i32, len: usize, kind: u8, is_write: bool) -> Option<Guard> {
    unsafe {
        if !ON || DEPTH > 0 {
            DEPTH += 1;
            return Some(Guard);
        }
        let n = STEP;
        STEP += 1;
        if n == ENV_AT {
            if let Some(f) = ENV {
                ON = false;
                f();
                ON = true;
            }
        }
        if TRACE_ON && TRACE_N < TR {
            TRACE[TRACE_N] = Access { addr: (ptr as usize).wrapping_add(pos as isize as usize), len, kind, is_write };
            TRACE_N += 1;
        }
        if is_write && n >= CRASH_AT {
            return None;
        }
        DEPTH += 1;
        Some(Guard)
    }
}

pub fn read(ptr: *mut u8, pos: i32, len: usize, kind: u8) -> Guard {
    match enter(ptr, pos, len, kind, false) {
        Some(g) => g,
        None => unreachable!(),
    }
}

pub fn write(ptr: *mut u8, pos: i32, len: usize, kind: u8) -> Option<Guard> {
    enter(ptr, pos, len, kind, true)
}

/// Start observing the operation under test.
pub fn begin(crash_at: u32, env_at: u32, env: Option<fn()>, trace: bool) {
    unsafe {
        STEP = 0;
        CRASH_AT = crash_at;
        ENV_AT = env_at;
        ENV = env;
        TRACE_ON = trace;
        TRACE_N = 0;
        ON = true;
    }
}

/// Stop observing; returns the number of top-level accesses the operation performed.
pub fn end() -> u32 {
    unsafe {
        ON = false;
        CRASH_AT = u32::MAX;
        ENV_AT = u32::MAX;
        ENV = None;
        STEP
    }
}

pub fn trace_len() -> usize {
    unsafe { TRACE_N }
}

pub fn trace_at(i: usize) -> Access {
    unsafe { TRACE[i] }
}
