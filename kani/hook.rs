//! H5 — shared-memory access hook. Every AtomicBuffer accessor (and HeaderWriter::write, and the exclusive appender's
//! raw-tail access) calls `read`/`write` here before touching memory. All state is harness-controlled and OFF by
//! default, so sequential harnesses are unaffected.
//!
//!  * crash prefix: top-level accesses are numbered 0,1,2,..; from access number CRASH_AT on, every *write* of the
//!    operation under test is suppressed (CAS reports success without storing, fetch-add returns the current value):
//!    shared memory holds exactly the effect of the first CRASH_AT accesses = "stopped forever after its k-th access".
//!  * interference: just before access number ENV_AT the harness-supplied ENV function runs (complete operations of
//!    other parties on the same memory), i.e. the schedule A[0..j) . B* . A[j..].
//!  * trace: (address, length, ordering class, is_write) of each top-level access, for ordering-discipline checks.
pub const PLAIN: u8 = 0;
pub const ACQUIRE: u8 = 1;
pub const RELEASE: u8 = 2;
pub const RMW: u8 = 3;

pub const TR: usize = 24;

#[derive(Copy, Clone)]
pub struct Access {
    pub addr: usize,
    pub len: usize,
    pub kind: u8,
    pub is_write: bool,
}

// All hook state lives in ONE static with a distinctive non-zero field: Kani merges a `static mut` whose initialiser
// is all-zero (or otherwise common) with same-content constant allocations, which would alias it with unrelated
// constants (observed: `static mut X: usize = 0` became the capacity of every empty Vec).
struct State {
    magic: u64,
    depth: u32,
    on: bool,
    step: u32,
    crash_at: u32,
    env_at: u32,
    env: Option<fn()>,
    trace_on: bool,
    trace_n: usize,
    trace: [Access; TR],
}

static mut H: State = State {
    magic: 0x5a5a_4855_4b31_7f03,
    depth: 0,
    on: false,
    step: 0,
    crash_at: u32::MAX,
    env_at: u32::MAX,
    env: None,
    trace_on: false,
    trace_n: 0,
    trace: [Access { addr: 0, len: 0, kind: 0, is_write: false }; TR],
};

pub struct Guard;

impl Drop for Guard {
    fn drop(&mut self) {
        unsafe { H.depth -= 1 }
    }
}

#[inline(never)]
fn enter(ptr: *mut u8, pos: i32, len: usize, kind: u8, is_write: bool) -> Option<Guard> {
    unsafe {
        if !H.on || H.depth > 0 {
            H.depth += 1;
            return Some(Guard);
        }
        let n = H.step;
        H.step += 1;
        if n == H.env_at {
            if let Some(f) = H.env {
                H.on = false;
                f();
                H.on = true;
            }
        }
        if H.trace_on && H.trace_n < TR {
            H.trace[H.trace_n] = Access { addr: (ptr as usize).wrapping_add(pos as isize as usize), len, kind, is_write };
            H.trace_n += 1;
        }
        if is_write && n >= H.crash_at {
            return None;
        }
        H.depth += 1;
        Some(Guard)
    }
}

pub fn read(ptr: *mut u8, pos: i32, len: usize, kind: u8) -> Guard {
    match enter(ptr, pos, len, kind, false) {
        Some(g) => g,
        None => unreachable!(),
    }
}

pub fn write(ptr: *mut u8, pos: i32, len: usize, kind: u8) -> Option<Guard> {
    enter(ptr, pos, len, kind, true)
}

/// Start observing the operation under test.
pub fn begin(crash_at: u32, env_at: u32, env: Option<fn()>, trace: bool) {
    unsafe {
        H.step = 0;
        H.crash_at = crash_at;
        H.env_at = env_at;
        H.env = env;
        H.trace_on = trace;
        H.trace_n = 0;
        H.on = true;
    }
}

/// Stop observing; returns the number of top-level accesses the operation performed.
pub fn end() -> u32 {
    unsafe {
        H.on = false;
        H.crash_at = u32::MAX;
        H.env_at = u32::MAX;
        H.env = None;
        H.step
    }
}

pub fn trace_len() -> usize {
    unsafe { H.trace_n }
}

pub fn trace_at(i: usize) -> Access {
    unsafe { H.trace[i] }
}
