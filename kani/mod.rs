// Kani proof harnesses for aeron-rs; compiled into the crate through the cfg(kani) hook in src/lib.rs.
#![allow(dead_code, unused_imports, unused_variables, unused_mut, clippy::all)]

pub mod util;

pub mod c17;
