// Kani proof harnesses for aeron-rs; compiled into the crate through the cfg(kani) hook in src/lib.rs.
#![allow(dead_code, unused_imports, unused_variables, unused_mut, clippy::all)]

pub mod hook;
pub mod util;

pub mod c14;
pub mod c15;
pub mod c16;
pub mod c17;
