// Kani proof harnesses for aeron-rs; compiled into the crate through the cfg(kani) hook in src/lib.rs.
// (c19 lives in c19_builder.rs, a child module of channel_uri_string_builder.rs; conductor harnesses (c09-c12) in
// conductor.rs, a child module of client_conductor.rs - both need private fields.)
#![allow(dead_code, unused_imports, unused_variables, unused_mut, clippy::all)]

pub mod hook;
pub mod util;
pub mod publog;

pub mod c01;
pub mod c02;
pub mod c03;
pub mod c04;
pub mod c05;
pub mod c06;
pub mod c07;
pub mod c08;
pub mod c13;
pub mod c14;
pub mod c15;
pub mod c16;
pub mod c17;
pub mod c18;
pub mod c20;
