//! C04 harnesses.
