//! C04 — flow control and limits at publication level (regime R1: one 5632-byte log object, fs raised).
use super::c01::{rd_i32, reserved_for, supplier};
use super::publog::*;
use super::util::*;
use crate::concurrent::atomic_buffer::AtomicBuffer;
use crate::concurrent::logbuffer::buffer_claim::BufferClaim;
use crate::utils::errors::{AeronError, IllegalArgumentError};

const MAXPOS: i64 = (TL as i64) << 31;

/// R1: no symbolic index into the log object - the "unchanged" probes are a fixed set of concrete positions
/// (frame header words and payload positions at and around the tail, first and last byte of the term).
fn term_untouched(l: &PubLog, part: usize, tail: usize) -> bool {
    let probes = [0usize, 4, 31, 32, 63, 64, 96, 128, TL - 32, TL - 1];
    let mut ok = true;
    let mut k = 0;
    while k < probes.len() {
        ok &= l.term_byte(part, probes[k]) == 0;
        let q = tail + probes[k];
        if q < TL {
            ok &= l.term_byte(part, q) == 0;
        }
        k += 1;
    }
    ok
}

/// every payload byte of the accepted message is where the frame layout puts it (concrete indices, loop over len)
fn payload_in_log(l: &PubLog, part: usize, tail: usize, len: usize, src: &[u8; 96]) -> bool {
    let mut ok = true;
    let mut j = 0;
    while j < len {
        let at = if j < 32 || len <= 32 { tail + 32 + j } else { tail + 64 + 32 + (j - 32) };
        ok &= l.term_byte(part, at) == src[j];
        j += 1;
    }
    ok
}

#[derive(Copy, Clone, PartialEq)]
enum Kind {
    SharedOffer,
    SharedClaim,
    ExclOffer,
    ExclClaim,
}

fn run_op(kind: Kind, l: &mut PubLog, closed: bool, src: &mut [u8; 96], len: i32) -> Result<i64, AeronError> {
    let sb = AtomicBuffer::new(src.as_mut_ptr(), 96);
    match kind {
        Kind::SharedOffer => {
            let p = l.publication();
            if closed {
                p.close();
            }
            let r = p.offer_opt(sb, 0, len, supplier).map(|v| v as i64);
            std::mem::forget(p);
            r
        }
        Kind::SharedClaim => {
            let mut p = l.publication();
            if closed {
                p.close();
            }
            let mut claim = BufferClaim::default();
            let r = p.try_claim(len, &mut claim).map(|v| v as i64);
            if r.is_ok() {
                claim.buffer().copy_from(32, &sb, 0, len);
                claim.commit();
            }
            std::mem::forget(p);
            r
        }
        Kind::ExclOffer => {
            let mut p = l.exclusive_publication();
            if closed {
                p.close();
            }
            let r = p.offer_opt(sb, 0, len, supplier);
            std::mem::forget(p);
            r
        }
        Kind::ExclClaim => {
            let mut p = l.exclusive_publication();
            if closed {
                p.close();
            }
            let mut claim = BufferClaim::default();
            let r = p.try_claim(len, &mut claim);
            if r.is_ok() {
                claim.buffer().copy_from(32, &sb, 0, len);
                claim.commit();
            }
            std::mem::forget(p);
            r
        }
    }
}

/// One offer / claim+commit from the log state (count elapsed terms, tail offset) with message length `len`;
/// limit, connected flag, closed flag, session/stream ids and payload bytes symbolic.
macro_rules! pub_step {
    ($name:ident, $kind:expr, $count:expr, $tail:expr, $len:expr) => {
        #[kani::proof]
        fn $name() {
            let kind: Kind = $kind;
            let is_claim = kind == Kind::SharedClaim || kind == Kind::ExclClaim;
            let is_excl = kind == Kind::ExclOffer || kind == Kind::ExclClaim;
            let max_len: i32 = if is_claim { 32 } else { 64 };
            let count: i32 = $count;
            let tail: i32 = $tail;
            let tu = tail as usize;
            let mut l = PubLog::new(count, tail);
            let limit: i64 = kani::any();
            let connected: i32 = kani::any();
            kani::assume(connected == 0 || connected == 1);
            l.set_limit(limit);
            l.set_connected(connected);
            let closed: bool = kani::any();
            let mut src: [u8; 96] = kani::any();
            let len: i32 = $len;
            let part = l.partition();
            let tail_before = l.raw_tail_of(part);
            let r = run_op(kind, &mut l, closed, &mut src, len);
            let pos = l.position();
            let untouched = l.raw_tail_of(part) == tail_before && term_untouched(&l, part, tu) && l.active_count() == count;
            let aligned: i64 = if len <= 32 { align32(32 + len as i64) } else { 64 + align32((len - 32) as i64 + 32) };
            match r {
                Ok(np) => {
                    assert!(!closed, "C04: a closed publication accepted an offer/claim");
                    assert!(pos < limit, "C04: accepted although the position is at or beyond the publication limit");
                    assert!(len <= max_len, "C04: message longer than the maximum message length (claim: MTU payload) accepted");
                    assert!(np == pos + aligned, "C04: returned position equals the stream position just after the message");
                    assert!(np <= MAXPOS && np % 32 == 0 && np > pos, "C04: returned position aligned, increasing and within the position space");
                    assert!(l.raw_tail_of(part) == tail_before + aligned, "C04: raw tail advanced by the aligned message length");
                    assert!(payload_in_log(&l, part, tu, len as usize, &src), "C04: accepted message bytes are in the log");
                    assert!(rd_i32(&l.mem.0, part * TL + tu) == 32 + if len <= 32 { len } else { 32 }, "C04: first frame committed with its length");
                }
                Err(e) => {
                    if is_claim && len > max_len {
                        assert!(matches!(e, AeronError::IllegalArgument(IllegalArgumentError::EncodedMessageExceedsMaxPayloadLength { .. })), "C04: claim longer than the MTU payload must be rejected as such");
                        assert!(untouched, "C04: an over-long claim is rejected without touching the log");
                    } else if closed {
                        assert!(matches!(e, AeronError::PublicationClosed), "C04: closed publication must report PublicationClosed");
                        assert!(untouched, "C04: an operation on a closed publication changes nothing");
                    } else if pos >= limit {
                        if pos + len as i64 >= MAXPOS {
                            assert!(matches!(e, AeronError::MaxPositionExceeded), "C04: at the end of the position space the refusal is MaxPositionExceeded");
                        } else if connected == 1 {
                            assert!(matches!(e, AeronError::BackPressured), "C04: beyond the limit with a connected subscriber the refusal is BackPressured");
                        } else {
                            assert!(matches!(e, AeronError::NotConnected), "C04: beyond the limit without a subscriber the refusal is NotConnected");
                        }
                        assert!(untouched, "C04: a refused offer leaves the log, the tail and the term count unchanged");
                    } else if len > max_len {
                        assert!(matches!(e, AeronError::IllegalArgument(IllegalArgumentError::EncodedMessageExceedsMaxMessageLength { .. })), "C04: over-long message must be rejected as such");
                        assert!(untouched, "C04: an over-long message is rejected without touching the log");
                    } else {
                        // below the limit the only legitimate refusals are the end of the term (AdminAction after
                        // padding + rotation) and the end of the position space
                        assert!(tail as i64 + aligned > TL as i64, "C04: below the limit and fitting the term, yet refused");
                        let last_term = if is_excl { (count as i64) * (TL as i64) + TL as i64 >= MAXPOS } else { pos + tail as i64 > MAXPOS };
                        if last_term {
                            assert!(matches!(e, AeronError::MaxPositionExceeded), "C04: tripping the last term reports MaxPositionExceeded");
                            assert!(l.active_count() == count, "C04: the stream never advances past the maximum position");
                        } else {
                            assert!(matches!(e, AeronError::AdminAction), "C04: tripping the term end reports AdminAction");
                            assert!(l.active_count() as i64 == count as i64 + 1, "C04: tripping the term end rotates the log exactly once");
                            assert!(l.raw_tail_of((part + 1) % 3) == pack_tail(l.term_id().wrapping_add(1), 0), "C04: next term's tail initialised to (term id + 1, 0)");
                        }
                        if tu < TL {
                            assert!(rd_i32(&l.mem.0, part * TL + tu) == TL as i32 - tail && l.mem.0[part * TL + tu + 6] == 0 && l.mem.0[part * TL + tu + 7] == 0, "C04: exactly one padding frame fills the term remainder");
                        }
                    }
                    std::mem::forget(e);
                }
            }
            kani::cover!(!closed && pos < limit, "[must] below-limit path");
            kani::cover!(!closed && pos >= limit, "[must] refused-by-limit path");
            kani::cover!(closed, "[must] closed path");
        }
    };
}
// initial term id = i32::MAX - 1 (publog.rs): count 2 is the first wrapped term id.
// @verif tier=quick unwind=4 unwindset=term_untouched:12,payload_in_log:66 fs=6000
pub_step!(c04_shared_offer_unfragmented, Kind::SharedOffer, 0, 0, 17);
// @verif tier=quick unwind=4 unwindset=term_untouched:12,payload_in_log:66 fs=6000
pub_step!(c04_shared_offer_fragmented_wrapped_term_id, Kind::SharedOffer, 2, 64, 40);
// @verif tier=quick unwind=4 unwindset=term_untouched:12,payload_in_log:66 fs=6000
pub_step!(c04_shared_offer_over_max_message_length, Kind::SharedOffer, 1, 32, 65);
// @verif tier=quick unwind=4 unwindset=term_untouched:12,payload_in_log:66 fs=6000
pub_step!(c04_shared_offer_trips_term_end, Kind::SharedOffer, 1, TL as i32 - 32, 17);
// @verif tier=quick unwind=4 unwindset=term_untouched:12,payload_in_log:66 fs=6000
pub_step!(c04_shared_offer_trips_last_term, Kind::SharedOffer, i32::MAX, TL as i32 - 32, 17);
// @verif tier=quick unwind=4 unwindset=term_untouched:12,payload_in_log:66 fs=6000
pub_step!(c04_shared_claim_commit, Kind::SharedClaim, 4, 96, 20);
// @verif tier=quick unwind=4 unwindset=term_untouched:12,payload_in_log:66 fs=6000
pub_step!(c04_shared_claim_over_mtu_payload, Kind::SharedClaim, 0, 0, 33);
// @verif tier=quick unwind=4 unwindset=term_untouched:12,payload_in_log:66 fs=6000
pub_step!(c04_exclusive_offer_unfragmented, Kind::ExclOffer, 0, 32, 32);
// @verif tier=quick unwind=4 unwindset=term_untouched:12,payload_in_log:66 fs=6000
pub_step!(c04_exclusive_offer_fragmented_after_handover, Kind::ExclOffer, 3, 64, 64);
// @verif tier=quick unwind=4 unwindset=term_untouched:12,payload_in_log:66 fs=6000
pub_step!(c04_exclusive_offer_trips_term_end, Kind::ExclOffer, 0, TL as i32 - 64, 40);
// @verif tier=quick unwind=4 unwindset=term_untouched:12,payload_in_log:66 fs=6000
pub_step!(c04_exclusive_offer_fills_term_exactly_odd_term_count, Kind::ExclOffer, 3, TL as i32 - 64, 32);
// @verif tier=quick unwind=4 unwindset=term_untouched:12,payload_in_log:66 fs=6000
pub_step!(c04_exclusive_claim_commit, Kind::ExclClaim, 0, 128, 1);
// The exclusive appender reaches its tail counter through an integer-derived raw pointer; for partitions 1 and 2 CBMC
// cannot resolve it inside the 5.6 KB log object (15 min+, measured), so exclusive instances use term counts that are
// multiples of 3 and the constructor-only harness below covers the other partitions.
// @verif tier=off unwind=4 unwindset=term_untouched:12,payload_in_log:66 fs=6000
pub_step!(c04_exclusive_offer_trips_last_term, Kind::ExclOffer, i32::MAX, TL as i32 - 32, 17);
// @verif tier=thorough unwind=4 unwindset=term_untouched:12,payload_in_log:66 fs=6000
pub_step!(c04_shared_offer_empty_message, Kind::SharedOffer, 5, 160, 0);
// @verif tier=thorough unwind=4 unwindset=term_untouched:12,payload_in_log:66 fs=6000
pub_step!(c04_shared_offer_fills_term_exactly, Kind::SharedOffer, 0, TL as i32 - 64, 32);
// @verif tier=thorough unwind=4 unwindset=term_untouched:12,payload_in_log:66 fs=6000
pub_step!(c04_shared_offer_tail_already_beyond_term, Kind::SharedOffer, 1, TL as i32 + 32, 17);
// @verif tier=quick unwind=4 unwindset=term_untouched:12,payload_in_log:66 fs=6000
pub_step!(c04_exclusive_claim_over_mtu_payload, Kind::ExclClaim, 6, 0, 40);
// @verif tier=thorough unwind=4 unwindset=term_untouched:12,payload_in_log:66 fs=6000
pub_step!(c04_shared_claim_trips_term_end, Kind::SharedClaim, 2, TL as i32 - 32, 32);

/// ExclusivePublication::new on a log handed over with `count` elapsed terms and a non-zero tail: position, term id
/// and term offset come from the active partition (constructor only - see the note above).
macro_rules! excl_new {
    ($name:ident, $count:expr, $tail:expr) => {
        #[kani::proof]
        fn $name() {
            let mut l = PubLog::new($count, $tail);
            l.set_limit(kani::any());
            let p = l.exclusive_publication();
            assert!(vok!(p.position(), "C04: open publication reports a position") == l.position(), "C04: position right after construction equals elapsed terms x term length + tail offset");
            assert!(p.term_id() == l.term_id() && p.term_offset() == $tail, "C04: exclusive publication starts at the active term id and tail offset");
            p.close();
            assert!(p.position().is_err() && p.publication_limit().is_err() && p.available_window().is_err(), "C04: a closed publication rejects position / limit / window queries");
            std::mem::forget(p);
        }
    };
}
// @verif tier=quick unwind=4 fs=6000
excl_new!(c04_exclusive_new_count1, 1, 64);
// @verif tier=quick unwind=4 fs=6000
excl_new!(c04_exclusive_new_count2_wrapped, 2, 96);
// @verif tier=thorough unwind=4 fs=6000
excl_new!(c04_exclusive_new_count0, 0, 0);

/// Shared publication: position / limit / window accessors, open and closed.
// @verif tier=quick unwind=4 fs=6000
#[kani::proof]
fn c04_shared_accessors_open_and_closed() {
    let mut l = PubLog::new(4, 160);
    let limit: i64 = kani::any();
    kani::assume(limit > -(1i64 << 62) && limit < (1i64 << 62));
    l.set_limit(limit);
    let p = l.publication();
    assert!(vok!(p.position(), "C04: open publication reports a position") == l.position(), "C04: position equals elapsed terms x term length + tail offset");
    assert!(vok!(p.publication_limit(), "C04: open publication reports its limit") == limit, "C04: limit as stored in the counter");
    assert!(vok!(p.available_window(), "C04: open publication reports a window") == limit - l.position(), "C04: window == limit - position");
    p.close();
    assert!(matches!(p.position(), Err(AeronError::PublicationClosed)), "C04: closed publication rejects position()");
    assert!(matches!(p.publication_limit(), Err(AeronError::PublicationClosed)), "C04: closed publication rejects publication_limit()");
    assert!(matches!(p.available_window(), Err(AeronError::PublicationClosed)), "C04: closed publication rejects available_window()");
    std::mem::forget(p);
}

// C17 states that positions are elapsed-terms x term-length + offset everywhere they are reported; the position an
// exclusive offer returns when the message ends flush with the term end (odd number of elapsed terms) is the same step.
// @verif tier=quick unwind=4 unwindset=term_untouched:12,payload_in_log:66 fs=6000
pub_step!(c17_exclusive_offer_position_flush_with_term_end, Kind::ExclOffer, 3, TL as i32 - 64, 32);
