//! C16 — buffer accessors never touch memory outside the wrapped region.
//! The wrapped region is the 32-byte window [32,64) of a 96-byte array: guard zones on both sides.
//! Every harness is "loud": a panic inside the accessor (bounds_check's assert, a dev-profile overflow check) is the
//! accepted way to refuse; what must never happen is (a) returning normally for an (offset, length) outside the
//! region, (b) a changed guard byte, (c) a result that differs from the bytes of the region.
use super::util::*;
use crate::command::flyweight::Flyweight;
use crate::concurrent::atomic_buffer::AtomicBuffer;
use crate::utils::types::Index;

const G: usize = 32; // guard size
const R: usize = 32; // region size

fn region(m: &mut Mem<96>) -> AtomicBuffer {
    m.window(G, R)
}

fn in_region(off: i32, len: i64) -> bool {
    off >= 0 && len >= 0 && (off as i64) + len <= R as i64
}

/// symbolic probe into the guard zones
fn guard_probe() -> usize {
    let i: usize = kani::any();
    kani::assume(i < G || (i >= G + R && i < G + R + G));
    i
}

macro_rules! get_harness {
    ($name:ident, $t:ty, $get:ident) => {
        #[kani::proof]
        fn $name() {
            let mut m = Mem::<96>::any();
            let b = region(&mut m);
            let off: i32 = kani::any();
            let v: $t = b.$get::<$t>(off);
            let n = std::mem::size_of::<$t>();
            assert!(in_region(off, n as i64), "C16: read accessor returned for an offset/length outside the region");
            let mut raw = [0u8; 8];
            let mut k = 0;
            while k < n {
                raw[k] = m.0[G + off as usize + k];
                k += 1;
            }
            let mut expect = [0u8; 8];
            let vb = v.to_le_bytes();
            let mut k = 0;
            while k < n {
                expect[k] = vb[k];
                k += 1;
            }
            assert!(raw == expect, "C16: value read equals the bytes of the region");
            kani::cover!(off == (R - n) as i32, "[must] last valid offset returns");
        }
    };
}
// @verif tier=quick loud=1
get_harness!(c16_get_u8, u8, get);
// @verif tier=quick loud=1
get_harness!(c16_get_u16, u16, get);
// @verif tier=quick loud=1
get_harness!(c16_get_i32, i32, get);
// @verif tier=quick loud=1
get_harness!(c16_get_i64, i64, get);
// @verif tier=quick loud=1
get_harness!(c16_get_volatile_i32, i32, get_volatile);
// @verif tier=quick loud=1
get_harness!(c16_get_volatile_i64, i64, get_volatile);

macro_rules! put_harness {
    ($name:ident, $t:ty, $call:expr) => {
        #[kani::proof]
        fn $name() {
            let mut m = Mem::<96>::any();
            let g = guard_probe();
            let before = m.0[g];
            let b = region(&mut m);
            let off: i32 = kani::any();
            let v: $t = kani::any();
            let f: fn(&AtomicBuffer, i32, $t) = $call;
            f(&b, off, v);
            let n = std::mem::size_of::<$t>();
            assert!(m.0[g] == before, "C16: write accessor changed a byte outside the region");
            assert!(in_region(off, n as i64), "C16: write accessor returned for an offset/length outside the region");
            let vb = v.to_le_bytes();
            let j: usize = kani::any();
            kani::assume(j < n);
            assert!(m.0[G + off as usize + j] == vb[j], "C16: value written lands at the requested offset");
            kani::cover!(off == (R - n) as i32, "[must] last valid offset returns");
        }
    };
}
// @verif tier=quick loud=1
put_harness!(c16_put_u8, u8, |b, o, v| b.put::<u8>(o, v));
// @verif tier=quick loud=1
put_harness!(c16_put_i32, i32, |b, o, v| b.put::<i32>(o, v));
// @verif tier=quick loud=1
put_harness!(c16_put_i64, i64, |b, o, v| b.put::<i64>(o, v));
// @verif tier=quick loud=1
put_harness!(c16_put_ordered_i32, i32, |b, o, v| b.put_ordered::<i32>(o, v));
// @verif tier=quick loud=1
put_harness!(c16_put_ordered_i64, i64, |b, o, v| b.put_ordered::<i64>(o, v));
// @verif tier=quick loud=1
put_harness!(c16_put_atomic_i64, i64, |b, o, v| {
    kani::assume(o % 8 == 0); // documented precondition of the atomic accessors: naturally aligned word
    b.put_atomic_i64(o, v)
});

// @verif tier=quick loud=1
#[kani::proof]
fn c16_cas_i32() {
    let mut m = Mem::<96>::any();
    let g = guard_probe();
    let before = m.0[g];
    let b = region(&mut m);
    let off: i32 = kani::any();
    let (e, u): (i32, i32) = (kani::any(), kani::any());
    let old_ok = in_region(off, 4);
    let old = if old_ok { i32::from_le_bytes([m.0[G + off as usize], m.0[G + off as usize + 1], m.0[G + off as usize + 2], m.0[G + off as usize + 3]]) } else { 0 };
    kani::assume(off % 4 == 0); // atomic word must be naturally aligned (caller precondition)
    let r = b.compare_and_set_i32(off, e, u);
    assert!(m.0[g] == before, "C16: CAS changed a byte outside the region");
    assert!(old_ok, "C16: CAS returned for an offset outside the region");
    assert!(r == (old == e), "C16: CAS succeeds iff the expected value was present");
    let now = b.get::<i32>(off);
    assert!(now == if r { u } else { old }, "C16: CAS stores the update only on success");
}

/// 8-byte RMW accessors on a region whose length (28) is NOT a multiple of 8: the last aligned offset (24) leaves room
/// for 4 bytes only and must be refused.
// @verif tier=quick loud=1
#[kani::proof]
fn c16_cas_i64_and_fetch_add() {
    let mut m = Mem::<96>::any();
    let g: usize = kani::any();
    kani::assume(g < G || (g >= G + 28 && g < 96)); // everything outside the 28-byte region is guard zone
    let before = m.0[g];
    let b = m.window(G, 28);
    let off: i32 = kani::any();
    let (e, u): (i64, i64) = (kani::any(), kani::any());
    let which: u8 = kani::any();
    kani::assume(off % 8 == 0); // atomic word must be naturally aligned (caller precondition)
    let fits = off >= 0 && off as i64 + 8 <= 28;
    if which == 0 {
        let _ = b.compare_and_set_i64(off, e, u);
    } else if which == 1 {
        kani::assume(u > -1000 && u < 1000);
        let old = b.get_and_add_i64(off, u);
        assert!(fits, "C16: fetch-add returned for an offset outside the region");
        assert!(b.get::<i64>(off) == old.wrapping_add(u), "C16: fetch-add adds the delta");
    } else {
        b.put_atomic_i64(off, u);
    }
    assert!(m.0[g] == before, "C16: 8-byte RMW accessor changed a byte outside the region");
    assert!(fits, "C16: 8-byte RMW accessor returned for an offset outside the region");
    kani::cover!(off == 16, "[must] last fitting aligned offset returns");
}

// @verif tier=quick loud=1
#[kani::proof]
fn c16_add_i64_ordered() {
    let mut m = Mem::<96>::any();
    let g = guard_probe();
    let before = m.0[g];
    let b = region(&mut m);
    let off: i32 = kani::any();
    let d: i64 = kani::any();
    b.add_i64_ordered(off, d);
    assert!(m.0[g] == before, "C16: add_i64_ordered changed a byte outside the region");
    assert!(in_region(off, 8), "C16: add_i64_ordered returned for an offset outside the region");
}

// @verif tier=quick loud=1
#[kani::proof]
fn c16_put_bytes() {
    let mut m = Mem::<96>::any();
    let g = guard_probe();
    let before = m.0[g];
    let b = region(&mut m);
    let off: i32 = kani::any();
    let src: [u8; 40] = kani::any();
    let n: usize = kani::any();
    kani::assume(n <= 40);
    b.put_bytes(off, &src[..n]);
    assert!(m.0[g] == before, "C16: put_bytes changed a byte outside the region");
    assert!(in_region(off, n as i64), "C16: put_bytes returned for an offset/length outside the region");
    let j: usize = kani::any();
    kani::assume(j < n);
    assert!(m.0[G + off as usize + j] == src[j], "C16: put_bytes copies the source bytes");
    kani::cover!(n == 32 && off == 0, "[must] full-region copy returns");
}

// @verif tier=quick loud=1
#[kani::proof]
fn c16_get_bytes() {
    let mut m = Mem::<96>::any();
    let b = region(&mut m);
    let off: i32 = kani::any();
    let mut dst = [0u8; 12];
    b.get_bytes::<[u8; 12]>(off, &mut dst);
    assert!(in_region(off, 12), "C16: get_bytes returned for an offset outside the region");
    let j: usize = kani::any();
    kani::assume(j < 12);
    assert!(dst[j] == m.0[G + off as usize + j], "C16: get_bytes reads the region bytes");
}

// @verif tier=quick loud=1
#[kani::proof]
fn c16_copy_from() {
    let mut m = Mem::<96>::any();
    let mut s = Mem::<96>::any();
    let g = guard_probe();
    let before = m.0[g];
    let b = region(&mut m);
    // the source region is SMALLER than the destination region (16 bytes at [32,48) of its array): a source range
    // that would fit the destination but not the source must be refused as well
    let sb = s.window(G, 16);
    let (off, soff, len): (i32, i32, i32) = (kani::any(), kani::any(), kani::any());
    b.copy_from(off, &sb, soff, len);
    assert!(m.0[g] == before, "C16: copy_from changed a byte outside the destination region");
    assert!(in_region(off, len as i64) && len >= 0, "C16: copy_from returned for a destination range outside the region");
    assert!(soff >= 0 && soff as i64 + len as i64 <= 16, "C16: copy_from returned for a source range outside the source region");
    let j: usize = kani::any();
    kani::assume(j < len as usize);
    assert!(m.0[G + off as usize + j] == s.0[G + soff as usize + j], "C16: copy_from copies the source bytes");
    kani::cover!(len == 16, "[must] full-source copy returns");
}

/// copy_from where the source wrapper is a SHORTER VIEW OF THE DESTINATION'S OWN MEMORY (same start address, 16 of the
/// 32 bytes): the source range is bounded by the source wrapper's length, not by the destination's - an "in-place copy"
/// shortcut keyed on pointer equality that checks only the destination (seeded change C16-f) reads bytes outside the
/// source region. Overlapping ranges are excluded by assumption (the crate copies with copy_nonoverlapping and leaves
/// overlap to the caller; overlap is not a bounds question).
// @verif tier=quick loud=1
#[kani::proof]
fn c16_copy_from_shorter_view_of_same_memory() {
    let mut m = Mem::<96>::any();
    let g = guard_probe();
    let before = m.0[g];
    let b = region(&mut m);
    let sb = b.view(0, 16);
    let (off, soff, len): (i32, i32, i32) = (kani::any(), kani::any(), kani::any());
    kani::assume(off as i64 >= soff as i64 + len as i64 || soff as i64 >= off as i64 + len as i64);
    b.copy_from(off, &sb, soff, len);
    assert!(m.0[g] == before, "C16: copy_from changed a byte outside the destination region");
    assert!(in_region(off, len as i64) && len >= 0, "C16: copy_from returned for a destination range outside the region");
    assert!(soff >= 0 && soff as i64 + len as i64 <= 16, "C16: copy_from returned for a source range outside the source region (the source is a shorter view of the same memory)");
    kani::cover!(len == 16 && off == 16 && soff == 0, "[must] copy of the whole view into the other half returns");
}

// @verif tier=quick loud=1 unwind=34
#[kani::proof]
fn c16_set_memory() {
    let mut m = Mem::<96>::any();
    let g = guard_probe();
    let before = m.0[g];
    let b = region(&mut m);
    let (off, len): (i32, i32) = (kani::any(), kani::any());
    let v: u8 = kani::any();
    // lengths beyond the region + guard cannot be unwound; they are covered by c16_set_memory_refuses_large
    kani::assume(len <= 33);
    b.set_memory(off, len, v);
    assert!(m.0[g] == before, "C16: set_memory changed a byte outside the region");
    assert!(in_region(off, len as i64), "C16: set_memory returned for a range outside the region");
    let j: usize = kani::any();
    kani::assume(j < len as usize);
    assert!(m.0[G + off as usize + j] == v, "C16: set_memory fills the range");
    kani::cover!(len == 32, "[must] full-region fill returns");
}

/// set_memory with a length larger than the region (incl. negative = huge usize): must refuse before the first store.
// @verif tier=quick loud=1 unwind=2
#[kani::proof]
fn c16_set_memory_refuses_large() {
    let mut m = Mem::<96>::any();
    let b = region(&mut m);
    let (off, len): (i32, i32) = (kani::any(), kani::any());
    kani::assume(len > 33 || len < 0);
    let i: usize = kani::any();
    kani::assume(i < 96);
    let before = m.0[i];
    b.set_memory(off, len, 0xAA);
    assert!(false, "C16: set_memory returned for a length outside the region");
}

// @verif tier=quick loud=1
#[kani::proof]
fn c16_view_and_sub_slice() {
    let mut m = Mem::<96>::any();
    let base = m.0.as_ptr() as usize;
    let b = region(&mut m);
    let (off, len): (i32, i32) = (kani::any(), kani::any());
    if kani::any() {
        let v = b.view(off, len);
        assert!(in_region(off, len as i64), "C16: view returned for a range outside the region");
        assert!(v.capacity() == len && v.buffer() as usize == base + G + off as usize, "C16: view wraps exactly the requested range");
    } else {
        let s = b.as_sub_slice(off, len);
        assert!(in_region(off, len as i64), "C16: as_sub_slice returned for a range outside the region");
        assert!(s.len() == len as usize && s.as_ptr() as usize == base + G + off as usize, "C16: sub slice is exactly the requested range");
    }
}

#[repr(C, packed(4))]
#[derive(Copy, Clone)]
struct Twenty {
    a: i64,
    b: i64,
    c: i32,
}

// @verif tier=quick loud=1
#[kani::proof]
fn c16_overlay_struct_and_as_ref() {
    let mut m = Mem::<96>::any();
    let base = m.0.as_ptr() as usize;
    let b = region(&mut m);
    let off: i32 = kani::any();
    if kani::any() {
        let p = b.overlay_struct::<Twenty>(off);
        assert!(in_region(off, 20), "C16: overlay_struct returned for a range outside the region");
        assert!(p as usize == base + G + off as usize, "C16: overlay points at the requested offset");
    } else {
        let r: &u8 = b.as_ref::<u8>(off);
        assert!(in_region(off, 1), "C16: as_ref returned for an offset outside the region");
        assert!(r as *const u8 as usize == base + G + off as usize, "C16: as_ref points at the requested offset");
    }
}

// @verif tier=quick loud=1
#[kani::proof]
fn c16_get_string_length() {
    let mut m = Mem::<96>::any();
    let b = region(&mut m);
    let off: i32 = kani::any();
    let n = b.get_string_length(off);
    assert!(in_region(off, 4), "C16: get_string_length returned for an offset outside the region");
}

// @verif tier=quick loud=1 unwind=14
#[kani::proof]
fn c16_put_string() {
    let mut m = Mem::<96>::any();
    let g = guard_probe();
    let before = m.0[g];
    let b = region(&mut m);
    let off: i32 = kani::any();
    let src: [u8; 12] = kani::any();
    let n: usize = kani::any();
    kani::assume(n <= 12);
    b.put_string(off, &src[..n]);
    assert!(m.0[g] == before, "C16: put_string changed a byte outside the region");
    assert!(in_region(off, n as i64 + 4), "C16: put_string returned for a range outside the region");
    assert!(b.get::<i32>(off) == n as i32, "C16: put_string stores the length prefix");
    let j: usize = kani::any();
    kani::assume(j < n);
    assert!(m.0[G + off as usize + 4 + j] == src[j], "C16: put_string stores the body after the prefix");
}

// @verif tier=quick loud=1 unwind=14
#[kani::proof]
fn c16_put_string_without_length() {
    let mut m = Mem::<96>::any();
    let g = guard_probe();
    let before = m.0[g];
    let b = region(&mut m);
    let off: i32 = kani::any();
    let src: [u8; 12] = kani::any();
    let n: usize = kani::any();
    kani::assume(n <= 12);
    let r = b.put_string_without_length(off, &src[..n]);
    assert!(m.0[g] == before, "C16: put_string_without_length changed a byte outside the region");
    assert!(r == n as i32, "C16: put_string_without_length reports the bytes written");
}

/// get_string / get_string_without_length: returned only when [offset, offset+4+len) lies in the region; body bytes equal.
// @verif tier=quick loud=1 unwind=12
#[kani::proof]
fn c16_get_string() {
    let mut m = Mem::<96>::any();
    let b = region(&mut m);
    let off: i32 = kani::any();
    // CString construction loops over the body: keep the in-buffer length small when it is valid; invalid lengths stay arbitrary
    let s = b.get_string(off);
    assert!(in_region(off, 4), "C16: get_string returned for a prefix outside the region");
    let len = i32::from_le_bytes([m.0[G + off as usize], m.0[G + off as usize + 1], m.0[G + off as usize + 2], m.0[G + off as usize + 3]]);
    assert!(in_region(off, 4 + len as i64) && len >= 0, "C16: get_string trusted an in-buffer length that leaves the region");
    std::mem::forget(s);
}

// @verif tier=quick loud=1 unwind=12
#[kani::proof]
fn c16_get_string_without_length() {
    let mut m = Mem::<96>::any();
    let b = region(&mut m);
    let (off, len): (i32, i32) = (kani::any(), kani::any());
    kani::assume(len <= 8 || len > 32);
    let s = b.get_string_without_length(off, len);
    assert!(in_region(off, len as i64), "C16: get_string_without_length returned for a range outside the region");
    let bytes = s.as_bytes();
    assert!(bytes.len() <= len as usize, "C16: string no longer than requested");
    let j: usize = kani::any();
    kani::assume(j < bytes.len());
    assert!(bytes[j] == m.0[G + off as usize + j], "C16: string bytes equal the region bytes");
    std::mem::forget(s);
}

#[repr(C, packed(4))]
#[derive(Copy, Clone)]
struct Hdr {
    a: i64,
    b: i32,
}

/// Flyweight accessors relative to a base offset.
// @verif tier=quick loud=1
#[kani::proof]
fn c16_flyweight_put_get_bytes() {
    let mut m = Mem::<96>::any();
    let g = guard_probe();
    let before = m.0[g];
    let b = region(&mut m);
    let base: i32 = kani::any();
    let fw = Flyweight::<Hdr>::new(b, base);
    assert!(in_region(base, 12), "C16: Flyweight::new returned for a base outside the region");
    let off: i32 = kani::any();
    let which: u8 = kani::any();
    if which == 0 {
        fw.put::<i32>(off, kani::any());
        assert!(in_region(base, 0) && (base as i64 + off as i64) >= 0 && (base as i64 + off as i64 + 4) <= R as i64, "C16: Flyweight::put returned outside the region");
    } else if which == 1 {
        let src: [u8; 6] = kani::any();
        fw.put_bytes(off, &src);
        assert!((base as i64 + off as i64) >= 0 && (base as i64 + off as i64 + 6) <= R as i64, "C16: Flyweight::put_bytes returned outside the region");
    } else {
        let mut d = [0u8; 6];
        fw.get_bytes::<[u8; 6]>(off, &mut d);
        assert!((base as i64 + off as i64) >= 0 && (base as i64 + off as i64 + 6) <= R as i64, "C16: Flyweight::get_bytes returned outside the region");
    }
    assert!(m.0[g] == before, "C16: Flyweight accessor changed a byte outside the region");
}
