//! C15 — counters: ids unique while live, reuse waits for the cool-down, reads are total.
//! Buffers: 2 slots (meta data 2 x 512 B, values 2 x 128 B), exact-size allocations so that CBMC's pointer checks
//! flag any access outside the two buffers.
use super::util::*;
use crate::concurrent::atomic_buffer::AtomicBuffer;
use crate::concurrent::counters::*;
use crate::utils::errors::AeronError;
use std::ffi::CString;

// non-zero, distinctive initialiser: Kani merges all-zero `static mut`s with same-content constants
static mut NOW: u64 = 0x5a5a_c15c_0000_0001;
fn clock() -> u64 {
    unsafe { NOW }
}

fn touch() {
    let _ = *FREE_TO_REUSE_DEADLINE_OFFSET + *LABEL_LENGTH_OFFSET + *KEY_OFFSET + *TYPE_ID_OFFSET;
}

fn put_le<const N: usize>(m: &mut [u8], at: usize, b: [u8; N]) {
    let mut i = 0;
    while i < N {
        m[at + i] = b[i];
        i += 1;
    }
}

/// Reader accessors are total: any i32 id gives Ok or Err, never a panic, and Ok exactly for ids of existing slots.
// @verif tier=quick unwind=9
#[kani::proof]
fn c15_reader_accessors_total() {
    touch();
    let mut meta = Mem::<1024>::zeroed();
    let mut vals = Mem::<256>::zeroed();
    let id: i32 = kani::any();
    let v: [u64; 2] = kani::any();
    let st: [i32; 2] = kani::any();
    let dl: [u64; 2] = kani::any();
    put_le(&mut vals.0, 0, v[0].to_le_bytes());
    put_le(&mut vals.0, 128, v[1].to_le_bytes());
    put_le(&mut meta.0, 0, st[0].to_le_bytes());
    put_le(&mut meta.0, 512, st[1].to_le_bytes());
    put_le(&mut meta.0, 8, dl[0].to_le_bytes());
    put_le(&mut meta.0, 520, dl[1].to_le_bytes());
    let r = CountersReader::new(meta.buf(), vals.buf());
    assert!(r.max_counter_id() == 2, "C15: harness has two slots");
    let valid = id >= 0 && id < 2;
    let which: u8 = kani::any();
    if which == 0 {
        match r.counter_value(id) {
            Ok(x) => {
                assert!(valid, "C15: counter_value returned a value for an id without a slot");
                assert!(x == v[id as usize], "C15: counter_value returns the stored value");
            }
            Err(e) => {
                assert!(!valid, "C15: counter_value refused a valid id");
                std::mem::forget(e);
            }
        }
    } else if which == 1 {
        match r.counter_state(id) {
            Ok(x) => {
                assert!(valid, "C15: counter_state returned a value for an id without a slot");
                assert!(x == st[id as usize], "C15: counter_state returns the stored state");
            }
            Err(e) => {
                assert!(!valid, "C15: counter_state refused a valid id");
                std::mem::forget(e);
            }
        }
    } else {
        match r.free_to_reuse_deadline(id) {
            Ok(x) => {
                assert!(valid, "C15: free_to_reuse_deadline returned a value for an id without a slot");
                assert!(x == dl[id as usize], "C15: free_to_reuse_deadline returns the stored deadline");
            }
            Err(e) => {
                assert!(!valid, "C15: free_to_reuse_deadline refused a valid id");
                std::mem::forget(e);
            }
        }
    }
    kani::cover!(id == 2, "[must] boundary id == slot count explored");
    kani::cover!(id == 1, "[must] last valid id explored");
}

/// counter_label for any id: Ok with the stored label for existing slots, Err otherwise, never a panic.
// @verif tier=quick unwind=9
#[kani::proof]
fn c15_reader_label_total() {
    touch();
    let mut meta = Mem::<1024>::zeroed();
    let mut vals = Mem::<256>::zeroed();
    let id: i32 = kani::any();
    let n: [u8; 2] = kani::any();
    kani::assume(n[0] <= 4 && n[1] <= 4);
    let text: [[u8; 4]; 2] = kani::any();
    put_le(&mut meta.0, 128, (n[0] as i32).to_le_bytes());
    put_le(&mut meta.0, 132, text[0]);
    put_le(&mut meta.0, 640, (n[1] as i32).to_le_bytes());
    put_le(&mut meta.0, 644, text[1]);
    let r = CountersReader::new(meta.buf(), vals.buf());
    match r.counter_label(id) {
        Ok(s) => {
            assert!(id >= 0 && id < 2, "C15: counter_label returned a label for an id without a slot");
            let k = id as usize;
            assert!(s.as_bytes().len() == n[k] as usize, "C15: label length as stored");
            let j: usize = kani::any();
            kani::assume(j < n[k] as usize);
            assert!(s.as_bytes()[j] == text[k][j], "C15: label bytes as stored");
            std::mem::forget(s);
        }
        Err(e) => {
            assert!(!(id >= 0 && id < 2), "C15: counter_label refused a valid id");
            std::mem::forget(e);
        }
    }
}

/// allocate x3 on two slots, free, clock advance, allocate: uniqueness, exhaustion, cool-down, zeroed reuse.
// @verif tier=quick unwind=6
#[kani::proof]
fn c15_allocate_free_reuse_cooldown() {
    touch();
    let mut meta = Mem::<1024>::zeroed();
    let mut vals = Mem::<256>::zeroed();
    let timeout: u64 = kani::any();
    let (t0, t1, t2): (u64, u64, u64) = (kani::any(), kani::any(), kani::any());
    kani::assume(timeout < (1 << 62) && t0 <= t1 && t1 <= t2 && t2 < (1 << 62));
    unsafe { NOW = t0 };
    let mut cm = CountersManager::new_opt(meta.buf(), vals.buf(), clock, timeout);
    let a = vok!(cm.allocate("a"), "C15: first allocation succeeds");
    let b = vok!(cm.allocate("b"), "C15: second allocation succeeds");
    assert!(a != b && (0..2).contains(&a) && (0..2).contains(&b), "C15: live ids are distinct and within the slots");
    let probe: usize = kani::any();
    kani::assume(probe < 1024);
    let before = meta.0[probe];
    match cm.allocate("c") {
        Ok(c) => assert!(false, "C15: allocation succeeded although no slot is free"),
        Err(e) => std::mem::forget(e),
    }
    assert!(meta.0[probe] == before, "C15: a failed allocation leaves the meta data unchanged");
    assert!(vok!(cm.counter_value(a), "C15: value readable") == 0, "C15: new counter starts at zero");
    let stale: u64 = kani::any();
    cm.set_counter_value(a, stale);
    unsafe { NOW = t1 };
    cm.free(a);
    // a holder of the freed id may still store into its value slot during the cool-down
    let late: u64 = kani::any();
    cm.set_counter_value(a, late);
    assert!(cm.iter().count() <= 2, "C15: iteration bounded");
    unsafe { NOW = t2 };
    match cm.allocate("d") {
        Ok(d) => {
            assert!(d == a, "C15: the only reusable id is the freed one (the live id is never handed out twice)");
            assert!(t2 >= t1 + timeout, "C15: id reused before its cool-down deadline");
            assert!(vok!(cm.counter_value(d), "C15: value readable") == 0, "C15: reused counter starts from zero");
        }
        Err(e) => {
            assert!(t2 <= t1 + timeout, "C15: allocation refused although the freed id is past its cool-down");
            std::mem::forget(e);
        }
    }
    kani::cover!(t2 == t1 + timeout, "[must] boundary instant explored");
    kani::cover!(t2 < t1 + timeout, "[must] cool-down refusal explored");
    std::mem::forget(cm);
}

/// for_each enumerates exactly the allocated counters with the stored type id, key prefix and label.
// @verif tier=quick unwind=8
#[kani::proof]
fn c15_for_each_enumerates_live_counters() {
    touch();
    let mut meta = Mem::<1024>::zeroed();
    let mut vals = Mem::<256>::zeroed();
    unsafe { NOW = 0 };
    let mut cm = CountersManager::new_opt(meta.buf(), vals.buf(), clock, 1000);
    let (ty0, ty1): (i32, i32) = (kani::any(), kani::any());
    let key: [u8; 4] = kani::any();
    let kn: usize = kani::any();
    kani::assume(kn <= 4);
    let a = vok!(cm.allocate_opt(ty0, Some(&key[..kn]), Option::<fn(&mut AtomicBuffer)>::None, "a"), "C15: allocation with key succeeds");
    let b = vok!(cm.allocate_opt(ty1, None, Option::<fn(&mut AtomicBuffer)>::None, "bc"), "C15: allocation succeeds");
    let free_first: bool = kani::any();
    if free_first {
        cm.free(a);
    }
    let r = CountersReader::new(meta.buf(), vals.buf());
    let mut seen = [0u8; 2];
    let mut types = [0i32; 2];
    let mut lens = [0usize; 2];
    let mut first = [0u8; 2];
    let mut key_ok = true;
    let mut bad_id = false;
    r.for_each(|id, ty, kb, label| {
        if id < 0 || id > 1 {
            bad_id = true;
        } else {
            let i = id as usize;
            seen[i] += 1;
            types[i] = ty;
            lens[i] = label.as_bytes().len();
            first[i] = label.as_bytes()[0];
            if i == 0 {
                let j: usize = kani::any();
                kani::assume(j < kn);
                key_ok = kb.get::<u8>(j as i32) == key[j];
            }
        }
        std::mem::forget(label);
    });
    assert!(!bad_id, "C15: for_each reported an id outside the slots");
    assert!(a == 0 && b == 1, "C15: fresh ids are handed out in order");
    assert!(seen[1] == 1 && types[1] == ty1 && lens[1] == 2 && first[1] == b'b', "C15: live counter enumerated once with stored type and label");
    if free_first {
        assert!(seen[0] == 0, "C15: freed counter is not enumerated");
    } else {
        assert!(seen[0] == 1 && types[0] == ty0 && lens[0] == 1 && first[0] == b'a' && key_ok, "C15: counter enumerated with stored type, key and label");
    }
    std::mem::forget(cm);
}

const LONG: &str = "0123456789012345678901234567890123456789012345678901234567890123456789012345678901234567890123456789\
0123456789012345678901234567890123456789012345678901234567890123456789012345678901234567890123456789\
0123456789012345678901234567890123456789012345678901234567890123456789012345678901234567890123456789\
01234567890123456789012345678901234567890123456789012345678901234567890123456789X";

/// label of 381 bytes / key of 113 bytes: Err, nothing allocated, no access outside the buffers; 380 / 112: Ok and stored.
// @verif tier=quick unwind=8 unwindset=memchr_aligned:30,memchr_naive:20
#[kani::proof]
fn c15_oversize_label_and_key() {
    touch();
    assert!(LONG.len() == 381, "C15: harness constant");
    let mut meta = Mem::<1024>::zeroed();
    let mut vals = Mem::<256>::zeroed();
    unsafe { NOW = 0 };
    let mut cm = CountersManager::new_opt(meta.buf(), vals.buf(), clock, 0);
    let which: u8 = kani::any();
    kani::assume(which < 4);
    let key = [7u8; 113];
    let res = match which {
        0 => cm.allocate(LONG),
        1 => cm.allocate(&LONG[..380]),
        2 => cm.allocate_opt(5, Some(&key[..113]), Option::<fn(&mut AtomicBuffer)>::None, "k"),
        _ => cm.allocate_opt(5, Some(&key[..112]), Option::<fn(&mut AtomicBuffer)>::None, "k"),
    };
    let state0 = i32::from_le_bytes([meta.0[0], meta.0[1], meta.0[2], meta.0[3]]);
    match res {
        Ok(id) => {
            assert!(which == 1 || which == 3, "C15: oversize label/key accepted");
            assert!(id == 0 && state0 == RECORD_ALLOCATED, "C15: maximal label/key allocates slot 0");
            if which == 1 {
                assert!(meta.0[128] == 0x7c && meta.0[129] == 0x01 && meta.0[132 + 379] == b'9' && meta.0[132] == b'0', "C15: 380-byte label stored whole");
            } else {
                assert!(meta.0[16 + 111] == 7 && meta.0[128] == 1, "C15: 112-byte key stored whole, label length intact");
            }
        }
        Err(e) => {
            assert!(which == 0 || which == 2, "C15: legal maximal label/key refused");
            assert!(state0 != RECORD_ALLOCATED, "C15: failed allocation must not publish a record");
            std::mem::forget(e);
        }
    }
    assert!(meta.0[512] == 0 && vals.0[128] == 0, "C15: second slot untouched");
    std::mem::forget(cm);
}
