//! C14 — driver events decode to what the driver sent; type codes are a bijection onto the protocol table.
//! The encoder below is independent of the flyweights: field offsets are those of the Aeron control protocol
//! (aeron_command.h: packed(4) structs), written here as literal numbers.
use super::util::*;
use crate::command::client_timeout_flyweight::ClientTimeoutFlyweight;
use crate::command::control_protocol_events::AeronCommand;
use crate::command::counter_update_flyweight::CounterUpdateFlyweight;
use crate::command::error_response_flyweight::ErrorResponseFlyweight;
use crate::command::image_buffers_ready_flyweight::ImageBuffersReadyFlyweight;
use crate::command::image_message_flyweight::ImageMessageFlyweight;
use crate::command::operation_succeeded_flyweight::OperationSucceededFlyweight;
use crate::command::publication_buffers_ready_flyweight::PublicationBuffersReadyFlyweight;
use crate::command::subscription_ready_flyweight::SubscriptionReadyFlyweight;
use crate::concurrent::atomic_buffer::AtomicBuffer;
use std::ffi::CString;

/// The Aeron control protocol type-code table (ControlProtocolEvents / aeron_command.h).
const TABLE: [(AeronCommand, i32); 25] = [
    (AeronCommand::Padding, -1),
    (AeronCommand::AddPublication, 0x01),
    (AeronCommand::RemovePublication, 0x02),
    (AeronCommand::AddExclusivePublication, 0x03),
    (AeronCommand::AddSubscription, 0x04),
    (AeronCommand::RemoveSubscription, 0x05),
    (AeronCommand::ClientKeepAlive, 0x06),
    (AeronCommand::AddDestination, 0x07),
    (AeronCommand::RemoveDestination, 0x08),
    (AeronCommand::AddCounter, 0x09),
    (AeronCommand::RemoveCounter, 0x0A),
    (AeronCommand::ClientClose, 0x0B),
    (AeronCommand::AddRcvDestination, 0x0C),
    (AeronCommand::RemoveRcvDestination, 0x0D),
    (AeronCommand::TerminateDriver, 0x0E),
    (AeronCommand::ResponseOnError, 0x0F01),
    (AeronCommand::ResponseOnAvailableImage, 0x0F02),
    (AeronCommand::ResponseOnPublicationReady, 0x0F03),
    (AeronCommand::ResponseOnOperationSuccess, 0x0F04),
    (AeronCommand::ResponseOnUnavailableImage, 0x0F05),
    (AeronCommand::ResponseOnExclusivePublicationReady, 0x0F06),
    (AeronCommand::ResponseOnSubscriptionReady, 0x0F07),
    (AeronCommand::ResponseOnCounterReady, 0x0F08),
    (AeronCommand::ResponseOnUnavailableCounter, 0x0F09),
    (AeronCommand::ResponseOnClientTimeout, 0x0F0A),
];

/// Every member of the type set: code == protocol code, and code -> type -> code is the identity.
// @verif tier=quick unwind=27
#[kani::proof]
fn c14_type_codes_match_protocol_and_roundtrip() {
    let k: usize = kani::any();
    kani::assume(k < TABLE.len());
    let (v, code) = TABLE[k];
    assert!(v as i32 == code, "C14: numeric code of the type equals the Aeron control protocol code");
    let back = AeronCommand::from_command_id(v as i32);
    assert!(back == v, "C14: type -> code -> type is the identity");
    kani::cover!(k == 23, "[must] unavailable-counter member reachable");
}

/// Every protocol code decodes (no unreachable!) to the type carrying that code.
// @verif tier=quick unwind=27
#[kani::proof]
fn c14_protocol_codes_decode() {
    let k: usize = kani::any();
    kani::assume(k < TABLE.len());
    let (v, code) = TABLE[k];
    let t = AeronCommand::from_command_id(code);
    assert!(t == v, "C14: protocol code decodes to the matching type");
    assert!(t as i32 == code, "C14: code -> type -> code is the identity");
}

fn put_str(m: &mut [u8], at: usize, s: &[u8], n: usize) {
    let l = (n as i32).to_le_bytes();
    m[at] = l[0];
    m[at + 1] = l[1];
    m[at + 2] = l[2];
    m[at + 3] = l[3];
    let mut i = 0;
    while i < n {
        m[at + 4 + i] = s[i];
        i += 1;
    }
}

fn put_i64(m: &mut [u8], at: usize, v: i64) {
    let b = v.to_le_bytes();
    let mut i = 0;
    while i < 8 {
        m[at + i] = b[i];
        i += 1;
    }
}

fn put_i32(m: &mut [u8], at: usize, v: i32) {
    let b = v.to_le_bytes();
    let mut i = 0;
    while i < 4 {
        m[at + i] = b[i];
        i += 1;
    }
}

fn any_text() -> ([u8; 8], usize) {
    let s: [u8; 8] = kani::any();
    let n: usize = kani::any();
    kani::assume(n <= 8);
    let mut i = 0;
    while i < 8 {
        kani::assume(s[i] != 0); // strings on the wire are ASCII without NUL
        i += 1;
    }
    (s, n)
}

fn same_text(c: &CString, s: &[u8; 8], n: usize) -> bool {
    let b = c.as_bytes();
    if b.len() != n {
        return false;
    }
    let j: usize = kani::any();
    kani::assume(j < n);
    b[j] == s[j]
}

// @verif tier=quick unwind=10
#[kani::proof]
fn c14_publication_ready_decodes() {
    let mut m = Mem::<64>::zeroed();
    let (corr, reg): (i64, i64) = (kani::any(), kani::any());
    let (sess, stream, limit_id, status_id): (i32, i32, i32, i32) = (kani::any(), kani::any(), kani::any(), kani::any());
    let (s, n) = any_text();
    put_i64(&mut m.0, 0, corr);
    put_i64(&mut m.0, 8, reg);
    put_i32(&mut m.0, 16, sess);
    put_i32(&mut m.0, 20, stream);
    put_i32(&mut m.0, 24, limit_id);
    put_i32(&mut m.0, 28, status_id);
    put_str(&mut m.0, 32, &s, n);
    let f = PublicationBuffersReadyFlyweight::new(m.buf(), 0);
    assert!(f.correlation_id() == corr && f.registration_id() == reg, "C14: publication-ready ids decode");
    assert!(f.session_id() == sess && f.stream_id() == stream, "C14: publication-ready session/stream decode");
    assert!(f.position_limit_counter_id() == limit_id && f.channel_status_indicator_id() == status_id, "C14: publication-ready counter ids decode");
    let name = f.log_file_name();
    assert!(same_text(&name, &s, n), "C14: publication-ready log file name decodes byte for byte");
    std::mem::forget(name);
}

// @verif tier=quick unwind=10
#[kani::proof]
fn c14_image_ready_decodes() {
    let mut m = Mem::<64>::zeroed();
    let (corr, sub_reg): (i64, i64) = (kani::any(), kani::any());
    let (sess, stream, pos_id): (i32, i32, i32) = (kani::any(), kani::any(), kani::any());
    let (s1, n1) = any_text();
    let (s2, n2) = any_text();
    put_i64(&mut m.0, 0, corr);
    put_i32(&mut m.0, 8, sess);
    put_i32(&mut m.0, 12, stream);
    put_i64(&mut m.0, 16, sub_reg);
    put_i32(&mut m.0, 24, pos_id);
    put_str(&mut m.0, 28, &s1, n1);
    let at2 = 32 + ((n1 + 3) & !3); // source identity follows the log file name, 4-byte aligned
    put_str(&mut m.0, at2, &s2, n2);
    let f = ImageBuffersReadyFlyweight::new(m.buf(), 0);
    assert!(f.correlation_id() == corr && f.subscription_registration_id() == sub_reg, "C14: image-ready ids decode");
    assert!(f.session_id() == sess && f.subscriber_position_id() == pos_id, "C14: image-ready session / position id decode");
    let a = f.log_file_name();
    let b = f.source_identity();
    assert!(same_text(&a, &s1, n1), "C14: image-ready log file name decodes byte for byte");
    assert!(same_text(&b, &s2, n2), "C14: image-ready source identity decodes byte for byte");
    std::mem::forget(a);
    std::mem::forget(b);
}

// @verif tier=quick unwind=10
#[kani::proof]
fn c14_error_response_decodes() {
    let mut m = Mem::<32>::zeroed();
    let corr: i64 = kani::any();
    let code: i32 = kani::any();
    let (s, n) = any_text();
    put_i64(&mut m.0, 0, corr);
    put_i32(&mut m.0, 8, code);
    put_str(&mut m.0, 12, &s, n);
    let f = ErrorResponseFlyweight::new(m.buf(), 0);
    assert!(f.offending_command_correlation_id() == corr && f.error_code() == code, "C14: error-response id and code decode");
    let msg = f.error_message();
    assert!(same_text(&msg, &s, n), "C14: error message decodes byte for byte");
    assert!(f.length() == 16 + n as i32, "C14: error-response length covers header and message");
    std::mem::forget(msg);
}

// @verif tier=quick
#[kani::proof]
fn c14_fixed_size_events_decode() {
    let mut m = Mem::<32>::zeroed();
    let (a, b): (i64, i64) = (kani::any(), kani::any());
    let c: i32 = kani::any();
    // subscription ready / counter update: i64 @0, i32 @8
    put_i64(&mut m.0, 0, a);
    put_i32(&mut m.0, 8, c);
    let s = SubscriptionReadyFlyweight::new(m.buf(), 0);
    assert!(s.correlation_id() == a && s.channel_status_indicator_id() == c, "C14: subscription-ready decodes");
    let u = CounterUpdateFlyweight::new(m.buf(), 0);
    assert!(u.correlation_id() == a && u.counter_id() == c, "C14: counter ready/unavailable decodes");
    let o = OperationSucceededFlyweight::new(m.buf(), 0);
    assert!(o.correlation_id() == a, "C14: operation-success decodes");
    let t = ClientTimeoutFlyweight::new(m.buf(), 0);
    assert!(t.client_id() == a, "C14: client-timeout decodes");
    // image message (unavailable image): correlation @0, subscription registration @8, stream @16
    put_i64(&mut m.0, 8, b);
    put_i32(&mut m.0, 16, c);
    let i = ImageMessageFlyweight::new(m.buf(), 0);
    assert!(i.correlation_id() == a && i.subscription_registration_id() == b, "C14: unavailable-image decodes");
}
