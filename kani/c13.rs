//! C13 harnesses.
