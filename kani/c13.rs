//! C13 — commands on the wire decode to exactly what the caller asked for.
//! Every DriverProxy request is issued against a real ManyToOneRingBuffer (empty, tail = head = 0, correlation
//! counter symbolic) and the ring memory is then decoded by an INDEPENDENT decoder: all offsets below are the
//! Aeron control protocol layout (aeron_command.h, packed(4)) and the ring-buffer record/trailer layout
//! (RecordDescriptor / RingBufferDescriptor), written as literal numbers — no flyweight, no record_descriptor helper.
//!
//! Decided per request: exactly one record (tail advanced by align8(8 + body)), type code, record length, client id,
//! correlation id (== counter value before the call, counter advanced), every field and every string/key/token byte,
//! and every other byte of the ring memory unchanged. A request that cannot be encoded (longer than the proxy's
//! 512-byte command buffer, or than the ring's maximum message) must come back as Err with the ring untouched; one
//! that can must be accepted. The harnesses are NOT loud: a panic inside the request is a violation.
//!
//! Finding (solver, then native replay /verif/native/tests/c13.rs): before the repair every non-encodable request
//! (channel 489 B for publications, 481 B for subscriptions, 485 B for destinations, token 493 B, counter key 112 B +
//! label 373..380 B - both within the counters' legal maxima) hit AtomicBuffer::bounds_check's assert! inside the
//! flyweight setters instead of returning Err. Repair in src/driver_proxy.rs: check_command_length() before encoding.
//!
//! Cost model that shaped this file (measured): string LENGTHS are concrete per instance (a symbolic length next to
//! fs= did not finish); the ring memory is a repr(C) struct, not one byte array (see RingMem); comparisons are wide
//! loads through raw pointers with concrete loop bounds; `Result<_, AeronError>` values are moved as little as
//! possible (each move is 1-3 s of symex time).
use crate::concurrent::atomic_buffer::AtomicBuffer;
use crate::concurrent::ring_buffer::ManyToOneRingBuffer;
use crate::driver_proxy::DriverProxy;
use crate::utils::types::Index;
use std::ffi::CString;
use std::sync::Arc;

// ---- protocol tables (independent of the crate) ----------------------------------------------------------------
const ADD_PUBLICATION: i32 = 0x01;
const REMOVE_PUBLICATION: i32 = 0x02;
const ADD_EXCLUSIVE_PUBLICATION: i32 = 0x03;
const ADD_SUBSCRIPTION: i32 = 0x04;
const REMOVE_SUBSCRIPTION: i32 = 0x05;
const CLIENT_KEEPALIVE: i32 = 0x06;
const ADD_DESTINATION: i32 = 0x07;
const REMOVE_DESTINATION: i32 = 0x08;
const ADD_COUNTER: i32 = 0x09;
const REMOVE_COUNTER: i32 = 0x0A;
const CLIENT_CLOSE: i32 = 0x0B;
const ADD_RCV_DESTINATION: i32 = 0x0C;
const REMOVE_RCV_DESTINATION: i32 = 0x0D;
const TERMINATE_DRIVER: i32 = 0x0E;

/// ring trailer (after the data area): tail @+128, head cache @+256, head @+384, correlation counter @+512, consumer
/// heartbeat @+640; trailer length 768 (RingBufferDescriptor) - laid out in `RingMem` below.
const TRAILER: usize = 768;

/// record: i32 length @0, i32 type @4, body @8; records are 8-byte aligned.
const REC_HDR: usize = 8;
/// body offsets of the command structs
const PUB_FIXED: usize = 24; // client i64 @0, correlation i64 @8, stream i32 @16, channel length i32 @20, channel @24
const SUB_FIXED: usize = 32; // client, correlation, registration correlation i64 @16, stream i32 @24, channel length @28, channel @32
const DEST_FIXED: usize = 28; // client, correlation, registration i64 @16, channel length i32 @24, channel @28
const REMOVE_LEN: usize = 24; // client, correlation, registration i64 @16
const CORRELATED_LEN: usize = 16; // client i64 @0, correlation i64 @8
const COUNTER_FIXED: usize = 24; // client, correlation, type i32 @16, key length i32 @20, key @24, label length @24+align4(key)
const TERM_FIXED: usize = 20; // client, correlation, token length i32 @16, token @20

/// The proxy encodes into a 512-byte command buffer: a request whose encoding is longer cannot be encoded.
const COMMAND_BUFFER: usize = 512;

/// Backing store of the to-driver ring: `R + REST` bytes of data area followed by the 768-byte trailer. It is one
/// contiguous repr(C) object handed to the ring as a flat byte buffer, but declared as a struct so that CBMC keeps the
/// trailer words and the part of the data area where the record lands (`rec`) as separate small SSA objects. (As a
/// single [u8; N] with fs=N+1 every store into it costs 0.3 s at 1792 bytes and 2.5 s at 4864 bytes of symex time.)
#[repr(C, align(16))]
struct RingMem<const R: usize, const REST: usize> {
    rec: [u8; R],
    rest: [u8; REST],
    pad0: [u8; 128],
    tail: i64, // capacity + 128
    pad1: [u8; 120],
    head_cache: i64, // capacity + 256
    pad2: [u8; 120],
    head: i64, // capacity + 384
    pad3: [u8; 120],
    corr: i64, // capacity + 512
    pad4: [u8; 120],
    heartbeat: i64, // capacity + 640
    pad5: [u8; 120],
}

/// short requests: capacity 1024 (max message 128), record area 64 bytes
const SR: usize = 64;
const SREST: usize = 1024 - SR;
/// long requests: capacity 4096 (max message 512 = the whole command buffer), record area 528 bytes
const BR: usize = 528;
const BREST: usize = 4096 - BR;

// Comparisons over memory: all loop conditions are concrete, no branch on data, and as few / as wide loads as possible
// (with fs= raised every non-literal index into an array makes CBMC rebuild the whole array).
/// one access: W little-endian u64 words at byte offset `at`
unsafe fn words<const W: usize>(p: *const u8, at: usize) -> [u64; W] {
    (p.add(at) as *const [u64; W]).read_unaligned()
}

/// every byte of [from, to) behind `p` equals `fill` (all loop conditions are concrete; no branch on data)
unsafe fn filled(p: *const u8, from: usize, to: usize, fill: u8) -> bool {
    let f8 = u64::from_le_bytes([fill; 8]);
    let mut ok = true;
    let mut i = from;
    while i + 128 <= to {
        let w = words::<16>(p, i);
        let mut k = 0;
        while k < 16 {
            ok &= w[k] == f8;
            k += 1;
        }
        i += 128;
    }
    while i + 32 <= to {
        let w = words::<4>(p, i);
        ok &= (w[0] == f8) & (w[1] == f8) & (w[2] == f8) & (w[3] == f8);
        i += 32;
    }
    while i + 8 <= to {
        ok &= words::<1>(p, i)[0] == f8;
        i += 8;
    }
    while i < to {
        ok &= *p.add(i) == fill;
        i += 1;
    }
    ok
}

/// bytes [at, at+len) behind `p` equal bytes [0, len) behind `q`
unsafe fn same(p: *const u8, at: usize, q: *const u8, len: usize) -> bool {
    let mut ok = true;
    let mut i = 0;
    while i + 128 <= len {
        let x = words::<16>(p, at + i);
        let y = words::<16>(q, i);
        let mut k = 0;
        while k < 16 {
            ok &= x[k] == y[k];
            k += 1;
        }
        i += 128;
    }
    while i + 32 <= len {
        let x = words::<4>(p, at + i);
        let y = words::<4>(q, i);
        ok &= (x[0] == y[0]) & (x[1] == y[1]) & (x[2] == y[2]) & (x[3] == y[3]);
        i += 32;
    }
    while i + 8 <= len {
        ok &= words::<1>(p, at + i)[0] == words::<1>(q, i)[0];
        i += 8;
    }
    while i < len {
        ok &= *p.add(at + i) == *q.add(i);
        i += 1;
    }
    ok
}

// field reads at literal offsets of the record area
macro_rules! r32 {
    ($a:expr, $at:expr) => {
        i32::from_le_bytes([$a[$at], $a[$at + 1], $a[$at + 2], $a[$at + 3]])
    };
}
macro_rules! r64 {
    ($a:expr, $at:expr) => {
        i64::from_le_bytes([$a[$at], $a[$at + 1], $a[$at + 2], $a[$at + 3], $a[$at + 4], $a[$at + 5], $a[$at + 6], $a[$at + 7]])
    };
}

fn align8(v: usize) -> usize {
    (v + 7) & !7
}

fn align4(v: usize) -> usize {
    (v + 3) & !3
}

/// `L` bytes of request data. Up to 8 bytes: all symbolic. Longer: constant filler with symbolic bytes at the first 8
/// positions, in the middle and at the end (concrete positions, symbolic values). `nonzero`: C-string content.
fn blob<const L: usize>(nonzero: bool) -> [u8; L] {
    let mut a = [0x61u8; L];
    let s: [u8; 10] = kani::any();
    let mut i = 0;
    while i < 10 {
        if nonzero {
            kani::assume(s[i] != 0);
        }
        if i < 8 && i < L {
            a[i] = s[i];
        }
        i += 1;
    }
    if L > 8 {
        a[L / 2] = s[8];
        a[L - 1] = s[9];
    }
    a
}

fn cstring(s: &[u8]) -> CString {
    unsafe { CString::from_vec_unchecked(s.to_vec()) }
}

/// Can a body of this length be encoded at all: it has to fit the proxy's command buffer and the ring's maximum
/// message length (capacity / 8).
fn encodable(cap: usize, body: usize) -> bool {
    body <= COMMAND_BUFFER && body <= cap / 8
}

/// Shared skeleton, one request against a ring of capacity R + REST.
/// Pre-state: every byte of the ring memory holds one symbolic fill value, except: the ring is empty at index 0
/// (tail = head = head cache = 0: layout concrete), the correlation counter and the heartbeat are any i64.
/// `call` issues the request and returns (accepted, id): the id the request returned, or for the requests that return
/// none the fixed id the protocol puts on the wire; `fresh` = the request draws a fresh correlation id; `fields` decodes the request-specific fixed fields from the start of the data area (record
/// header @0, body @8); `a` / `b` are the variable-length data expected at ring offset `a_at` / `b_at`, each preceded
/// by its i32 length (offset 0 = the request has no such field).
fn run<const R: usize, const REST: usize, const A: usize, const B: usize>(
    code: i32,
    body: usize,
    fresh: bool,
    call: impl FnOnce(&DriverProxy) -> (bool, i64),
    fields: impl FnOnce(&[u8; R]) -> bool,
    a: [u8; A],
    a_at: usize,
    b: [u8; B],
    b_at: usize,
) {
    let cap = R + REST;
    let fill: u8 = kani::any();
    let c0: i64 = kani::any();
    let hb: i64 = kani::any();
    let mut m = RingMem::<R, REST> {
        rec: [fill; R],
        rest: [fill; REST],
        pad0: [fill; 128],
        tail: 0,
        pad1: [fill; 120],
        head_cache: 0,
        pad2: [fill; 120],
        head: 0,
        pad3: [fill; 120],
        corr: c0,
        pad4: [fill; 120],
        heartbeat: hb,
        pad5: [fill; 120],
    };
    assert!(std::mem::size_of::<RingMem<R, REST>>() == cap + TRAILER, "C13: harness ring memory is capacity + trailer, no padding");
    let buffer = AtomicBuffer::new(&mut m as *mut RingMem<R, REST> as *mut u8, (cap + TRAILER) as Index);
    let ring = match ManyToOneRingBuffer::new(buffer) {
        Ok(r) => r,
        Err(_) => {
            assert!(false, "C13: harness ring has a power-of-two capacity");
            loop {}
        }
    };
    let proxy = DriverProxy::new(Arc::new(ring));
    // the client id is the correlation id drawn at construction
    assert!(proxy.client_id() == c0, "C13: client id is the correlation counter value taken at construction");
    let next = c0.wrapping_add(1);
    let fits = encodable(cap, body);
    let rec = REC_HDR + body;
    let used: i64 = if fresh { 1 } else { 0 };
    let (accepted, corr) = call(&proxy);
    let written;
    if accepted {
        written = rec;
        assert!(fits, "C13: a request that cannot be encoded was accepted");
        assert!(rec <= R, "C13: harness record area holds the record");
        assert!(!fresh | (corr == next), "C13: returned correlation id is the correlation counter value before the call");
        assert!(m.tail == align8(rec) as i64, "C13: exactly one record was added (tail advanced by the aligned record length)");
        assert!(m.corr == next.wrapping_add(used), "C13: correlation counter advanced once per fresh id");
        assert!(r32!(m.rec, 0) == rec as i32, "C13: record length is header + fixed part + strings");
        assert!(r32!(m.rec, 4) == code, "C13: record type code is the control protocol constant of the request");
        assert!(r64!(m.rec, 8) == c0, "C13: client id on the wire is the proxy's client id");
        assert!(r64!(m.rec, 16) == corr, "C13: correlation id on the wire");
        assert!(fields(&m.rec), "C13: decoded fixed fields equal the caller's arguments");
        let p = m.rec.as_ptr();
        unsafe {
            if a_at != 0 {
                assert!((p.add(a_at - 4) as *const i32).read_unaligned() == A as i32, "C13: length of the first variable field on the wire");
                assert!(same(p, a_at, a.as_ptr(), A), "C13: bytes of the first variable field (channel / key / token) on the wire");
            }
            if b_at != 0 {
                assert!((p.add(b_at - 4) as *const i32).read_unaligned() == B as i32, "C13: length of the second variable field on the wire");
                assert!(same(p, b_at, b.as_ptr(), B), "C13: bytes of the second variable field (label) on the wire");
            }
        }
    } else {
        written = 0;
        assert!(!fits, "C13: a request that fits the command buffer and the ring was rejected");
        assert!(m.tail == 0, "C13: a rejected request leaves the tail where it was");
    }
    assert!((m.head == 0) & (m.head_cache == 0) & (m.heartbeat == hb), "C13: a request does not move the consumer's words");
    let untouched = unsafe {
        filled(m.rec.as_ptr(), written, R, fill)
            & filled(m.rest.as_ptr(), 0, REST, fill)
            & filled(m.pad0.as_ptr(), 0, 128, fill)
            & filled(m.pad1.as_ptr(), 0, 120, fill)
            & filled(m.pad2.as_ptr(), 0, 120, fill)
            & filled(m.pad3.as_ptr(), 0, 120, fill)
            & filled(m.pad4.as_ptr(), 0, 120, fill)
            & filled(m.pad5.as_ptr(), 0, 120, fill)
    };
    assert!(untouched, "C13: nothing outside the record, the tail and the correlation counter changed (a rejected request writes nothing)");
    kani::cover!(accepted == fits, "[must] outcome reached: accepted iff encodable");
    std::mem::forget(proxy);
}

/// Issue the request and reduce the result to (accepted, id) with as few moves of `Result<_, AeronError>` as possible
/// (each costs seconds of symex time); the error is leaked, never dropped.
macro_rules! outcome {
    ($call:expr, $ok:pat => $id:expr) => {
        match $call {
            Ok($ok) => (true, $id),
            Err(e) => {
                std::mem::forget(e);
                (false, 0)
            }
        }
    };
}

// ---- (channel, stream id): add_publication 0x01 / add_exclusive_publication 0x03 ---------------------------------
fn publication<const R: usize, const REST: usize, const L: usize>(exclusive: bool) {
    let ch = blob::<L>(true);
    let stream: i32 = kani::any();
    run::<R, REST, L, 0>(
        if exclusive { ADD_EXCLUSIVE_PUBLICATION } else { ADD_PUBLICATION },
        PUB_FIXED + L,
        true,
        |p| {
            if exclusive {
                outcome!(p.add_exclusive_publication(cstring(&ch), stream), id => id)
            } else {
                outcome!(p.add_publication(cstring(&ch), stream), id => id)
            }
        },
        |h| r32!(h, 8 + 16) == stream,
        ch,
        8 + 24,
        [],
        0,
    );
}

// ---- add_subscription 0x04: registration correlation id is -1 (none) ---------------------------------------------
fn subscription<const R: usize, const REST: usize, const L: usize>() {
    let ch = blob::<L>(true);
    let stream: i32 = kani::any();
    run::<R, REST, L, 0>(
        ADD_SUBSCRIPTION,
        SUB_FIXED + L,
        true,
        |p| outcome!(p.add_subscription(cstring(&ch), stream), id => id),
        |h| (r64!(h, 8 + 16) == -1) & (r32!(h, 8 + 24) == stream),
        ch,
        8 + 32,
        [],
        0,
    );
}

// ---- (registration id, channel): add/remove destination 0x07/0x08, add/remove rcv destination 0x0C/0x0D ----------
fn destination<const R: usize, const REST: usize, const L: usize>(which: u8) {
    let ch = blob::<L>(true);
    let reg: i64 = kani::any();
    let code = match which {
        0 => ADD_DESTINATION,
        1 => REMOVE_DESTINATION,
        2 => ADD_RCV_DESTINATION,
        _ => REMOVE_RCV_DESTINATION,
    };
    run::<R, REST, L, 0>(
        code,
        DEST_FIXED + L,
        true,
        |p| {
            let c = cstring(&ch);
            match which {
                0 => outcome!(p.add_destination(reg, c), id => id),
                1 => outcome!(p.remove_destination(reg, c), id => id),
                2 => outcome!(p.add_rcv_destination(reg, c), id => id),
                _ => outcome!(p.remove_rcv_destination(reg, c), id => id),
            }
        },
        |h| r64!(h, 8 + 16) == reg,
        ch,
        8 + 28,
        [],
        0,
    );
}

// ---- (registration id): remove_publication 0x02 / remove_subscription 0x05 / remove_counter 0x0A ------------------
fn remove(which: u8) {
    let reg: i64 = kani::any();
    let code = match which {
        0 => REMOVE_PUBLICATION,
        1 => REMOVE_SUBSCRIPTION,
        _ => REMOVE_COUNTER,
    };
    run::<SR, SREST, 0, 0>(
        code,
        REMOVE_LEN,
        true,
        |p| match which {
            0 => outcome!(p.remove_publication(reg), id => id),
            1 => outcome!(p.remove_subscription(reg), id => id),
            _ => outcome!(p.remove_counter(reg), id => id),
        },
        |h| r64!(h, 8 + 16) == reg,
        [],
        0,
        [],
        0,
    );
}

// ---- add_counter 0x09: type id, key (any bytes), label; the label length sits 4-byte aligned after the key --------
fn counter<const R: usize, const REST: usize, const K: usize, const L: usize>() {
    let key = blob::<K>(false);
    let label = blob::<L>(true);
    let type_id: i32 = kani::any();
    run::<R, REST, K, L>(
        ADD_COUNTER,
        COUNTER_FIXED + align4(K) + 4 + L,
        true,
        |p| outcome!(p.add_counter(type_id, &key, cstring(&label)), id => id),
        |h| r32!(h, 8 + 16) == type_id,
        key,
        8 + 24,
        label,
        8 + 24 + align4(K) + 4,
    );
}

// ---- terminate_driver 0x0E: correlation id -1, token ----------------------------------------------------------
fn terminate<const R: usize, const REST: usize, const L: usize>() {
    let token = blob::<L>(false);
    run::<R, REST, L, 0>(
        TERMINATE_DRIVER,
        TERM_FIXED + L,
        false,
        |p| outcome!(p.terminate_driver(&token), () => -1),
        |_| true,
        token,
        8 + 20,
        [],
        0,
    );
}

// ---- client keepalive 0x06 (correlation id 0, no fresh id) / client close 0x0B -----------------------------------
fn keepalive() {
    run::<SR, SREST, 0, 0>(
        CLIENT_KEEPALIVE,
        CORRELATED_LEN,
        false,
        |p| outcome!(p.send_client_keepalive(), () => 0),
        |_| true,
        [],
        0,
        [],
        0,
    );
}

fn client_close() {
    run::<SR, SREST, 0, 0>(CLIENT_CLOSE, CORRELATED_LEN, true, |p| outcome!(p.client_close(), id => id), |_| true, [], 0, [], 0);
}

macro_rules! proof {
    ($name:ident, $body:block) => {
        #[kani::proof]
        fn $name() $body
    };
}

// =====================================================================================================================
// Short requests: every request method, ids fully symbolic, all string/key/token bytes symbolic, lengths 0,1,3,4,5,8
// (every residue of the 4-byte field alignment and of the 8-byte record alignment). Several instances run one after
// the other in a harness, each on its own fresh ring. Ring capacity 1024. Quick tier: all six lengths for one method
// per message layout, lengths 4,5,8 for its siblings (same layout, other type code); thorough tier: the rest.
// =====================================================================================================================
// @verif tier=quick unwind=40 fs=513
proof!(c13_add_publication_len_0_1_3, {
    publication::<SR, SREST, 0>(false);
    publication::<SR, SREST, 1>(false);
    publication::<SR, SREST, 3>(false);
});
// @verif tier=quick unwind=40 fs=513
proof!(c13_add_publication_len_4_5_8, {
    publication::<SR, SREST, 4>(false);
    publication::<SR, SREST, 5>(false);
    publication::<SR, SREST, 8>(false);
});
// @verif tier=thorough unwind=40 fs=513
proof!(c13_add_exclusive_publication_len_0_1_3, {
    publication::<SR, SREST, 0>(true);
    publication::<SR, SREST, 1>(true);
    publication::<SR, SREST, 3>(true);
});
// @verif tier=quick unwind=40 fs=513
proof!(c13_add_exclusive_publication_len_4_5_8, {
    publication::<SR, SREST, 4>(true);
    publication::<SR, SREST, 5>(true);
    publication::<SR, SREST, 8>(true);
});
// @verif tier=quick unwind=40 fs=513
proof!(c13_add_subscription_len_0_1_3, {
    subscription::<SR, SREST, 0>();
    subscription::<SR, SREST, 1>();
    subscription::<SR, SREST, 3>();
});
// @verif tier=quick unwind=40 fs=513
proof!(c13_add_subscription_len_4_5_8, {
    subscription::<SR, SREST, 4>();
    subscription::<SR, SREST, 5>();
    subscription::<SR, SREST, 8>();
});
// @verif tier=quick unwind=40 fs=513
proof!(c13_add_destination_len_0_1_3, {
    destination::<SR, SREST, 0>(0);
    destination::<SR, SREST, 1>(0);
    destination::<SR, SREST, 3>(0);
});
// @verif tier=quick unwind=40 fs=513
proof!(c13_add_destination_len_4_5_8, {
    destination::<SR, SREST, 4>(0);
    destination::<SR, SREST, 5>(0);
    destination::<SR, SREST, 8>(0);
});
// @verif tier=thorough unwind=40 fs=513
proof!(c13_remove_destination_len_0_1_3, {
    destination::<SR, SREST, 0>(1);
    destination::<SR, SREST, 1>(1);
    destination::<SR, SREST, 3>(1);
});
// @verif tier=quick unwind=40 fs=513
proof!(c13_remove_destination_len_4_5_8, {
    destination::<SR, SREST, 4>(1);
    destination::<SR, SREST, 5>(1);
    destination::<SR, SREST, 8>(1);
});
// @verif tier=thorough unwind=40 fs=513
proof!(c13_add_rcv_destination_len_0_1_3, {
    destination::<SR, SREST, 0>(2);
    destination::<SR, SREST, 1>(2);
    destination::<SR, SREST, 3>(2);
});
// @verif tier=quick unwind=40 fs=513
proof!(c13_add_rcv_destination_len_4_5_8, {
    destination::<SR, SREST, 4>(2);
    destination::<SR, SREST, 5>(2);
    destination::<SR, SREST, 8>(2);
});
// @verif tier=thorough unwind=40 fs=513
proof!(c13_remove_rcv_destination_len_0_1_3, {
    destination::<SR, SREST, 0>(3);
    destination::<SR, SREST, 1>(3);
    destination::<SR, SREST, 3>(3);
});
// @verif tier=quick unwind=40 fs=513
proof!(c13_remove_rcv_destination_len_4_5_8, {
    destination::<SR, SREST, 4>(3);
    destination::<SR, SREST, 5>(3);
    destination::<SR, SREST, 8>(3);
});
// @verif tier=quick unwind=40 fs=513
proof!(c13_remove_publication_subscription_counter, {
    remove(0);
    remove(1);
    remove(2);
});
// @verif tier=quick unwind=40 fs=513
proof!(c13_client_keepalive_and_close, {
    keepalive();
    client_close();
});
// @verif tier=quick unwind=40 fs=513
proof!(c13_terminate_driver_len_0_1_3, {
    terminate::<SR, SREST, 0>();
    terminate::<SR, SREST, 1>();
    terminate::<SR, SREST, 3>();
});
// @verif tier=quick unwind=40 fs=513
proof!(c13_terminate_driver_len_4_5_8, {
    terminate::<SR, SREST, 4>();
    terminate::<SR, SREST, 5>();
    terminate::<SR, SREST, 8>();
});
// add_counter: key length x label length; the quick tier takes a diagonal through the grid, the thorough tier the rest
// @verif tier=quick unwind=40 fs=513
proof!(c13_add_counter_k0l0_k1l3_k3l1, {
    counter::<SR, SREST, 0, 0>();
    counter::<SR, SREST, 1, 3>();
    counter::<SR, SREST, 3, 1>();
});
// @verif tier=quick unwind=40 fs=513
proof!(c13_add_counter_k4l4_k5l8_k8l5, {
    counter::<SR, SREST, 4, 4>();
    counter::<SR, SREST, 5, 8>();
    counter::<SR, SREST, 8, 5>();
});
// @verif tier=quick unwind=40 fs=513
proof!(c13_add_counter_k0l8_k8l0_k1l1, {
    counter::<SR, SREST, 0, 8>();
    counter::<SR, SREST, 8, 0>();
    counter::<SR, SREST, 1, 1>();
});
// @verif tier=thorough unwind=40 fs=513
proof!(c13_add_counter_grid_key0, {
    counter::<SR, SREST, 0, 1>();
    counter::<SR, SREST, 0, 3>();
    counter::<SR, SREST, 0, 4>();
    counter::<SR, SREST, 0, 5>();
});
// @verif tier=thorough unwind=40 fs=513
proof!(c13_add_counter_grid_key1, {
    counter::<SR, SREST, 1, 0>();
    counter::<SR, SREST, 1, 4>();
    counter::<SR, SREST, 1, 5>();
    counter::<SR, SREST, 1, 8>();
});
// @verif tier=thorough unwind=40 fs=513
proof!(c13_add_counter_grid_key3, {
    counter::<SR, SREST, 3, 0>();
    counter::<SR, SREST, 3, 3>();
    counter::<SR, SREST, 3, 4>();
    counter::<SR, SREST, 3, 5>();
    counter::<SR, SREST, 3, 8>();
});
// @verif tier=thorough unwind=40 fs=513
proof!(c13_add_counter_grid_key4, {
    counter::<SR, SREST, 4, 0>();
    counter::<SR, SREST, 4, 1>();
    counter::<SR, SREST, 4, 3>();
    counter::<SR, SREST, 4, 5>();
    counter::<SR, SREST, 4, 8>();
});
// @verif tier=thorough unwind=40 fs=513
proof!(c13_add_counter_grid_key5, {
    counter::<SR, SREST, 5, 0>();
    counter::<SR, SREST, 5, 1>();
    counter::<SR, SREST, 5, 3>();
    counter::<SR, SREST, 5, 4>();
    counter::<SR, SREST, 5, 5>();
});
// @verif tier=thorough unwind=40 fs=513
proof!(c13_add_counter_grid_key8, {
    counter::<SR, SREST, 8, 1>();
    counter::<SR, SREST, 8, 3>();
    counter::<SR, SREST, 8, 4>();
    counter::<SR, SREST, 8, 8>();
});

// =====================================================================================================================
// The ring's own limit: capacity 1024 => messages longer than 128 bytes are refused by the ring; the proxy must turn
// that into Err and nothing may be written. Record area 144 bytes so that the longest accepted message fits in it.
// =====================================================================================================================
// @verif tier=quick unwind=40 fs=513
proof!(c13_ring_limit_longest_message_accepted, {
    publication::<144, 880, 104>(false); // body 24 + 104 = 128
});
// @verif tier=quick unwind=40 fs=513
proof!(c13_ring_limit_message_too_long_rejected, {
    publication::<144, 880, 105>(false);
});
// @verif tier=thorough unwind=40 fs=513
proof!(c13_ring_limit_channel_255_rejected, {
    subscription::<144, 880, 255>();
});

// =====================================================================================================================
// Long requests against a ring that takes 512-byte messages (capacity 4096): the only limit is the proxy's 512-byte
// command buffer. Concrete lengths around each request's boundary; data = constant filler with 10 symbolic bytes.
// One request per harness. Expected by the property: fits => accepted and exact; does not fit => Err, ring untouched.
// Quick tier: the longest encodable and the shortest non-encodable length of every request (+ 255 / 480); thorough
// tier: the lengths further out. (A rejected request costs 25-30 s: every move of a Result<_, AeronError> through `?`
// is seconds of symex time.)
// =====================================================================================================================
// @verif tier=quick unwind=40 fs=529
proof!(c13_long_add_publication_len255, {
    publication::<BR, BREST, 255>(false);
});
// @verif tier=quick unwind=40 fs=529
proof!(c13_long_add_publication_len480, {
    publication::<BR, BREST, 480>(false);
});
// @verif tier=quick unwind=40 fs=529
proof!(c13_long_add_publication_len488, {
    publication::<BR, BREST, 488>(false);
});
// @verif tier=quick unwind=40 fs=529
proof!(c13_long_add_publication_len489, {
    publication::<BR, BREST, 489>(false);
});
// @verif tier=thorough unwind=40 fs=529
proof!(c13_long_add_publication_len600, {
    publication::<BR, BREST, 600>(false);
});
// @verif tier=quick unwind=40 fs=529
proof!(c13_long_add_exclusive_publication_len488, {
    publication::<BR, BREST, 488>(true);
});
// @verif tier=quick unwind=40 fs=529
proof!(c13_long_add_exclusive_publication_len489, {
    publication::<BR, BREST, 489>(true);
});
// @verif tier=thorough unwind=40 fs=529
proof!(c13_long_add_exclusive_publication_len255, {
    publication::<BR, BREST, 255>(true);
});
// @verif tier=thorough unwind=40 fs=529
proof!(c13_long_add_exclusive_publication_len480, {
    publication::<BR, BREST, 480>(true);
});
// @verif tier=thorough unwind=40 fs=529
proof!(c13_long_add_exclusive_publication_len600, {
    publication::<BR, BREST, 600>(true);
});
// @verif tier=quick unwind=40 fs=529
proof!(c13_long_add_subscription_len255, {
    subscription::<BR, BREST, 255>();
});
// @verif tier=quick unwind=40 fs=529
proof!(c13_long_add_subscription_len480, {
    subscription::<BR, BREST, 480>();
});
// @verif tier=quick unwind=40 fs=529
proof!(c13_long_add_subscription_len481, {
    subscription::<BR, BREST, 481>();
});
// @verif tier=thorough unwind=40 fs=529
proof!(c13_long_add_subscription_len489, {
    subscription::<BR, BREST, 489>();
});
// @verif tier=thorough unwind=40 fs=529
proof!(c13_long_add_subscription_len600, {
    subscription::<BR, BREST, 600>();
});
// @verif tier=quick unwind=40 fs=529
proof!(c13_long_add_destination_len255, {
    destination::<BR, BREST, 255>(0);
});
// @verif tier=quick unwind=40 fs=529
proof!(c13_long_add_destination_len480, {
    destination::<BR, BREST, 480>(0);
});
// @verif tier=quick unwind=40 fs=529
proof!(c13_long_add_destination_len484, {
    destination::<BR, BREST, 484>(0);
});
// @verif tier=quick unwind=40 fs=529
proof!(c13_long_add_destination_len485, {
    destination::<BR, BREST, 485>(0);
});
// @verif tier=thorough unwind=40 fs=529
proof!(c13_long_add_destination_len489, {
    destination::<BR, BREST, 489>(0);
});
// @verif tier=thorough unwind=40 fs=529
proof!(c13_long_add_destination_len600, {
    destination::<BR, BREST, 600>(0);
});
// @verif tier=quick unwind=40 fs=529
proof!(c13_long_remove_destination_len484, {
    destination::<BR, BREST, 484>(1);
});
// @verif tier=quick unwind=40 fs=529
proof!(c13_long_remove_destination_len485, {
    destination::<BR, BREST, 485>(1);
});
// @verif tier=thorough unwind=40 fs=529
proof!(c13_long_remove_destination_len255, {
    destination::<BR, BREST, 255>(1);
});
// @verif tier=thorough unwind=40 fs=529
proof!(c13_long_remove_destination_len600, {
    destination::<BR, BREST, 600>(1);
});
// @verif tier=quick unwind=40 fs=529
proof!(c13_long_add_rcv_destination_len484, {
    destination::<BR, BREST, 484>(2);
});
// @verif tier=quick unwind=40 fs=529
proof!(c13_long_add_rcv_destination_len485, {
    destination::<BR, BREST, 485>(2);
});
// @verif tier=thorough unwind=40 fs=529
proof!(c13_long_add_rcv_destination_len255, {
    destination::<BR, BREST, 255>(2);
});
// @verif tier=thorough unwind=40 fs=529
proof!(c13_long_add_rcv_destination_len600, {
    destination::<BR, BREST, 600>(2);
});
// @verif tier=quick unwind=40 fs=529
proof!(c13_long_remove_rcv_destination_len484, {
    destination::<BR, BREST, 484>(3);
});
// @verif tier=quick unwind=40 fs=529
proof!(c13_long_remove_rcv_destination_len485, {
    destination::<BR, BREST, 485>(3);
});
// @verif tier=thorough unwind=40 fs=529
proof!(c13_long_remove_rcv_destination_len255, {
    destination::<BR, BREST, 255>(3);
});
// @verif tier=thorough unwind=40 fs=529
proof!(c13_long_remove_rcv_destination_len600, {
    destination::<BR, BREST, 600>(3);
});
// add_counter: 24 + align4(key) + 4 + label <= 512. Key 112 and label 380 are the maxima the counters file can store.
// @verif tier=quick unwind=40 fs=529
proof!(c13_long_add_counter_key112_label372, {
    counter::<BR, BREST, 112, 372>();
});
// @verif tier=thorough unwind=40 fs=529
proof!(c13_long_add_counter_key112_label373, {
    counter::<BR, BREST, 112, 373>();
});
// @verif tier=quick unwind=40 fs=529
proof!(c13_long_add_counter_key112_label380, {
    counter::<BR, BREST, 112, 380>();
});
// @verif tier=quick unwind=40 fs=529
proof!(c13_long_add_counter_key0_label381, {
    counter::<BR, BREST, 0, 381>();
});
// @verif tier=quick unwind=40 fs=529
proof!(c13_long_add_counter_key0_label484, {
    counter::<BR, BREST, 0, 484>();
});
// @verif tier=quick unwind=40 fs=529
proof!(c13_long_add_counter_key0_label485, {
    counter::<BR, BREST, 0, 485>();
});
// @verif tier=quick unwind=40 fs=529
proof!(c13_long_add_counter_key484_label0, {
    counter::<BR, BREST, 484, 0>();
});
// @verif tier=quick unwind=40 fs=529
proof!(c13_long_add_counter_key485_label0, {
    counter::<BR, BREST, 485, 0>();
});
// @verif tier=thorough unwind=40 fs=529
proof!(c13_long_add_counter_key111_label372, {
    counter::<BR, BREST, 111, 372>();
});
// @verif tier=thorough unwind=40 fs=529
proof!(c13_long_add_counter_key109_label373, {
    counter::<BR, BREST, 109, 373>();
});
// @verif tier=thorough unwind=40 fs=529
proof!(c13_long_add_counter_key1_label380, {
    counter::<BR, BREST, 1, 380>();
});
// @verif tier=quick unwind=40 fs=529
proof!(c13_long_terminate_driver_token255, {
    terminate::<BR, BREST, 255>();
});
// @verif tier=quick unwind=40 fs=529
proof!(c13_long_terminate_driver_token492, {
    terminate::<BR, BREST, 492>();
});
// @verif tier=quick unwind=40 fs=529
proof!(c13_long_terminate_driver_token493, {
    terminate::<BR, BREST, 493>();
});
// @verif tier=thorough unwind=40 fs=529
proof!(c13_long_terminate_driver_token600, {
    terminate::<BR, BREST, 600>();
});

// =====================================================================================================================
// Vacuity witness: a decoder that looks for the stream id at the wrong offset must be refuted.
// =====================================================================================================================
// @verif tier=quick unwind=40 fs=513 twin=1
proof!(c13_twin_stream_id_at_wrong_offset, {
    let ch = blob::<5>(true);
    let stream: i32 = kani::any();
    run::<SR, SREST, 5, 0>(
        ADD_PUBLICATION,
        PUB_FIXED + 5,
        true,
        |p| outcome!(p.add_publication(cstring(&ch), stream), id => id),
        |h| {
            assert!(r32!(h, 8 + 20) == stream, "C13: TWIN stream id read from the channel-length slot");
            true
        },
        ch,
        8 + 24,
        [],
        0,
    );
});
