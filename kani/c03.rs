//! C03 harnesses.
