//! C03 — a subscriber never observes an uncommitted, torn or half-written frame.
//! Producer side (this file): the memory left behind by an append that is stopped forever after its k-th shared-memory
//! access (k symbolic) satisfies `commit_complete`; the ordering-class discipline on the frame length word (trace
//! monitor); `term_reader::read` against a term whose tail is arbitrary garbage behind a non-positive length word; one
//! interference instance (a complete append of publisher B injected at a symbolic access of publisher A).
//! The `Image` poll family with a havocked tail lives in c05.rs (`c05_havoc_*`).
//! Regime R2: 256-byte term, separate small meta buffer, every frame offset and length concrete per instance; term id,
//! session/stream ids, payload bytes, prior term contents below the tail, crash point and fragment limit symbolic.
//! Oracle: the Aeron frame layout as literal offsets (c01.rs `frame_ok`) and the closed-form frame placement.
use super::c01::{rd_i32, rd_i64, rd_u16, reserved_for, supplier, Log, PAYLOAD, T};
use super::hook;
use super::util::*;
use crate::concurrent::atomic_buffer::AtomicBuffer;
use crate::concurrent::logbuffer::buffer_claim::BufferClaim;
use crate::concurrent::logbuffer::exclusive_term_appender::ExclusiveTermAppender;
use crate::concurrent::logbuffer::header::{Header, HeaderWriter};
use crate::concurrent::logbuffer::term_appender::TermAppender;
use crate::concurrent::logbuffer::term_reader;

const DATA: u16 = 1;
const PAD: u16 = 0;
const BEGIN: u8 = 0x80;
const END: u8 = 0x40;

/// A log as the driver hands it over: arbitrary earlier frames below the tail, ZERO from the tail on (so that
/// "0, negative, or positive-and-complete" is a meaningful statement about the claimed range).
fn log_zero_beyond(tail: i32) -> Log {
    log_zero_beyond_in_term(tail, kani::any())
}

fn log_zero_beyond_in_term(tail: i32, term_id: i32) -> Log {
    let below: [u8; T] = kani::any();
    let mut content = [0u8; T];
    let t = tail as usize;
    content[..t].copy_from_slice(&below[..t]);
    let (session, stream): (i32, i32) = (kani::any(), kani::any());
    let mut l = Log { term: Mem(content), before: content, meta: Mem::zeroed(), hdr: Mem::zeroed(), term_id, session, stream };
    l.hdr.buf().put::<i32>(12, session);
    l.hdr.buf().put::<i32>(16, stream);
    l.meta.buf().put::<i64>(0, pack_tail(term_id, tail));
    l
}

#[derive(Copy, Clone, PartialEq)]
enum Op {
    Unfrag,
    Frag,
    ClaimCommit,
    ClaimAbort,
}

/// One frame slot of the final stream: where it sits and what it must contain once its length word is positive.
#[derive(Copy, Clone)]
struct Slot {
    off: usize,
    flen: i32,
    ty: u16,
    flags: u8,
    reserved: i64,
    src_at: usize,
    plen: usize,
}

const NO_SLOT: Slot = Slot { off: 0, flen: 0, ty: 0, flags: 0, reserved: 0, src_at: 0, plen: 0 };

struct Plan {
    slots: [Slot; 3],
    ns: usize,
    /// range the operation may write: [lo, hi)
    lo: usize,
    hi: usize,
    /// amount the raw tail advances
    required: i32,
    padding: bool,
}

/// Closed-form placement of the frames of one operation (protocol, not the implementation's helpers).
fn plan(op: Op, tail: i32, len: i32) -> Plan {
    let mut slots = [NO_SLOT; 3];
    let required: i32 = match op {
        Op::Frag => {
            let full = len / PAYLOAD;
            let rem = len % PAYLOAD;
            full * (PAYLOAD + 32) + if rem > 0 { align32(32 + rem as i64) as i32 } else { 0 }
        }
        _ => align32(32 + len as i64) as i32,
    };
    let t = tail as usize;
    if tail + required > T as i32 {
        // the message does not fit: exactly one padding frame fills the remainder; only its header is written
        slots[0] = Slot { off: t, flen: T as i32 - tail, ty: PAD, flags: BEGIN | END, reserved: 0, src_at: 0, plen: 0 };
        return Plan { slots, ns: 1, lo: t, hi: t + 32, required, padding: true };
    }
    let mut ns = 1;
    match op {
        Op::Unfrag => {
            slots[0] = Slot { off: t, flen: 32 + len, ty: DATA, flags: BEGIN | END, reserved: reserved_for(tail, 32 + len), src_at: 0, plen: len as usize };
        }
        Op::ClaimCommit => {
            slots[0] = Slot { off: t, flen: 32 + len, ty: DATA, flags: BEGIN | END, reserved: 0, src_at: 0, plen: len as usize };
        }
        Op::ClaimAbort => {
            slots[0] = Slot { off: t, flen: 32 + len, ty: PAD, flags: BEGIN | END, reserved: 0, src_at: 0, plen: 0 };
        }
        Op::Frag => {
            ns = ((len + PAYLOAD - 1) / PAYLOAD) as usize;
            let mut i = 0;
            while i < ns {
                let done = PAYLOAD * i as i32;
                let plen = if len - done < PAYLOAD { len - done } else { PAYLOAD };
                let off = tail + (PAYLOAD + 32) * i as i32;
                let flags = (if i == 0 { BEGIN } else { 0 }) | (if i == ns - 1 { END } else { 0 });
                slots[i] = Slot { off: off as usize, flen: 32 + plen, ty: DATA, flags, reserved: reserved_for(off, 32 + plen), src_at: done as usize, plen: plen as usize };
                i += 1;
            }
        }
    }
    Plan { slots, ns, lo: t, hi: t + required as usize, required, padding: false }
}

/// Run one complete publisher operation (as Publication / ExclusivePublication drive the appenders) under the hook:
/// stopped forever at access `crash_at`, `env` injected before access `env_at`, trace recorded if `trace`.
/// Returns the number of top-level shared-memory accesses of the operation.
#[allow(clippy::too_many_arguments)]
fn run_op(l: &mut Log, excl: bool, op: Op, tail: i32, src: &mut [u8; 96], len: i32, crash_at: u32, env_at: u32, env: Option<fn()>, trace: bool) -> u32 {
    let hw = HeaderWriter::new(l.hdr.buf());
    let srcbuf = AtomicBuffer::new(src.as_mut_ptr(), 96);
    let mut claim = BufferClaim::default();
    let mut claimed = false;
    hook::begin(crash_at, env_at, env, trace);
    if excl {
        let mut a = ExclusiveTermAppender::new(l.term.buf(), l.meta.buf(), 0);
        match op {
            Op::Unfrag => {
                a.append_unfragmented_message(l.term_id, tail, &hw, srcbuf, 0, len, supplier);
            }
            Op::Frag => {
                a.append_fragmented_message(l.term_id, tail, &hw, srcbuf, 0, len, PAYLOAD, supplier);
            }
            _ => {
                claimed = a.claim(l.term_id, tail, &hw, len, &mut claim) > 0;
            }
        }
    } else {
        let a = TermAppender::new(l.term.buf(), l.meta.buf(), 0);
        match op {
            Op::Unfrag => {
                vok!(a.append_unfragmented_message(&hw, &srcbuf, 0, len, supplier, l.term_id), "C03: append with the matching term id returns a result");
            }
            Op::Frag => {
                vok!(a.append_fragmented_message(&hw, &srcbuf, 0, len, PAYLOAD, supplier, l.term_id), "C03: append with the matching term id returns a result");
            }
            _ => {
                claimed = vok!(a.claim(&hw, len, &mut claim, l.term_id), "C03: claim with the matching term id returns a result") > 0;
            }
        }
    }
    if claimed {
        // the publisher fills the claimed range, then commits or aborts
        claim.buffer().put_bytes(32, &src[..len as usize]);
        if op == Op::ClaimAbort {
            claim.abort();
        } else {
            claim.commit();
        }
    }
    hook::end()
}

/// `commit_complete` (DESIGN 3.2). Returns the number of committed (positive) slots.
fn commit_complete(l: &Log, p: &Plan, src: &[u8; 96]) -> usize {
    let mut committed = 0;
    let mut prev_committed = true;
    let mut i = 0;
    while i < p.ns {
        let s = p.slots[i];
        let w = rd_i32(&l.term.0, s.off);
        assert!(w == 0 || w == -s.flen || w == s.flen, "C03: at every stopping point a frame's length word is 0 (unclaimed), -length (claimed) or +length (committed)");
        if w > 0 {
            assert!(prev_committed, "C03: frames commit in stream order: a committed frame is never preceded by an uncommitted one");
            assert!(l.frame_ok(s.off, s.flen, s.ty, s.flags, Some(s.reserved)), "C03: a positive length word implies the whole header is final (version, flags, type, term offset, ids, reserved value)");
            if s.plen > 0 {
                let j: usize = kani::any();
                kani::assume(j < s.plen);
                assert!(l.term.0[s.off + 32 + j] == src[s.src_at + j], "C03: a positive length word implies every payload byte is already the source byte");
            }
            committed += 1;
        }
        prev_committed = w > 0;
        i += 1;
    }
    assert!(l.unchanged_outside(p.lo, p.hi), "C03: nothing outside the claimed range is written at any stopping point");
    committed
}

const KMAX: u32 = 24;

macro_rules! crash_points {
    ($name:ident, $excl:expr, $op:expr, $tail:expr, $len:expr, $between:expr) => {
        #[kani::proof]
        fn $name() {
            pretouch();
            let (excl, op, tail, len): (bool, Op, i32, i32) = ($excl, $op, $tail, $len);
            let mut l = log_zero_beyond(tail);
            let mut src: [u8; 96] = kani::any();
            let p = plan(op, tail, len);
            let k: u32 = kani::any();
            kani::assume(k <= KMAX);
            let n = run_op(&mut l, excl, op, tail, &mut src, len, k, u32::MAX, None, false);
            assert!(n <= KMAX, "C03: harness bound: the operation has at most KMAX shared-memory accesses");
            let committed = commit_complete(&l, &p, &src);
            let t = l.raw_tail();
            assert!(t == pack_tail(l.term_id, tail) || t == pack_tail(l.term_id, tail + p.required), "C03: the raw tail is either untouched or advanced by exactly the claimed length");
            if k >= n {
                assert!(committed == p.ns && t == pack_tail(l.term_id, tail + p.required), "C03: an append that runs to completion commits every frame it claimed");
            }
            if k == 0 {
                assert!(t == pack_tail(l.term_id, tail) && rd_i32(&l.term.0, tail as usize) == 0, "C03: a publisher stopped before its first access leaves the log untouched");
            }
            kani::cover!(k == 0, "[must] stopped before the first store");
            kani::cover!(k == 1 && rd_i32(&l.term.0, tail as usize) == 0, "[must] stopped after the tail moved, before the frame was claimed: zero length word behind the tail");
            kani::cover!(k == $between && rd_i32(&l.term.0, tail as usize) < 0, "[must] stopped between header and payload / commit: negative length word");
            kani::cover!(k == n - 1 && committed == p.ns - 1, "[must] stopped just before the final commit");
            kani::cover!(k >= n && committed == p.ns, "[must] complete run");
        }
    };
}

fn commit_or_abort() -> Op {
    if kani::any() {
        Op::ClaimCommit
    } else {
        Op::ClaimAbort
    }
}

// ---- shared (concurrent) appender: access 0 = tail fetch-add, 1 = -length, 2 = header, 3 = payload / type / flags ...
// @verif tier=quick unwind=5
crash_points!(c03_crash_append_unfragmented_tail0_len40, false, Op::Unfrag, 0, 40, 3);
// @verif tier=thorough unwind=5
crash_points!(c03_crash_append_unfragmented_tail96_len33, false, Op::Unfrag, 96, 33, 3);
// @verif tier=quick unwind=5
crash_points!(c03_crash_append_fragmented_tail96_len64, false, Op::Frag, 96, 64, 3);
// @verif tier=quick unwind=5
crash_points!(c03_crash_append_fragmented_tail0_len96, false, Op::Frag, 0, 96, 3);
// @verif tier=quick unwind=5
crash_points!(c03_crash_claim_commit_or_abort_tail96_len40, false, commit_or_abort(), 96, 40, 3);
// @verif tier=quick unwind=5
crash_points!(c03_crash_padding_unfragmented_tail224_len40, false, Op::Unfrag, 224, 40, 3);
// @verif tier=thorough unwind=5
crash_points!(c03_crash_padding_fragmented_tail160_len96, false, Op::Frag, 160, 96, 3);
// @verif tier=thorough unwind=5
crash_points!(c03_crash_padding_claim_tail192_len40, false, Op::ClaimCommit, 192, 40, 3);

// ---- exclusive appender: access 0 = release store of the raw tail, then as above
// @verif tier=quick unwind=5
crash_points!(c03_crash_exclusive_append_unfragmented_tail96_len40, true, Op::Unfrag, 96, 40, 3);
// @verif tier=quick unwind=5
crash_points!(c03_crash_exclusive_append_fragmented_tail64_len96, true, Op::Frag, 64, 96, 3);
// @verif tier=thorough unwind=5
crash_points!(c03_crash_exclusive_append_fragmented_tail32_len70, true, Op::Frag, 32, 70, 3);
// @verif tier=quick unwind=5
crash_points!(c03_crash_exclusive_claim_commit_or_abort_tail0_len33, true, commit_or_abort(), 0, 33, 3);
// @verif tier=quick unwind=5
crash_points!(c03_crash_exclusive_padding_unfragmented_tail224_len40, true, Op::Unfrag, 224, 40, 3);
// @verif tier=thorough unwind=5
crash_points!(c03_crash_exclusive_padding_fragmented_tail128_len96, true, Op::Frag, 128, 96, 3);
// @verif tier=thorough unwind=5
crash_points!(c03_crash_exclusive_padding_claim_tail224_len1, true, Op::ClaimCommit, 224, 1, 3);

/// Broken twin: claims that a committed fragment still carries the header writer's default flags. The second fragment
/// of a 2-fragment message has flags END only, so the solver must refute this (shows `commit_complete`'s "positive
/// implies final header" clause is reachable and not vacuous).
// @verif tier=quick unwind=5 twin=1
#[kani::proof]
fn c03_twin_committed_fragment_keeps_default_flags() {
    pretouch();
    let (tail, len) = (96, 64);
    let mut l = log_zero_beyond(tail);
    let mut src: [u8; 96] = kani::any();
    let k: u32 = kani::any();
    kani::assume(k <= KMAX);
    run_op(&mut l, false, Op::Frag, tail, &mut src, len, k, u32::MAX, None, false);
    let second = tail as usize + 64;
    if rd_i32(&l.term.0, second) > 0 {
        assert!(l.term.0[second + 5] == (BEGIN | END), "C03: TWIN (false on purpose) a committed second fragment still has the unfragmented default flags");
    }
}

// ---------------------------------------------------------------------------------------------------------------------
// Ordering-class monitor, producer side. The trace holds (address, length, class, is_write) of every top-level access.

fn is_len_store(a: hook::Access, at: usize) -> bool {
    a.is_write && a.addr == at && a.len == 4 && a.kind == hook::RELEASE
}

/// Discipline on one frame [f, f+aligned) of the term at `base`: returns (index of first store, index of last store).
fn mon_writer_frame(base: usize, f: usize, aligned: usize) -> (usize, usize) {
    let n = hook::trace_len();
    let (lo, hi) = (base + f, base + f + aligned);
    let mut first = hook::TR;
    let mut last = hook::TR;
    let mut len_stores = 0;
    let mut i = 0;
    while i < n {
        let a = hook::trace_at(i);
        if a.is_write && a.addr < hi && a.addr + a.len > lo {
            assert!(a.addr >= lo && a.addr + a.len <= hi, "C03: a store that touches a frame stays inside that frame");
            if first == hook::TR {
                first = i;
            }
            last = i;
            if a.addr < lo + 4 {
                len_stores += 1;
                assert!(is_len_store(a, lo), "C03: the length word is only ever stored as a whole 32-bit word with release ordering");
            } else {
                assert!(a.kind == hook::PLAIN, "C03: header and payload bytes are written with plain stores (ordered by the release store of the length word)");
            }
        }
        i += 1;
    }
    assert!(first < hook::TR && is_len_store(hook::trace_at(first), lo), "C03: the first store into a frame is the release store of its (negative) length word");
    assert!(last != first && is_len_store(hook::trace_at(last), lo), "C03: the last store into a frame is the release store of its (positive) length word: every plain store to header and payload happens-before it and nothing is written afterwards");
    assert!(len_stores == 2, "C03: the length word is stored exactly twice (claim, commit): no early commit in between");
    (first, last)
}

macro_rules! order_append {
    ($name:ident, $excl:expr, $op:expr, $tail:expr, $len:expr) => {
        #[kani::proof]
        fn $name() {
            pretouch();
            let (excl, op, tail, len): (bool, Op, i32, i32) = ($excl, $op, $tail, $len);
            let mut l = log_zero_beyond(tail);
            let mut src: [u8; 96] = kani::any();
            let p = plan(op, tail, len);
            let n = run_op(&mut l, excl, op, tail, &mut src, len, u32::MAX, u32::MAX, None, true);
            assert!((n as usize) < hook::TR && hook::trace_len() == n as usize, "C03: harness bound: the whole operation fits the trace");
            let base = l.term.0.as_ptr() as usize;
            let meta = l.meta.0.as_ptr() as usize;
            // space is claimed (tail moved with an atomic RMW / the single writer's release store) before any frame byte is stored
            let a0 = hook::trace_at(0);
            assert!(a0.is_write && a0.addr == meta && a0.len == 8 && a0.kind == (if excl { hook::RELEASE } else { hook::RMW }), "C03: the first access of an append moves the raw tail (atomic RMW for concurrent publishers, release store for the exclusive one)");
            let mut prev_last = 0;
            let mut i = 0;
            while i < p.ns {
                let s = p.slots[i];
                let aligned = if p.padding { T - s.off } else { align32(s.flen as i64) as usize };
                let (first, last) = mon_writer_frame(base, s.off, aligned);
                assert!(first > prev_last, "C03: a frame is only touched after the previous frame of the message was committed (stream order)");
                prev_last = last;
                i += 1;
            }
            assert!(prev_last == n as usize - 1, "C03: the commit of the last frame is the final access of the operation");
            let committed = commit_complete(&l, &p, &src);
            kani::cover!(committed == p.ns, "[must] complete append observed");
        }
    };
}

// @verif tier=quick unwind=5 unwindset=mon_writer_frame:26
order_append!(c03_order_append_unfragmented, false, Op::Unfrag, 96, 40);
// @verif tier=quick unwind=5 unwindset=mon_writer_frame:26
order_append!(c03_order_append_fragmented_3_frames, false, Op::Frag, 0, 96);
// @verif tier=quick unwind=5 unwindset=mon_writer_frame:26
order_append!(c03_order_claim_commit_or_abort, false, commit_or_abort(), 0, 40);
// @verif tier=quick unwind=5 unwindset=mon_writer_frame:26
order_append!(c03_order_padding, false, Op::Unfrag, 224, 40);
// @verif tier=quick unwind=5 unwindset=mon_writer_frame:26
order_append!(c03_order_exclusive_append_unfragmented, true, Op::Unfrag, 0, 33);
// @verif tier=quick unwind=5 unwindset=mon_writer_frame:26
order_append!(c03_order_exclusive_append_fragmented_3_frames, true, Op::Frag, 64, 70);
// @verif tier=thorough unwind=5 unwindset=mon_writer_frame:26
order_append!(c03_order_exclusive_claim_commit_or_abort, true, commit_or_abort(), 96, 40);
// @verif tier=thorough unwind=5 unwindset=mon_writer_frame:26
order_append!(c03_order_exclusive_padding, true, Op::Frag, 192, 64);

// ---------------------------------------------------------------------------------------------------------------------
// Consumer side: `term_reader::read` over a term whose leading frames are committed and whose EVERY other byte is
// arbitrary (a publisher may be anywhere inside an append, or dead): only the next frame's length word is known to be
// non-positive. Result, handler calls and the ordering-class discipline of the reader's loads are decided together.

#[derive(Copy, Clone)]
struct Call {
    off: i32,
    len: i32,
    hdr_off: i32,
    frame_len: i32,
    flags: u8,
    ty: u16,
    session: i32,
    term_id: i32,
    reserved: i64,
    byte: u8,
}

const NO_CALL: Call = Call { off: -1, len: -1, hdr_off: -1, frame_len: -1, flags: 0, ty: 0, session: 0, term_id: 0, reserved: 0, byte: 0 };

/// Reader-side discipline over the recorded trace. `frames[..nf]` = committed frames (offset, frame length), `u` = offset
/// of the first uncommitted frame (== T if the term is full).
fn mon_reader(base: usize, frames: &[(usize, i32); 2], nf: usize, u: usize) -> usize {
    let n = hook::trace_len();
    let mut acquired = [false; 2];
    let mut plain_loads = 0;
    let mut i = 0;
    while i < n {
        let a = hook::trace_at(i);
        let rel = a.addr.wrapping_sub(base);
        if rel < T {
            assert!(!a.is_write, "C03: a reader never stores into the term");
            if rel + a.len > u {
                assert!(rel == u && a.len == 4 && a.kind == hook::ACQUIRE, "C03: at or beyond the first uncommitted frame the reader loads nothing but that frame's length word, with acquire ordering");
            } else {
                let c = if nf > 1 && rel >= frames[1].0 { 1 } else { 0 };
                let (f, flen) = frames[c];
                assert!(nf > 0 && rel >= f && rel + a.len <= f + flen as usize, "C03: every load of the reader stays inside the written bytes of a committed frame");
                if rel == f && a.len == 4 && a.kind == hook::ACQUIRE {
                    acquired[c] = true;
                } else {
                    assert!(acquired[c], "C03: every plain load of a frame byte comes after an acquire load of that frame's (positive) length word");
                    plain_loads += 1;
                }
            }
        }
        i += 1;
    }
    plain_loads
}

macro_rules! read_havoc {
    ($name:ident, $start:expr, $nf:expr, [$(($off:expr, $flen:expr)),*], $u:expr) => {
        #[kani::proof]
        fn $name() {
            pretouch();
            let frames: [(usize, i32); 2] = [$(($off, $flen)),*];
            let nf: usize = $nf;
            let u: usize = $u;
            let start: i32 = $start;
            // every byte of the term is symbolic ...
            let mut m: Mem<T> = Mem::any();
            // ... except: committed frames have their positive length word and a DATA or PAD type,
            let mut tys = [DATA; 2];
            let mut i = 0;
            while i < nf {
                let (off, flen) = frames[i];
                m.0[off..off + 4].copy_from_slice(&flen.to_le_bytes());
                let ty: u16 = kani::any();
                kani::assume(ty == DATA || ty == PAD);
                m.0[off + 6..off + 8].copy_from_slice(&ty.to_le_bytes());
                tys[i] = ty;
                i += 1;
            }
            // ... and the next frame's length word is zero (unclaimed) or negative (claimed, publisher possibly dead).
            if u < T {
                let z: i32 = kani::any();
                kani::assume(z <= 0);
                m.0[u..u + 4].copy_from_slice(&z.to_le_bytes());
            }
            let snap = m.0;
            let limit: i32 = kani::any();
            let probe: i32 = kani::any();
            kani::assume(0 <= probe && probe < 64);
            let mut calls = [NO_CALL; 2];
            let mut ncalls: usize = 0;
            let mut handler = |buf: &AtomicBuffer, off: i32, len: i32, h: &Header| {
                if ncalls < 2 {
                    let byte = if probe < len { buf.get::<u8>(off + probe) } else { 0 };
                    calls[ncalls] = Call { off, len, hdr_off: h.offset(), frame_len: h.frame_length(), flags: h.flags(), ty: h.frame_type(), session: h.session_id(), term_id: h.term_id(), reserved: h.reserved_value(), byte };
                }
                ncalls += 1;
            };
            let mut header = Header::new(kani::any(), T as i32);
            hook::begin(u32::MAX, u32::MAX, None, true);
            let out = term_reader::read(m.buf(), start, &mut handler, limit, &mut header);
            let n = hook::end();
            assert!((n as usize) < hook::TR && hook::trace_len() == n as usize, "C03: harness bound: the whole read fits the trace");

            // reference walk over the committed prefix (protocol: stop at the limit, skip padding, stop at length <= 0)
            let mut exp = [0usize; 2];
            let mut exp_n: usize = 0;
            let mut exp_off: usize = start as usize;
            let mut i = 0;
            while i < nf {
                let (off, flen) = frames[i];
                if off >= start as usize && off == exp_off && (exp_n as i64) < limit as i64 {
                    exp_off = off + align32(flen as i64) as usize;
                    if tys[i] != PAD {
                        exp[exp_n] = i;
                        exp_n += 1;
                    }
                }
                i += 1;
            }
            assert!(exp_off <= u, "C03: harness: the committed prefix ends at the first uncommitted frame");
            assert!(out.offset as usize == exp_off, "C03: the reader's offset never advances past a frame that is not committed (and stops at the fragment limit)");
            assert!(out.fragments_read as usize == exp_n && ncalls == exp_n, "C03: the handler is called exactly once per committed data frame within the limit, never for garbage behind it");
            let c: usize = kani::any();
            kani::assume(c < 2);
            if c < exp_n {
                let (off, flen) = frames[exp[c]];
                let g = calls[c];
                assert!(g.off == off as i32 + 32 && g.len == flen - 32 && g.hdr_off == off as i32, "C03: the fragment handed over is the committed frame's payload range, in stream order");
                assert!(g.frame_len == flen && g.ty == DATA && g.flags == snap[off + 5] && g.session == rd_i32(&snap, off + 12) && g.term_id == rd_i32(&snap, off + 20) && g.reserved == rd_i64(&snap, off + 24), "C03: the header view shows the committed frame's header fields");
                if probe < flen - 32 {
                    assert!(g.byte == snap[off + 32 + probe as usize], "C03: the payload handed over is the committed frame's payload");
                }
            }
            let j: usize = kani::any();
            kani::assume(j < T);
            assert!(m.0[j] == snap[j], "C03: reading leaves the term untouched");
            let plain = mon_reader(m.0.as_ptr() as usize, &frames, nf, u);
            kani::cover!(exp_n == nf && exp_off == u, "[must] every committed frame delivered, stopped at the uncommitted one");
            kani::cover!(nf == 0 || exp_n < nf, "[must] fewer fragments than committed frames (limit or padding)");
            kani::cover!(nf == 0 || plain > 0, "[must] plain loads of committed frame bytes observed");
            kani::cover!(u == T || rd_i32(&snap, u) < 0, "[must] claimed-but-uncommitted frame behind the prefix");
        }
    };
}

// @verif tier=quick unwind=5 unwindset=mon_reader:26
read_havoc!(c03_read_havoc_tail_no_committed_frame, 0, 0, [(0, 0), (0, 0)], 0);
// @verif tier=quick unwind=5 unwindset=mon_reader:26
read_havoc!(c03_read_havoc_tail_one_committed_frame, 0, 1, [(0, 49), (0, 0)], 64);
// @verif tier=quick unwind=5 unwindset=mon_reader:26
read_havoc!(c03_read_havoc_tail_two_committed_frames, 0, 2, [(0, 72), (96, 37)], 160);
// @verif tier=thorough unwind=5 unwindset=mon_reader:26
read_havoc!(c03_read_havoc_tail_from_offset_64, 64, 2, [(64, 64), (128, 33)], 192);
// @verif tier=thorough unwind=5 unwindset=mon_reader:26
read_havoc!(c03_read_term_full, 128, 2, [(128, 64), (192, 64)], 256);

// ---------------------------------------------------------------------------------------------------------------------
// Interference: publisher A's append with a COMPLETE append of publisher B (second TermAppender over the same term and
// meta buffers, as two threads sharing one Publication) injected just before A's j-th access, j symbolic.

const LEN_A: i32 = 40; // frame 72, aligned 96
const LEN_B: i32 = 20; // frame 52, aligned 64
const TAIL_AB: i32 = 32;

struct Party {
    magic: u64,
    log: *mut Log,
    src_b: *mut u8,
    ran: u32,
    b_off: i32,
}

// distinctive non-zero initialiser: see HARNESS_GUIDE "static mut" pitfall
static mut PARTY: Party = Party { magic: 0x5a5a_4330_335f_4232, log: std::ptr::null_mut(), src_b: std::ptr::null_mut(), ran: 0x4300, b_off: -0x4303 };

/// What any reader may rely on for a frame slot at `off`: 0 / -len / +len, and +len implies header and payload final.
fn slot_sound(l: &Log, off: usize, len: i32, src: *const u8) -> bool {
    let w = rd_i32(&l.term.0, off);
    let j: usize = kani::any();
    kani::assume(j < len as usize);
    (w == 0 || w == -(32 + len) || w == 32 + len)
        && (w <= 0 || (l.frame_ok(off, 32 + len, DATA, BEGIN | END, Some(reserved_for(off as i32, 32 + len))) && l.term.0[off + 32 + j] == unsafe { *src.add(j) }))
}

static mut SRC_A_PTR: *const u8 = 0x4305 as *const u8;

/// Publisher B's complete append; A_OFF / B_OFF = where the protocol places the two frames for this schedule (the
/// order of the two tail fetch-adds decides the layout, so each layout is a literal instance).
fn publisher_b<const A_OFF: usize, const B_OFF: usize>() {
    unsafe {
        let l = &mut *PARTY.log;
        let hw = HeaderWriter::new(l.hdr.buf());
        let b = TermAppender::new(l.term.buf(), l.meta.buf(), 0);
        let r = b.append_unfragmented_message(&hw, &AtomicBuffer::new(PARTY.src_b, 32), 0, LEN_B, supplier, l.term_id);
        let end = vok!(r, "C03: B's append with the matching term id returns a result");
        assert!(end == B_OFF as i32 + 64, "C03: B's frame lies directly at the tail or directly behind A's claimed range (disjoint ranges)");
        PARTY.b_off = end - 64;
        PARTY.ran += 1;
        // the moment B has returned (A is still somewhere inside its append): a reader must not be misled
        assert!(rd_i32(&l.term.0, B_OFF) == 32 + LEN_B && slot_sound(l, B_OFF, LEN_B, PARTY.src_b), "C03: B's frame is complete when B returns, whatever A has done so far");
        assert!(slot_sound(l, A_OFF, LEN_A, SRC_A_PTR), "C03: while A is preempted its slot shows 0 or -length, or +length with header and payload final");
    }
}

macro_rules! interference {
    ($name:ident, $term_id:expr, $j:expr, $jlo:expr, $jhi:expr, $a_off:expr, $b_off:expr) => {
        #[kani::proof]
        fn $name() {
            pretouch();
            const A_OFF: usize = $a_off;
            const B_OFF: usize = $b_off;
            let mut l = log_zero_beyond_in_term(TAIL_AB, $term_id);
            let mut src_a: [u8; 96] = kani::any();
            let mut src_b: [u8; 32] = kani::any();
            let j: u32 = $j;
            kani::assume($jlo <= j && j <= $jhi); // A performs accesses 0..=5; j == 6: B never runs inside A
            unsafe {
                PARTY.log = &mut l as *mut Log;
                PARTY.src_b = src_b.as_mut_ptr();
                PARTY.ran = 0;
                SRC_A_PTR = src_a.as_ptr();
            }
            let n = run_op(&mut l, false, Op::Unfrag, TAIL_AB, &mut src_a, LEN_A, u32::MAX, j, Some(publisher_b::<A_OFF, B_OFF> as fn()), false);
            assert!(n == 6, "C03: harness: A's unfragmented append performs 6 shared-memory accesses");
            let (ran, b_off) = unsafe { (PARTY.ran, PARTY.b_off) };
            assert!(ran == if j < 6 { 1 } else { 0 }, "C03: harness: B ran exactly once iff it was scheduled inside A");
            assert!(rd_i32(&l.term.0, A_OFF) == 32 + LEN_A && slot_sound(&l, A_OFF, LEN_A, src_a.as_ptr()), "C03: A's frame is complete and intact after it finished around B's append");
            if ran == 1 {
                assert!(b_off == B_OFF as i32, "C03: frames are laid out in the order of the tail fetch-adds");
                assert!(rd_i32(&l.term.0, B_OFF) == 32 + LEN_B && slot_sound(&l, B_OFF, LEN_B, src_b.as_ptr()), "C03: B's frame is still complete and intact after A finished");
                assert!(l.raw_tail() == pack_tail(l.term_id, TAIL_AB + 160), "C03: the tail covers both frames exactly");
                assert!(l.unchanged_outside(TAIL_AB as usize, TAIL_AB as usize + 160), "C03: nothing outside the two claimed frames is written");
            } else {
                assert!(l.unchanged_outside(A_OFF, A_OFF + 96), "C03: nothing outside A's frame is written");
            }
            kani::cover!(j == $jlo && ran == 1, "[must] B at the earliest point of this layout");
            kani::cover!(j == 5 || $jhi < 5, "[must] B just before A's commit");
            kani::cover!(j == 6 || $jhi < 6, "[must] A alone");
        }
    };
}

// B's fetch-add first: B at the tail, A behind it
// @verif tier=quick unwind=3
interference!(c03_interference_b_before_a_claims, kani::any(), 0, 0, 0, 96, 32);
// A's fetch-add first (B injected before A's 1st..5th later access, or not at all): A at the tail, B behind A's range
// (concrete term id: with a symbolic one CBMC cannot fold `raw_tail & 0xFFFF_FFFF` after B's fetch-add and the
// instance costs 2.3 M variables instead of 1 M; the symbolic-term-id twin of this instance is in the thorough tier)
// @verif tier=quick unwind=3
interference!(c03_interference_b_inside_a, -7, kani::any(), 1, 6, 32, 128);
// @verif tier=thorough unwind=3
interference!(c03_interference_b_inside_a_any_term_id, kani::any(), kani::any(), 1, 6, 32, 128);
