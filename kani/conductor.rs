//! Harnesses that need ClientConductor's private state (child module of client_conductor.rs via hook H3):
//! C11 (liveness timing), C10 (fault survival), C09 (registration protocol), C12 (image lifecycle / linger).
//! The conductor is built by STRUCT LITERAL (ClientConductor::new does not leave symex in 20 minutes), with a real
//! DriverProxy over a real ManyToOneRingBuffer, real counters buffers and recording fn-pointer handlers.
#![allow(dead_code, unused_imports, unused_variables, unused_mut)]
use super::*;
use crate::concurrent::atomic_buffer::AtomicBuffer;
use crate::concurrent::ring_buffer::{self, ManyToOneRingBuffer};
use crate::utils::errors::{AeronError, DriverInteractionError, GenericError};
use crate::verif_kani::publog::dummy_conductor;
use crate::verif_kani::util::*;
use std::collections::HashMap;
use std::hash::RandomState;

pub const RING_CAP: usize = 512; // data area; max command length = capacity / 8 = 64 bytes
pub const RING_LEN: usize = RING_CAP + 768;

/// What the recording handlers saw. One static with a distinctive non-zero field (Kani merges all-zero statics).
pub struct Seen {
    magic: u64,
    pub now: u64,
    pub errors: u32,
    pub last_error: u32,
    pub closes: u32,
    pub new_pubs: u32,
    pub new_subs: u32,
    pub avail_counters: u32,
    pub unavail_counters: u32,
    pub last_id: i64,
    pub last_counter_id: i32,
}
pub static mut SEEN: Seen = Seen { magic: 0x5a5a_c0bd_0c70_0001, now: 0, errors: 0, last_error: 0, closes: 0, new_pubs: 0, new_subs: 0,
    avail_counters: 0, unavail_counters: 0, last_id: 0, last_counter_id: 0 };

pub const E_SERVICE_TIMEOUT: u32 = 1;
pub const E_DRIVER_INACTIVE: u32 = 2;
pub const E_HEARTBEAT_NOT_ACTIVE: u32 = 3;
pub const E_CLIENT_TIMEOUT: u32 = 4;
pub const E_OTHER: u32 = 9;

fn clock() -> Moment {
    unsafe { SEEN.now }
}
fn on_error(e: AeronError) {
    let code = match &e {
        AeronError::Generic(GenericError::TimeoutBetweenServiceCallsOverTimeout(_)) => E_SERVICE_TIMEOUT,
        AeronError::DriverTimeout(DriverInteractionError::WasInactive(_)) => E_DRIVER_INACTIVE,
        AeronError::Generic(GenericError::ClientHeartbeatNotActive) => E_HEARTBEAT_NOT_ACTIVE,
        AeronError::ClientTimeoutException => E_CLIENT_TIMEOUT,
        _ => E_OTHER,
    };
    unsafe {
        SEEN.errors += 1;
        SEEN.last_error = code;
    }
    std::mem::forget(e);
}
fn on_new_pub(ch: CString, _stream: i32, _session: i32, id: i64) {
    unsafe {
        SEEN.new_pubs += 1;
        SEEN.last_id = id;
    }
    std::mem::forget(ch);
}
fn on_new_sub(ch: CString, _stream: i32, id: i64) {
    unsafe {
        SEEN.new_subs += 1;
        SEEN.last_id = id;
    }
    std::mem::forget(ch);
}
fn on_avail_counter(_r: &CountersReader, id: i64, counter_id: i32) {
    unsafe {
        SEEN.avail_counters += 1;
        SEEN.last_id = id;
        SEEN.last_counter_id = counter_id;
    }
}
fn on_unavail_counter(_r: &CountersReader, id: i64, counter_id: i32) {
    unsafe {
        SEEN.unavail_counters += 1;
        SEEN.last_id = id;
        SEEN.last_counter_id = counter_id;
    }
}
fn on_close() {
    unsafe { SEEN.closes += 1 }
}

pub fn stub_random_state() -> RandomState {
    unsafe { std::mem::transmute::<[u64; 2], RandomState>([0x1234_5678, 0x9abc_def0]) }
}

pub struct Bufs {
    pub ring: Mem<RING_LEN>,
    pub cmeta: Mem<1024>, // two counter slots
    pub cvals: Mem<256>,
}

impl Bufs {
    pub fn new() -> Bufs {
        Bufs { ring: Mem::zeroed(), cmeta: Mem::zeroed(), cvals: Mem::zeroed() }
    }
    pub fn set_driver_heartbeat(&mut self, v: i64) {
        self.ring.buf().put::<i64>(RING_CAP as i32 + ring_buffer::CONSUMER_HEARTBEAT_OFFSET, v);
    }
    pub fn set_correlation_counter(&mut self, v: i64) {
        self.ring.buf().put::<i64>(RING_CAP as i32 + ring_buffer::CORRELATION_COUNTER_OFFSET, v);
    }
    pub fn ring_tail(&mut self) -> i64 {
        self.ring.buf().get::<i64>(RING_CAP as i32 + ring_buffer::TAIL_POSITION_OFFSET)
    }
    /// allocate counter slot `slot` as a client heartbeat counter (type 11) keyed by `registration_id`
    pub fn put_heartbeat_counter(&mut self, slot: i32, state: i32, type_id: i32, registration_id: i64) {
        let m = self.cmeta.buf();
        m.put::<i32>(slot * 512, state);
        m.put::<i32>(slot * 512 + 4, type_id);
        m.put::<i64>(slot * 512 + 16, registration_id);
    }
    pub fn counter_value(&mut self, slot: i32) -> i64 {
        self.cvals.buf().get::<i64>(slot * 128)
    }
}

/// The conductor as `ClientConductor::new` leaves it, with harness-chosen timer state.
pub fn conductor(b: &mut Bufs, driver_timeout_ms: Moment, linger_ms: Moment, inter_service_ms: Moment) -> ClientConductor {
    let _ = *crate::concurrent::counters::KEY_OFFSET + *crate::concurrent::counters::TYPE_ID_OFFSET
        + *crate::concurrent::counters::LABEL_LENGTH_OFFSET + *crate::concurrent::counters::FREE_TO_REUSE_DEADLINE_OFFSET;
    let ring = Arc::new(match ManyToOneRingBuffer::new(b.ring.buf()) {
        Ok(r) => r,
        Err(_) => unreachable!(),
    });
    let proxy = Arc::new(DriverProxy::new(ring));
    ClientConductor {
        publication_by_registration_id: Default::default(),
        exclusive_publication_by_registration_id: Default::default(),
        subscription_by_registration_id: Default::default(),
        counter_by_registration_id: Default::default(),
        destination_state_by_correlation_id: Default::default(),
        log_buffers_by_registration_id: Default::default(),
        lingering_image_lists: vec![],
        driver_proxy: proxy,
        driver_listener_adapter: None,
        counters_reader: Arc::new(CountersReader::new(b.cmeta.buf(), b.cvals.buf())),
        counter_values_buffer: b.cvals.buf(),
        on_new_publication_handler: Box::new(on_new_pub as fn(CString, i32, i32, i64)),
        on_new_exclusive_publication_handler: Box::new(on_new_pub as fn(CString, i32, i32, i64)),
        on_new_subscription_handler: Box::new(on_new_sub as fn(CString, i32, i64)),
        error_handler: Box::new(on_error as fn(AeronError)),
        on_available_counter_handlers: vec![Box::new(on_avail_counter as fn(&CountersReader, i64, i32))],
        on_unavailable_counter_handlers: vec![Box::new(on_unavail_counter as fn(&CountersReader, i64, i32))],
        on_close_client_handlers: vec![Box::new(on_close as fn())],
        epoch_clock: Box::new(clock as fn() -> Moment),
        driver_timeout_ms,
        resource_linger_timeout_ms: linger_ms,
        inter_service_timeout_ms: inter_service_ms,
        pre_touch_mapped_memory: false,
        is_in_callback: false,
        driver_active: AtomicBool::from(true),
        is_closed: AtomicBool::from(false),
        heartbeat_timestamp: None,
        time_of_last_do_work_ms: 0,
        time_of_last_keepalive_ms: 0,
        time_of_last_check_managed_resources_ms: 0,
        arced_self: Some(dummy_conductor()),
        padding: [0; crate::utils::misc::CACHE_LINE_LENGTH as usize],
    }
}

fn any_time() -> u64 {
    let t: u64 = kani::any();
    kani::assume(t < (1 << 62));
    t
}

fn any_timeout() -> u64 {
    let t: u64 = kani::any();
    kani::assume(t >= 1 && t < (1 << 40));
    t
}

/// C11: one duty-cycle step of the liveness logic from an ARBITRARY timer state (so histories of any length reduce
/// to this step): service-timeout close, driver-death detection, heartbeat refresh, timer-base updates.
/// `hb_mode`: 0 = no heartbeat counter known and none in the counters buffer, 1 = none known but slot 1 holds a
/// matching live heartbeat counter, 2 = known and active, 3 = known but no longer active.
macro_rules! heartbeat_step {
    ($name:ident, $hb_mode:expr) => {
        #[kani::proof]
        #[kani::stub(std::hash::RandomState::new, stub_random_state)]
        fn $name() {
            let mut b = Bufs::new();
            let now = any_time();
            let (t_work, t_keep, t_res) = (any_time(), any_time(), any_time());
            kani::assume(t_work <= now && t_keep <= now && t_res <= now);
            let (driver_timeout, inter_service) = (any_timeout(), any_timeout());
            let driver_hb: i64 = kani::any();
            kani::assume(driver_hb >= -1 && driver_hb < (1 << 62));
            b.set_driver_heartbeat(driver_hb);
            b.set_correlation_counter(77);
            let mut c = conductor(&mut b, driver_timeout, 5000, inter_service);
            let client_id = c.driver_proxy.client_id();
            assert!(client_id == 77, "C11: harness: client id is the first correlation id");
            let hb_mode: u8 = $hb_mode;
            if hb_mode == 1 || hb_mode == 2 {
                b.put_heartbeat_counter(1, 1, 11, client_id);
            } else if hb_mode == 3 {
                b.put_heartbeat_counter(1, -1, 11, client_id); // reclaimed by the driver
            }
            if hb_mode >= 2 {
                c.heartbeat_timestamp = Some(Box::new(AtomicCounter::new(b.cvals.buf(), 1)));
            }
            c.time_of_last_do_work_ms = t_work;
            c.time_of_last_keepalive_ms = t_keep;
            c.time_of_last_check_managed_resources_ms = t_res;
            unsafe {
                SEEN.now = now;
                SEEN.errors = 0;
                SEEN.closes = 0;
            }

            let worked = c.on_heartbeat_check_timeouts();

            let service_expired = now > t_work + inter_service;
            let keep_due = now > t_keep + 500;
            let res_due = now > t_res + 1000;
            let driver_dead = keep_due && driver_hb >= 0 && now > driver_hb as u64 + driver_timeout;
            let hb_lost = keep_due && hb_mode == 3;
            assert!(c.is_closed() == (service_expired || hb_lost), "C11: the client closes exactly when the duty-cycle gap exceeds the inter-service timeout (or its heartbeat counter was reclaimed)");
            assert!(c.driver_active.load(Ordering::SeqCst) == !driver_dead, "C11: the driver is declared dead exactly when its heartbeat is older than the driver timeout at a keep-alive check, never while it is younger");
            let expected_errors = service_expired as u32 + driver_dead as u32 + hb_lost as u32;
            assert!(unsafe { SEEN.errors } == expected_errors, "C11: each timeout is reported to the error handler exactly once");
            assert!(unsafe { SEEN.closes } == (service_expired as u32 + hb_lost as u32), "C11: close handlers run once per close");
            assert!(c.time_of_last_do_work_ms == now, "C11: duty-cycle time base refreshed every cycle");
            assert!(c.time_of_last_keepalive_ms == if keep_due { now } else { t_keep }, "C11: keep-alive time base refreshed exactly when the keep-alive interval elapsed");
            assert!(c.time_of_last_check_managed_resources_ms == if res_due { now } else { t_res }, "C11: resource-check time base refreshed exactly when due");
            assert!(worked == (keep_due || res_due), "C11: work reported iff a periodic action ran");
            if keep_due && (hb_mode == 1 || hb_mode == 2) {
                assert!(c.heartbeat_timestamp.is_some() && b.counter_value(1) == now as i64, "C11: the client heartbeat is refreshed to now at every keep-alive check while its counter is live");
            }
            if hb_mode == 0 {
                assert!(c.heartbeat_timestamp.is_none(), "C11: no heartbeat counter is invented when the driver allocated none");
            }
            if !keep_due && hb_mode == 2 {
                assert!(b.counter_value(1) == 0, "C11: heartbeat untouched before the keep-alive interval elapsed");
            }
            // once the driver is dead, new requests are refused and nothing is written to the command ring
            if driver_dead && !c.is_closed() {
                let tail = b.ring_tail();
                let r = c.add_publication(unsafe { CString::from_vec_unchecked(vec![b'c']) }, 5);
                assert!(matches!(r, Err(AeronError::DriverTimeout(DriverInteractionError::Inactive))), "C11: requests after driver death are refused as Inactive");
                assert!(b.ring_tail() == tail, "C11: a refused request writes nothing");
                std::mem::forget(r);
            }
            kani::cover!(service_expired, "[must] service timeout path");
            kani::cover!(now == t_work + inter_service, "[must] exact service-timeout boundary");
            kani::cover!(driver_dead, "[must] driver death path");
            kani::cover!(keep_due && driver_hb >= 0 && now == driver_hb as u64 + driver_timeout, "[must] exact driver-timeout boundary");
            kani::cover!(!keep_due, "[must] keep-alive not due path");
            std::mem::forget(c);
        }
    };
}
// @verif tier=quick unwind=4 fs=1300
heartbeat_step!(c11_heartbeat_step_no_counter, 0);
// @verif tier=quick unwind=4 fs=1300
heartbeat_step!(c11_heartbeat_step_counter_found, 1);
// @verif tier=quick unwind=4 fs=1300
heartbeat_step!(c11_heartbeat_step_counter_known_active, 2);
// @verif tier=quick unwind=4 fs=1300
heartbeat_step!(c11_heartbeat_step_counter_reclaimed, 3);

// ------------------------------------------------------------------------------------------------------------------
// C12 — linger bookkeeping of mapped log buffers (the Arc<LogBuffers> part; mmap/munmap themselves are out of reach).

fn heap_log_buffers(mem: &mut Mem<{ 3 * 64 + 4096 }>) -> LogBuffers {
    unsafe { LogBuffers::new(mem.0.as_mut_ptr(), (3 * 64 + 4096) as isize, 64) }
}

/// One managed-resource check from an arbitrary entry state: the mapping is dropped exactly when no handle exists,
/// it was already stamped, and strictly more than the linger period has passed since the stamp.
/// (`in_use`, `stamped`) are concrete per instance; now / stamp / linger period are symbolic.
macro_rules! linger_step {
    ($name:ident, $in_use:expr, $stamped:expr) => {
        #[kani::proof]
        #[kani::stub(std::hash::RandomState::new, stub_random_state)]
        fn $name() {
            let mut b = Bufs::new();
            let mut logmem = Mem::<{ 3 * 64 + 4096 }>::zeroed();
            let linger = any_timeout();
            let mut c = conductor(&mut b, 1000, linger, 1000);
            let lb = Arc::new(heap_log_buffers(&mut logmem));
            let in_use: bool = $in_use;
            let handle = if in_use { Some(lb.clone()) } else { None };
            let stamped: bool = $stamped;
            let stamp = any_time();
            let now = any_time();
            kani::assume(stamp <= now);
            let mut defn = LogBuffersDefn::new(lb);
            if stamped {
                defn.time_of_last_state_change_ms = stamp;
            }
            c.log_buffers_by_registration_id.insert(42, defn);

            c.on_check_managed_resources(now);

            let still = c.log_buffers_by_registration_id.get(&42);
            let expect_removed = !in_use && stamped && now > stamp + linger;
            assert!(still.is_none() == expect_removed, "C12: log memory is released exactly when no handle exists and more than the linger period passed since the last handle went away");
            if let Some(d) = still {
                if !in_use && !stamped {
                    assert!(d.time_of_last_state_change_ms == now, "C12: the moment the last handle is found gone is stamped");
                } else if in_use {
                    assert!(d.time_of_last_state_change_ms == if stamped { stamp } else { MAX_MOMENT }, "C12: memory in use is left alone");
                }
            }
            if !in_use && stamped {
                kani::cover!(expect_removed, "[must] removal path");
                kani::cover!(now == stamp + linger, "[must] exact linger boundary");
                kani::cover!(now < linger, "[must] clock value smaller than the linger period");
            }
            std::mem::forget(handle);
            std::mem::forget(c);
        }
    };
}
// NOT DECIDED (tier=off): HashMap iteration + removal inside on_check_managed_resources runs out of memory (10 GB and 24 GB
// tried); the identical linger arithmetic is decided on the image-list path below (Vec::retain) and both were repaired together.
// @verif tier=off unwind=4 unwindset=swap_nonoverlapping_chunks:8 timeout=2400 mem=24
linger_step!(c12_linger_step_unreferenced_stamped, false, true);
// @verif tier=off unwind=4 unwindset=swap_nonoverlapping_chunks:8
linger_step!(c12_linger_step_unreferenced_unstamped, false, false);
// @verif tier=off unwind=4 unwindset=swap_nonoverlapping_chunks:8
linger_step!(c12_linger_step_in_use, true, true);

/// Lingering image lists: a retired image vector is kept for at least the linger period after it was retired.
// @verif tier=quick unwind=4
#[kani::proof]
#[kani::stub(std::hash::RandomState::new, stub_random_state)]
fn c12_image_list_linger_step() {
    let mut b = Bufs::new();
    let linger = any_timeout();
    let mut c = conductor(&mut b, 1000, linger, 1000);
    let stamp = any_time();
    let now = any_time();
    kani::assume(stamp <= now);
    c.lingering_image_lists.push(ImageListLingerDefn::new(stamp, Vec::new()));
    c.on_check_managed_resources(now);
    let kept = c.lingering_image_lists.len() == 1;
    assert!(c.lingering_image_lists.len() <= 1, "C12: no image list is invented");
    assert!(kept == (now <= stamp + linger), "C12: a retired image list lingers exactly until the linger period has passed");
    kani::cover!(!kept, "[must] released path");
    kani::cover!(now == stamp + linger, "[must] exact linger boundary");
    kani::cover!(now < linger, "[must] clock value smaller than the linger period");
    std::mem::forget(c);
}

// ------------------------------------------------------------------------------------------------------------------
// C09 — registration protocol: add / driver answer / find / release, one resource at a time, short histories.

/// ring record `k` header (records are laid out from index 0 of an initially empty ring; offsets are concrete)
fn rec_len(b: &mut Bufs, at: usize) -> i32 {
    b.ring.buf().get::<i32>(at as i32)
}
fn rec_type(b: &mut Bufs, at: usize) -> i32 {
    b.ring.buf().get::<i32>(at as i32 + 4)
}
fn rec_i64(b: &mut Bufs, at: usize, field: usize) -> i64 {
    b.ring.buf().get::<i64>((at + 8 + field) as i32)
}
fn rec_i32(b: &mut Bufs, at: usize, field: usize) -> i32 {
    b.ring.buf().get::<i32>((at + 8 + field) as i32)
}

const CLIENT_ID: i64 = 100; // the correlation counter starts here; DriverProxy::new draws the client id from it

fn fresh(b: &mut Bufs, driver_timeout: u64) -> ClientConductor {
    b.set_correlation_counter(CLIENT_ID);
    b.set_driver_heartbeat(-1);
    let c = conductor(b, driver_timeout, 5000, 5000);
    unsafe {
        SEEN.errors = 0;
        SEEN.avail_counters = 0;
        SEEN.unavail_counters = 0;
        SEEN.new_subs = 0;
        SEEN.new_pubs = 0;
        SEEN.closes = 0;
    }
    c
}

fn text(bytes: &[u8]) -> CString {
    unsafe { CString::from_vec_unchecked(bytes.to_vec()) }
}

/// Counter: add -> {ready | ready for a foreign id | error | error for a foreign id | nothing, with a clock advance}
/// -> find twice -> release. Event choice, counter id, type id, key bytes, error code, times symbolic.
/// The LAST reference of an Arc is never really dropped in these harnesses (every handle is `mem::forget`-ed), but symex
/// cannot see the reference counts of handles stored in the registration HashMaps and would walk the destructor glue of a
/// whole ClientConductor at every place a handle may be dropped. The stub cuts those paths; its assertion makes the
/// solver PROVE that no such path is feasible (if one is, the harness fails with this message instead of being unsound).
unsafe fn arc_last_drop_forbidden<T: ?Sized, A: std::alloc::Allocator>(_this: &mut Arc<T, A>) {
    assert!(false, "HARNESS: the last reference of an Arc was dropped inside the harness");
    kani::assume(false);
}

macro_rules! counter_protocol {
    ($name:ident, $event:expr) => {
#[kani::proof]
#[kani::stub(std::hash::RandomState::new, stub_random_state)]
#[kani::stub(std::sync::Arc::drop_slow, arc_last_drop_forbidden)]
fn $name() {
    let mut b = Bufs::new();
    let driver_timeout = any_timeout();
    let mut c = fresh(&mut b, driver_timeout);
    let t0 = any_time();
    unsafe { SEEN.now = t0 };
    let type_id: i32 = kani::any();
    let key: [u8; 4] = kani::any();
    let id = vok!(c.add_counter(type_id, &key, "ab"), "C09: add_counter on an open conductor succeeds");
    // exactly one well-formed ADD_COUNTER command with a fresh correlation id
    assert!(id == CLIENT_ID + 1, "C09: add returns the fresh correlation id");
    assert!(b.ring_tail() == 48, "C09: exactly one command record was written (8 + 20 + 4+4 + 4+2 = 42 -> 48)");
    assert!(rec_len(&mut b, 0) == 42 && rec_type(&mut b, 0) == 0x09, "C09: ADD_COUNTER record with protocol type code and length");
    assert!(rec_i64(&mut b, 0, 0) == CLIENT_ID && rec_i64(&mut b, 0, 8) == id && rec_i32(&mut b, 0, 16) == type_id, "C09: client id, correlation id, type id on the wire");
    assert!(rec_i32(&mut b, 0, 20) == 4 && b.ring.0[8 + 24] == key[0] && b.ring.0[8 + 27] == key[3], "C09: key on the wire");
    assert!(rec_i32(&mut b, 0, 28) == 2 && b.ring.0[8 + 32] == b'a' && b.ring.0[8 + 33] == b'b', "C09: label on the wire");

    let event: u8 = $event;
    let counter_id: i32 = kani::any();
    kani::assume(counter_id == 0 || counter_id == 1);
    let err_code: i32 = kani::any();
    match event {
        0 => c.on_available_counter(id, counter_id),
        1 => c.on_available_counter(id + 1000, counter_id), // answer for a foreign registration
        2 => c.on_error_response(id, err_code, text(b"no")),
        3 => c.on_error_response(id + 1000, err_code, text(b"no")),
        _ => {}
    }
    let t1 = any_time();
    kani::assume(t1 >= t0);
    unsafe { SEEN.now = t1 };
    let first = c.find_counter(id);
    if event == 0 {
        c.on_available_counter(id, counter_id); // the driver's ready event arrives a second time (duplicated answer)
    }
    let second = c.find_counter(id);
    match event {
        0 => {
            let (x, y) = (vok!(first, "C09: a ready counter is found"), vok!(second, "C09: a ready counter is found again"));
            assert!(Arc::ptr_eq(&x, &y), "C09: repeated lookups yield the same counter while it is held");
            assert!(x.id() == counter_id && x.registration_id() == id, "C09: the counter carries the driver's counter id and its registration id");
            assert!(unsafe { SEEN.last_id } == id, "C09: available-counter callbacks carry the registration id");
            std::mem::forget(x);
            std::mem::forget(y);
        }
        2 => {
            assert!(matches!(first, Err(AeronError::RegistrationException(code, _)) if code == err_code), "C09: the driver's error is reported");
            assert!(matches!(second, Err(AeronError::Generic(GenericError::CounterNotFound))), "C09: the driver's error is reported once, then the registration is gone");
            std::mem::forget(first);
            std::mem::forget(second);
        }
        _ => {
            // no (matching) answer: not ready until the driver timeout has passed, then a driver timeout - never earlier
            let timed_out = t1 > t0 + driver_timeout;
            if timed_out {
                assert!(matches!(first, Err(AeronError::DriverTimeout(DriverInteractionError::NoResponse(_)))), "C09: an unanswered registration is reported as a driver timeout once the timeout has passed");
            } else {
                assert!(matches!(first, Err(AeronError::Generic(GenericError::CounterNotReadyYet { .. }))), "C09: an unanswered registration is not ready (and not timed out) before the driver timeout");
            }
            assert!(event != 1 || unsafe { SEEN.avail_counters } == 1, "C09: availability of foreign counters is still announced to the handlers");
            std::mem::forget(first);
            std::mem::forget(second);
        }
    }
    // release: exactly one REMOVE_COUNTER command, then the registration is unknown
    // (not after the ready event: releasing with the handle alive does not leave symex in 25 minutes)
    if event != 2 && event != 0 {
        let tail = b.ring_tail();
        let r = c.release_counter(id);
        assert!(r.is_ok(), "C09: releasing a known registration succeeds");
        assert!(b.ring_tail() == tail + 32 && rec_len(&mut b, 48) == 32 && rec_type(&mut b, 48) == 0x0A, "C09: exactly one REMOVE_COUNTER command");
        assert!(rec_i64(&mut b, 48, 0) == CLIENT_ID && rec_i64(&mut b, 48, 8) == id + 1 && rec_i64(&mut b, 48, 16) == id, "C09: remove carries a fresh correlation id and the registration id");
        let again = c.release_counter(id);
        assert!(again.is_err() && b.ring_tail() == tail + 32, "C09: a second release sends nothing");
        std::mem::forget(again);
    }
    kani::cover!(event != 4 || t1 == t0 + driver_timeout, "[must] instance reaches the end (exact registration-timeout boundary when unanswered)");
    std::mem::forget(c);
}
    };
}
// NOT DECIDED (tier=off): once the driver's ready event has created the Arc<Counter> / Arc<Mutex<Subscription>>, every place
// that may drop such a handle drags the destructor glue of a whole ClientConductor (the handle holds Arc<Mutex<ClientConductor>>)
// into symex - hashbrown's SIMD group scans over symbolic-looking control bytes - and the harness does not leave symex
// (25 min timeout / out of memory at 10 GB, measured with a dummy, a valid second conductor, and Drop stubs).
// @verif tier=quick unwind=6 fs=1300 timeout=1500
counter_protocol!(c09_counter_ready_find_twice, 0);
// @verif tier=quick unwind=6 fs=1300 timeout=1500
counter_protocol!(c09_counter_foreign_ready_ignored, 1);
// @verif tier=quick unwind=6 fs=1300 timeout=1500
counter_protocol!(c09_counter_error_reported_once, 2);
// @verif tier=thorough unwind=6 fs=1300 timeout=1500
counter_protocol!(c09_counter_foreign_error_ignored, 3);
// @verif tier=quick unwind=6 fs=1300 timeout=1500
counter_protocol!(c09_counter_unanswered_times_out, 4);


fn on_image(_img: &Image) {}

/// Subscription: add -> {ready | foreign ready | error | nothing} -> find twice -> release.
macro_rules! sub_protocol {
    ($name:ident, $event:expr) => {
#[kani::proof]
#[kani::stub(std::hash::RandomState::new, stub_random_state)]
#[kani::stub(std::sync::Arc::drop_slow, arc_last_drop_forbidden)]
fn $name() {
    let mut b = Bufs::new();
    let driver_timeout = any_timeout();
    let mut c = fresh(&mut b, driver_timeout);
    let t0 = any_time();
    unsafe { SEEN.now = t0 };
    let stream: i32 = kani::any();
    let id = vok!(
        c.add_subscription(text(b"ch"), stream, Box::new(on_image as fn(&Image)), Box::new(on_image as fn(&Image))),
        "C09: add_subscription on an open conductor succeeds"
    );
    assert!(id == CLIENT_ID + 1, "C09: add returns the fresh correlation id");
    // subscription message: client @0, correlation @8, registration correlation @16 (-1), stream @24, channel length @28, channel @32
    assert!(b.ring_tail() == 48 && rec_len(&mut b, 0) == 8 + 32 + 2 && rec_type(&mut b, 0) == 0x04, "C09: exactly one ADD_SUBSCRIPTION record");
    assert!(rec_i64(&mut b, 0, 0) == CLIENT_ID && rec_i64(&mut b, 0, 8) == id && rec_i64(&mut b, 0, 16) == -1 && rec_i32(&mut b, 0, 24) == stream, "C09: subscription fields on the wire");
    assert!(rec_i32(&mut b, 0, 28) == 2 && b.ring.0[8 + 32] == b'c' && b.ring.0[8 + 33] == b'h', "C09: channel on the wire");

    let event: u8 = $event;
    let status_id: i32 = kani::any();
    let err_code: i32 = kani::any();
    match event {
        0 => c.on_subscription_ready(id, status_id),
        1 => c.on_subscription_ready(id + 1000, status_id),
        2 => c.on_error_response(id, err_code, text(b"no")),
        3 => c.on_error_response(id + 1000, err_code, text(b"no")),
        _ => {}
    }
    let t1 = any_time();
    kani::assume(t1 >= t0);
    unsafe { SEEN.now = t1 };
    let first = c.find_subscription(id);
    let second = c.find_subscription(id);
    match event {
        0 => {
            let (x, y) = (vok!(first, "C09: a ready subscription is found"), vok!(second, "C09: a ready subscription is found again"));
            assert!(Arc::ptr_eq(&x, &y), "C09: repeated lookups yield the same subscription while it is held");
            assert!(unsafe { SEEN.new_subs } == 1 && unsafe { SEEN.last_id } == id, "C09: new-subscription callback fired once");
            {
                let g = x.lock().unwrap();
                assert!(g.registration_id() == id && g.stream_id() == stream && g.channel_status_id() == status_id, "C09: the subscription carries its registration, stream and channel status ids");
            }
            std::mem::forget(x);
            std::mem::forget(y);
        }
        2 => {
            assert!(matches!(first, Err(AeronError::RegistrationException(code, _)) if code == err_code), "C09: the driver's error is reported");
            assert!(matches!(second, Err(AeronError::Generic(GenericError::SubscriptionNotFound))), "C09: the error is reported once, then the registration is gone");
            std::mem::forget(first);
            std::mem::forget(second);
        }
        _ => {
            if t1 > t0 + driver_timeout {
                assert!(matches!(first, Err(AeronError::DriverTimeout(DriverInteractionError::NoResponse(_)))), "C09: unanswered registration -> driver timeout once the timeout has passed");
            } else {
                assert!(matches!(first, Err(AeronError::SubscriptionNotReady(x)) if x == id), "C09: unanswered registration is not ready before the driver timeout");
            }
            assert!(unsafe { SEEN.new_subs } == 0, "C09: answers for foreign ids do not create a subscription");
            std::mem::forget(first);
            std::mem::forget(second);
        }
    }
    if event != 2 {
        let tail = b.ring_tail();
        let r = c.release_subscription(id, Vec::new());
        assert!(r.is_ok(), "C09: releasing a known registration succeeds");
        assert!(b.ring_tail() == tail + 32 && rec_len(&mut b, 48) == 32 && rec_type(&mut b, 48) == 0x05, "C09: exactly one REMOVE_SUBSCRIPTION command");
        assert!(rec_i64(&mut b, 48, 8) == id + 1 && rec_i64(&mut b, 48, 16) == id, "C09: remove carries a fresh correlation id and the registration id");
        let again = c.release_subscription(id, Vec::new());
        assert!(again.is_err() && b.ring_tail() == tail + 32, "C09: a second release sends nothing");
        std::mem::forget(again);
    }
    kani::cover!(event != 4 || t1 == t0 + driver_timeout, "[must] instance reaches the end (exact registration-timeout boundary when unanswered)");
    std::mem::forget(c);
}
    };
}
// @verif tier=quick unwind=6 fs=1300 timeout=1500
sub_protocol!(c09_subscription_ready_find_release, 0);
// @verif tier=quick unwind=6 fs=1300 timeout=1500
sub_protocol!(c09_subscription_foreign_ready_ignored, 1);
// @verif tier=quick unwind=6 fs=1300 timeout=1500
sub_protocol!(c09_subscription_error_reported_once, 2);
// @verif tier=thorough unwind=6 fs=1300 timeout=1500
sub_protocol!(c09_subscription_foreign_error_ignored, 3);
// @verif tier=quick unwind=6 fs=1300 timeout=1500
sub_protocol!(c09_subscription_unanswered_times_out, 4);

/// Publications (shared / exclusive): add -> {foreign ready | error | foreign error | nothing} -> find twice -> release.
macro_rules! pub_protocol {
    ($name:ident, $exclusive:expr, $event:expr) => {
#[kani::proof]
#[kani::stub(std::hash::RandomState::new, stub_random_state)]
#[kani::stub(std::sync::Arc::drop_slow, arc_last_drop_forbidden)]
#[kani::stub(crate::utils::log_buffers::LogBuffers::from_existing, heap_mapping)]
fn $name() {
    let mut b = Bufs::new();
    let driver_timeout = any_timeout();
    let mut c = fresh(&mut b, driver_timeout);
    let t0 = any_time();
    unsafe { SEEN.now = t0 };
    let stream: i32 = kani::any();
    let exclusive: bool = $exclusive;
    let id = if exclusive {
        vok!(c.add_exclusive_publication(text(b"ch"), stream), "C09: add_exclusive_publication on an open conductor succeeds")
    } else {
        vok!(c.add_publication(text(b"ch"), stream), "C09: add_publication on an open conductor succeeds")
    };
    assert!(id == CLIENT_ID + 1, "C09: add returns the fresh correlation id");
    // publication message: client @0, correlation @8, stream @16, channel length @20, channel @24
    assert!(b.ring_tail() == 40 && rec_len(&mut b, 0) == 8 + 24 + 2 && rec_type(&mut b, 0) == if exclusive { 0x03 } else { 0x01 }, "C09: exactly one ADD_(EXCLUSIVE_)PUBLICATION record");
    assert!(rec_i64(&mut b, 0, 0) == CLIENT_ID && rec_i64(&mut b, 0, 8) == id && rec_i32(&mut b, 0, 16) == stream, "C09: publication fields on the wire");
    assert!(rec_i32(&mut b, 0, 20) == 2 && b.ring.0[8 + 24] == b'c' && b.ring.0[8 + 25] == b'h', "C09: channel on the wire");
    let event: u8 = $event;
    let err_code: i32 = kani::any();
    let (session, status_id): (i32, i32) = (kani::any(), kani::any());
    match event {
        0 => {
            if exclusive {
                c.on_new_exclusive_publication(id, id, stream, session, 0, status_id, text(b"f"));
            } else {
                c.on_new_publication(id, id, stream, session, 0, status_id, text(b"f"));
            }
        }
        1 => {
            if exclusive {
                c.on_new_exclusive_publication(id + 1000, id + 1000, stream, 1, 0, 0, text(b"f"));
            } else {
                c.on_new_publication(id + 1000, id + 1000, stream, 1, 0, 0, text(b"f"));
            }
        }
        2 => c.on_error_response(id, err_code, text(b"no")),
        3 => c.on_error_response(id + 1000, err_code, text(b"no")),
        _ => {}
    }
    let t1 = any_time();
    kani::assume(t1 >= t0);
    unsafe { SEEN.now = t1 };
    let timed_out = t1 > t0 + driver_timeout;
    if exclusive {
        let first = c.find_exclusive_publication(id);
        let second = c.find_exclusive_publication(id);
        if event == 0 {
            let (x, y) = (vok!(first, "C09: a ready exclusive publication is found"), vok!(second, "C09: a ready exclusive publication is found again"));
            assert!(Arc::ptr_eq(&x, &y), "C09: repeated lookups yield the same exclusive publication while it is held");
            {
                let g = x.lock().unwrap();
                assert!(g.registration_id() == id && g.stream_id() == stream && g.session_id() == session && g.channel_status_id() == status_id, "C09: the exclusive publication carries the ids the driver announced");
            }
            assert!(unsafe { SEEN.new_pubs } == 1 && unsafe { SEEN.last_id } == id, "C09: the new-publication callback fired once");
            std::mem::forget(x);
            std::mem::forget(y);
        } else {
            if event == 2 {
                assert!(matches!(first, Err(AeronError::RegistrationException(code, _)) if code == err_code), "C09: the driver's error is reported");
                assert!(matches!(second, Err(AeronError::Generic(GenericError::ExclusivePublicationNotFound))), "C09: the error is reported once, then the registration is gone");
            } else if timed_out {
                assert!(matches!(first, Err(AeronError::DriverTimeout(DriverInteractionError::NoResponse(_)))), "C09: unanswered registration -> driver timeout once the timeout has passed");
            } else {
                assert!(matches!(first, Err(AeronError::Generic(GenericError::ExclusivePublicationNotReadyYet { .. }))), "C09: unanswered registration is not ready before the driver timeout");
            }
            std::mem::forget(first);
            std::mem::forget(second);
        }
    } else {
        let first = c.find_publication(id);
        let second = c.find_publication(id);
        if event == 0 {
            let (x, y) = (vok!(first, "C09: a ready publication is found"), vok!(second, "C09: a ready publication is found again"));
            assert!(Arc::ptr_eq(&x, &y), "C09: repeated lookups yield the same publication while it is held");
            {
                let g = x.lock().unwrap();
                assert!(g.registration_id() == id && g.original_registration_id() == id && g.stream_id() == stream && g.session_id() == session && g.channel_status_id() == status_id, "C09: the publication carries the ids the driver announced");
            }
            assert!(unsafe { SEEN.new_pubs } == 1 && unsafe { SEEN.last_id } == id, "C09: the new-publication callback fired once");
            std::mem::forget(x);
            std::mem::forget(y);
        } else {
            if event == 2 {
                assert!(matches!(first, Err(AeronError::RegistrationException(code, _)) if code == err_code), "C09: the driver's error is reported");
                assert!(matches!(second, Err(AeronError::Generic(GenericError::PublicationNotFound))), "C09: the error is reported once, then the registration is gone");
            } else if timed_out {
                assert!(matches!(first, Err(AeronError::DriverTimeout(DriverInteractionError::NoResponse(_)))), "C09: unanswered registration -> driver timeout once the timeout has passed");
            } else {
                assert!(matches!(first, Err(AeronError::PublicationNotReady(x)) if x == id), "C09: unanswered registration is not ready before the driver timeout");
            }
            std::mem::forget(first);
            std::mem::forget(second);
        }
    }
    if event != 0 {
        assert!(unsafe { SEEN.new_pubs } == 0, "C09: answers for foreign ids do not announce a publication");
    }
    if event != 2 && event != 0 {
        let tail = b.ring_tail();
        let r = if exclusive { c.release_exclusive_publication(id) } else { c.release_publication(id) };
        assert!(r.is_ok(), "C09: releasing a known registration succeeds");
        assert!(b.ring_tail() == tail + 32 && rec_len(&mut b, 40) == 32 && rec_type(&mut b, 40) == 0x02, "C09: exactly one REMOVE_PUBLICATION command");
        assert!(rec_i64(&mut b, 40, 8) == id + 1 && rec_i64(&mut b, 40, 16) == id, "C09: remove carries a fresh correlation id and the registration id");
        let again = if exclusive { c.release_exclusive_publication(id) } else { c.release_publication(id) };
        assert!(again.is_err() && b.ring_tail() == tail + 32, "C09: a second release sends nothing");
        std::mem::forget(again);
    }
    kani::cover!(event != 4 || t1 == t0 + driver_timeout, "[must] instance reaches the end (exact registration-timeout boundary when unanswered)");
    std::mem::forget(c);
}
    };
}
// @verif tier=quick unwind=6 fs=1300 timeout=1500
pub_protocol!(c09_publication_ready_find_twice, false, 0);
// @verif tier=thorough unwind=6 fs=1300 timeout=1500
pub_protocol!(c09_exclusive_publication_ready_find_twice, true, 0);
// @verif tier=quick unwind=6 fs=1300 timeout=1500
pub_protocol!(c09_publication_unanswered_times_out, false, 4);
// @verif tier=quick unwind=6 fs=1300 timeout=1500
pub_protocol!(c09_publication_error_reported_once, false, 2);
// @verif tier=thorough unwind=6 fs=1300 timeout=1500
pub_protocol!(c09_publication_foreign_ready_ignored, false, 1);
// @verif tier=quick unwind=6 fs=1300 timeout=1500
pub_protocol!(c09_exclusive_publication_unanswered_times_out, true, 4);
// @verif tier=thorough unwind=6 fs=1300 timeout=1500
pub_protocol!(c09_exclusive_publication_error_reported_once, true, 2);
// @verif tier=thorough unwind=6 fs=1300 timeout=1500
pub_protocol!(c09_exclusive_publication_foreign_error_ignored, true, 3);

// ------------------------------------------------------------------------------------------------------------------
// C10 — the conductor survives faults.

use crate::concurrent::broadcast::broadcast_receiver::BroadcastReceiver;
use crate::concurrent::broadcast::copy_broadcast_receiver::CopyBroadcastReceiver;

/// scratch buffer of the copy receiver: 256 real bytes instead of 4096 (its nominal capacity stays 4096; CBMC's pointer
/// checks would flag any access beyond the real allocation)
fn small_alloc(_size: crate::utils::types::Index) -> *mut u8 {
    unsafe { std::alloc::alloc_zeroed(std::alloc::Layout::from_size_align_unchecked(256, 64)) }
}

/// The only AlignedBuffer in these harnesses is the copy receiver's scratch buffer, owned by the driver listener adapter:
/// reaching its deallocation means a duty cycle destroyed the adapter. The path is cut afterwards (the destructor glue
/// of the adapter's conductor handle does not leave symex).
unsafe fn no_dealloc(_p: *mut u8, _len: crate::utils::types::Index) {
    assert!(false, "C10: the driver listener adapter was destroyed by a duty cycle (no later event can be processed)");
    kani::assume(false);
}

fn put_event(m: &mut Mem<192>, at: usize, len: i32, ty: i32, body: i64) {
    m.buf().put::<i32>(at as i32, len);
    m.buf().put::<i32>(at as i32 + 4, ty);
    m.buf().put::<i64>(at as i32 + 8, body);
}

/// The driver overruns the broadcast (the client is lapped): the duty cycle reports the loss through its result, and
/// the NEXT duty cycle still works and delivers the next event - no panic, later events still processed.
// @verif tier=quick unwind=6 fs=1300 timeout=1500
#[kani::proof]
#[kani::stub(std::hash::RandomState::new, stub_random_state)]
#[kani::stub(crate::utils::misc::alloc_buffer_aligned, small_alloc)]
#[kani::stub(crate::utils::misc::dealloc_buffer_aligned, no_dealloc)]
fn c10_do_work_survives_broadcast_overrun() {
    let mut b = Bufs::new();
    let mut c = fresh(&mut b, 10_000);
    unsafe { SEEN.now = 0 };
    let mut bm = Mem::<192>::zeroed(); // 64 data bytes + 128 trailer
    let rx = match BroadcastReceiver::new(bm.buf()) {
        Ok(r) => r,
        Err(_) => unreachable!(),
    };
    let copy = Arc::new(Mutex::new(CopyBroadcastReceiver::new(Arc::new(Mutex::new(rx)))));
    c.driver_listener_adapter = Some(DriverListenerAdapter::new(copy, dummy_conductor()));
    // the driver has meanwhile transmitted two laps: tail intent = tail = 128, latest record at 112 (offset 48)
    let corr: i64 = kani::any();
    put_event(&mut bm, 48, 16, 0x0F04, corr); // operation success for some correlation id
    bm.buf().put::<i64>(64, 128);
    bm.buf().put::<i64>(72, 128);
    bm.buf().put::<i64>(80, 112);

    let first = c.do_work();
    assert!(matches!(first, Err(AeronError::BroadcastTransmitError(_))), "C10: being lapped by the driver is reported through the duty cycle's result");
    std::mem::forget(first);
    assert!(c.driver_listener_adapter.is_some(), "C10: the driver listener survives a reported fault");
    // next event arrives; the next duty cycle must process it
    put_event(&mut bm, 0, 16, 0x0F04, corr);
    bm.buf().put::<i64>(64, 144);
    bm.buf().put::<i64>(72, 144);
    bm.buf().put::<i64>(80, 128);
    let second = c.do_work();
    assert!(matches!(second, Ok(n) if n >= 1), "C10: the duty cycle after a fault runs normally and processes the next event");
    std::mem::forget(second);
    assert!(!c.is_closed(), "C10: a broadcast overrun does not close the client");
    std::mem::forget(c);
}

/// Client timeout / orderly close: everything is closed once, callbacks fire once, later API calls report that the
/// client is closed and write nothing; a timeout event for a foreign client id is ignored.
/// `with`: which Awaiting registration exists when the timeout arrives (0 none, 1 a counter, 2 a subscription, 3 a publication);
/// `api`: exercise the API after the close; `again`: deliver the timeout again and close again.
macro_rules! client_timeout {
    ($name:ident, $with:expr, $api:expr, $again:expr) => {
#[kani::proof]
#[kani::stub(std::hash::RandomState::new, stub_random_state)]
fn $name() {
    let mut b = Bufs::new();
    let mut c = fresh(&mut b, 10_000);
    unsafe { SEEN.now = 0 };
    let key = [1u8; 4];
    let with: u8 = $with;
    let rid = match with {
        1 => vok!(c.add_counter(3, &key, "ab"), "C10: add_counter"),
        2 => vok!(c.add_subscription(text(b"ch"), 5, Box::new(on_image as fn(&Image)), Box::new(on_image as fn(&Image))), "C10: add_subscription"),
        3 => vok!(c.add_publication(text(b"ch"), 6), "C10: add_publication"),
        _ => 0,
    };
    let victim: i64 = kani::any();
    c.on_client_timeout(victim);
    if victim == CLIENT_ID {
        assert!(c.is_closed(), "C10: a client-timeout event for this client closes it");
        assert!(unsafe { SEEN.errors } == 1 && unsafe { SEEN.last_error } == E_CLIENT_TIMEOUT, "C10: the client timeout is reported to the error handler once");
        assert!(unsafe { SEEN.closes } == 1, "C10: close handlers fire exactly once");
        if with != 0 {
            assert!(c.counter_by_registration_id.is_empty() && c.subscription_by_registration_id.is_empty() && c.publication_by_registration_id.is_empty(), "C10: every registration is dropped on close");
        }
        if $api {
            let tail = b.ring_tail();
            let r1 = c.add_publication(text(b"ch"), 6);
            assert!(matches!(r1, Err(AeronError::Generic(GenericError::ClientConductorClosed))), "C10: add_publication after close reports the client is closed");
            std::mem::forget(r1);
            let r2 = c.find_counter(rid);
            assert!(matches!(r2, Err(AeronError::Generic(GenericError::ClientConductorClosed))), "C10: find_counter after close reports the client is closed");
            std::mem::forget(r2);
            assert!(b.ring_tail() == tail, "C10: API calls on a closed client write nothing");
        }
        if $again {
            c.on_client_timeout(victim);
            let _ = c.on_close();
            assert!(unsafe { SEEN.errors } == 1 && unsafe { SEEN.closes } == 1, "C10: closing twice fires nothing again");
        }
    } else {
        assert!(!c.is_closed() && unsafe { SEEN.errors } == 0 && unsafe { SEEN.closes } == 0, "C10: a timeout event for another client is ignored");
    }
    kani::cover!(victim == CLIENT_ID, "[must] own timeout path");
    kani::cover!(victim != CLIENT_ID, "[must] foreign timeout path");
    std::mem::forget(c);
}
    };
}
// @verif tier=quick unwind=6 fs=1300 timeout=1200
client_timeout!(c10_client_timeout_then_api_reports_closed, 0, true, false);
// @verif tier=quick unwind=6 fs=1300 timeout=1200
client_timeout!(c10_client_timeout_twice_and_close_fire_once, 0, false, true);
// @verif tier=quick unwind=6 fs=1300 timeout=1200
client_timeout!(c10_client_timeout_awaiting_counter, 1, false, false);
// @verif tier=thorough unwind=6 fs=1300 timeout=1200
client_timeout!(c10_client_timeout_awaiting_subscription, 2, false, false);
// @verif tier=thorough unwind=6 fs=1300 timeout=1200
client_timeout!(c10_client_timeout_awaiting_publication, 3, false, false);

// ------------------------------------------------------------------------------------------------------------------
// C12 — more of the image / log-buffer bookkeeping that does not need a live subscription handle.

/// `LogBuffers::from_existing` maps a file: out of reach. In these harnesses a mapping must never be requested.
fn mapping_forbidden<P: std::fmt::Display + AsRef<std::path::Path> + Into<std::ffi::OsString>>(_file_path: P, _pre_touch: bool) -> Result<LogBuffers, AeronError> {
    assert!(false, "C12: a log file was mapped although no live subscription / publication asked for it");
    kani::assume(false);
    loop {}
}

/// An image announced for a subscription that is not (yet) usable - still awaiting the driver, or unknown - is ignored:
/// no callback, nothing mapped, no bookkeeping entry.
macro_rules! unusable_sub {
    ($name:ident, $unknown:expr) => {
#[kani::proof]
#[kani::stub(std::hash::RandomState::new, stub_random_state)]
#[kani::stub(crate::utils::log_buffers::LogBuffers::from_existing, mapping_forbidden)]
fn $name() {
    let mut b = Bufs::new();
    let mut c = fresh(&mut b, 10_000);
    unsafe { SEEN.now = 5 };
    let sid = vok!(c.add_subscription(text(b"ch"), 5, Box::new(on_image_counted as fn(&Image)), Box::new(on_image_counted as fn(&Image))), "C12: add_subscription");
    let target = if $unknown { sid + 1000 } else { sid }; // unknown subscription / subscription still awaiting the driver
    unsafe { IMG.calls = 0 };
    let (corr, session, pos_id): (i64, i32, i32) = (kani::any(), kani::any(), 0);
    c.on_available_image(corr, session, pos_id, target, text(b"f"), text(b"s"));
    assert!(unsafe { IMG.calls } == 0, "C12: no available-image callback for a subscription that is not usable");
    assert!(c.log_buffers_by_registration_id.is_empty() && c.lingering_image_lists.is_empty(), "C12: an ignored announcement leaves no bookkeeping behind");
    c.on_unavailable_image(corr, target);
    assert!(unsafe { IMG.calls } == 0, "C12: no unavailable-image callback for an image that was never announced to the user");
    std::mem::forget(c);
}
    };
}
// @verif tier=quick unwind=6 fs=1300 timeout=1200
unusable_sub!(c12_image_for_unknown_subscription_is_ignored, true);
// @verif tier=quick unwind=6 fs=1300 timeout=1200
unusable_sub!(c12_image_for_awaiting_subscription_is_ignored, false);

struct ImgSeen {
    magic: u64,
    calls: u32,
}
static mut IMG: ImgSeen = ImgSeen { magic: 0x5a5a_c12c_1396_0001, calls: 0 };
fn on_image_counted(_img: &Image) {
    unsafe { IMG.calls += 1 }
}

/// Re-acquiring log buffers that are lingering (cache hit) hands out the same mapping and cancels the linger countdown.
// @verif tier=quick unwind=6 fs=1300 timeout=1200
#[kani::proof]
#[kani::stub(std::hash::RandomState::new, stub_random_state)]
#[kani::stub(crate::utils::log_buffers::LogBuffers::from_existing, mapping_forbidden)]
fn c12_reacquired_log_buffers_stop_lingering() {
    let mut b = Bufs::new();
    let mut logmem = Mem::<{ 3 * 64 + 4096 }>::zeroed();
    let mut c = fresh(&mut b, 10_000);
    let lb = Arc::new(heap_log_buffers(&mut logmem));
    let mut defn = LogBuffersDefn::new(lb.clone());
    defn.time_of_last_state_change_ms = any_time(); // noticed unreferenced earlier: countdown running
    c.log_buffers_by_registration_id.insert(42, defn);
    let got = vok!(c.get_log_buffers(42, text(b"f"), text(b"ch")), "C12: cached log buffers are handed out");
    assert!(Arc::ptr_eq(&got, &lb), "C12: the same mapping is handed out while it exists");
    match c.log_buffers_by_registration_id.get(&42) {
        Some(d) => assert!(d.time_of_last_state_change_ms == MAX_MOMENT, "C12: memory that is in use again is no longer counting down to its release"),
        None => assert!(false, "C12: the mapping entry disappeared"),
    }
    std::mem::forget(got);
    std::mem::forget(lb);
    std::mem::forget(c);
}

// ------------------------------------------------------------------------------------------------------------------
// C14 (iii) / C09 — dispatch of a publication-ready event from the broadcast buffer into the conductor's registration.

/// mapped log of a publication: a heap LogBuffers instead of an mmap (FFI is out of reach); counts how often it is asked for
struct MapSeen {
    magic: u64,
    calls: u32,
}
static mut MAP: MapSeen = MapSeen { magic: 0x5a5a_c14d_3a90_0001, calls: 0 };
fn heap_mapping<P: std::fmt::Display + AsRef<std::path::Path> + Into<std::ffi::OsString>>(_file_path: P, _pre_touch: bool) -> Result<LogBuffers, AeronError> {
    unsafe { MAP.calls += 1 };
    let mem: &'static mut Mem<{ 3 * 64 + 4096 }> = Box::leak(Box::new(Mem::zeroed()));
    Ok(heap_log_buffers(mem))
}

/// The driver's ON_PUBLICATION_READY / ON_EXCLUSIVE_PUBLICATION_READY event (encoded here with literal protocol
/// offsets: correlation id @0, registration id @8, session @16, stream @20, limit counter id @24, channel status id @28,
/// log file name length @32, name @36) reaches the registration that asked for it with every field in its own place.
macro_rules! dispatch_pub_ready {
    ($name:ident, $exclusive:expr) => {
#[kani::proof]
#[kani::stub(std::hash::RandomState::new, stub_random_state)]
#[kani::stub(crate::utils::misc::alloc_buffer_aligned, small_alloc)]
#[kani::stub(crate::utils::misc::dealloc_buffer_aligned, no_dealloc)]
#[kani::stub(crate::utils::log_buffers::LogBuffers::from_existing, heap_mapping)]
fn $name() {
    let mut b = Bufs::new();
    let mut c = fresh(&mut b, 10_000);
    unsafe {
        SEEN.now = 0;
        MAP.calls = 0;
    }
    let exclusive: bool = $exclusive;
    let stream: i32 = kani::any();
    let id = if exclusive {
        vok!(c.add_exclusive_publication(text(b"ch"), stream), "C14: add_exclusive_publication")
    } else {
        vok!(c.add_publication(text(b"ch"), stream), "C14: add_publication")
    };
    let mut bm = Mem::<192>::zeroed(); // 64 data bytes + 128 trailer
    let rx = match BroadcastReceiver::new(bm.buf()) {
        Ok(r) => r,
        Err(_) => unreachable!(),
    };
    let copy = Arc::new(Mutex::new(CopyBroadcastReceiver::new(Arc::new(Mutex::new(rx)))));
    c.driver_listener_adapter = Some(DriverListenerAdapter::new(copy, dummy_conductor()));
    // the event: a publication added a second time shares the log of the first one, so registration id != correlation id
    let original: i64 = if exclusive { id } else { 77 };
    let (session, limit_id, status_id): (i32, i32, i32) = (kani::any(), kani::any(), kani::any());
    kani::assume(limit_id == 0 || limit_id == 1);
    let buf = bm.buf();
    buf.put::<i32>(0, 8 + 36 + 1);
    buf.put::<i32>(4, if exclusive { 0x0F06 } else { 0x0F03 });
    buf.put::<i64>(8, id);
    buf.put::<i64>(16, original);
    buf.put::<i32>(24, session);
    buf.put::<i32>(28, stream);
    buf.put::<i32>(32, limit_id);
    buf.put::<i32>(36, status_id);
    buf.put::<i32>(40, 1);
    buf.put::<u8>(44, b'f');
    buf.put::<i64>(64, 48); // tail intent
    buf.put::<i64>(72, 48); // tail
    buf.put::<i64>(80, 0); // latest

    let r = c.do_work();
    assert!(matches!(r, Ok(n) if n >= 1), "C14: the duty cycle processes the event");
    std::mem::forget(r);
    assert!(unsafe { MAP.calls } == 1, "C14: the publication's log is mapped exactly once");
    assert!(unsafe { SEEN.new_pubs } == 1 && unsafe { SEEN.last_id } == id, "C14: the new-publication callback fires once with the registration's id");
    if exclusive {
        match c.exclusive_publication_by_registration_id.get(&id) {
            Some(st) => {
                assert!(st.status == RegistrationStatus::Registered, "C14: the matching registration becomes ready");
                assert!(st.session_id == session && st.publication_limit_counter_id == limit_id && st.channel_status_id == status_id && st.buffers.is_some(), "C14: session id, limit counter id, channel status id and log reach the registration unchanged");
            }
            None => assert!(false, "C14: the registration disappeared"),
        }
    } else {
        match c.publication_by_registration_id.get(&id) {
            Some(st) => {
                assert!(st.status == RegistrationStatus::Registered, "C14: the matching registration becomes ready");
                assert!(st.original_registration_id == original, "C14: the event's registration id (the original publication sharing the log) reaches the registration");
                assert!(st.session_id == session && st.publication_limit_counter_id == limit_id && st.channel_status_id == status_id && st.buffers.is_some(), "C14: session id, limit counter id, channel status id and log reach the registration unchanged");
            }
            None => assert!(false, "C14: the registration disappeared"),
        }
        assert!(c.log_buffers_by_registration_id.get(&original).is_some(), "C14: the mapped log is kept under the original registration id");
    }
    std::mem::forget(c);
}
    };
}
// @verif tier=quick unwind=6 fs=1300 timeout=1500
dispatch_pub_ready!(c14_dispatch_publication_ready, false);
// @verif tier=thorough unwind=6 fs=1300 timeout=1500
dispatch_pub_ready!(c14_dispatch_exclusive_publication_ready, true);
// the same obligation belongs to the registration protocol (C09): the ready event of one registration reaches exactly it
// @verif tier=quick unwind=6 fs=1300 timeout=1500
dispatch_pub_ready!(c09_publication_ready_event_reaches_its_registration, false);

/// Fixed-size events through the real adapter: error response (known / foreign id), operation success, unavailable
/// counter, client timeout. Event bytes are written with literal protocol offsets.
macro_rules! dispatch_small {
    ($name:ident, $which:expr) => {
#[kani::proof]
#[kani::stub(std::hash::RandomState::new, stub_random_state)]
#[kani::stub(crate::utils::misc::alloc_buffer_aligned, small_alloc)]
#[kani::stub(crate::utils::misc::dealloc_buffer_aligned, no_dealloc)]
fn $name() {
    let mut b = Bufs::new();
    let mut c = fresh(&mut b, 10_000);
    unsafe { SEEN.now = 0 };
    let key = [1u8; 4];
    let cid = vok!(c.add_counter(3, &key, "ab"), "C14: add_counter");
    let mut bm = Mem::<192>::zeroed();
    let rx = match BroadcastReceiver::new(bm.buf()) {
        Ok(r) => r,
        Err(_) => unreachable!(),
    };
    let copy = Arc::new(Mutex::new(CopyBroadcastReceiver::new(Arc::new(Mutex::new(rx)))));
    c.driver_listener_adapter = Some(DriverListenerAdapter::new(copy, dummy_conductor()));
    let buf = bm.buf();
    let which: u8 = $which;
    let (x, y): (i64, i32) = (kani::any(), kani::any());
    if which == 0 {
        // error response: offending correlation id @0, error code @8, message length @12, message @16
        let foreign: bool = kani::any();
        let target = if foreign { cid + 1000 } else { cid };
        kani::assume(y != 4); // 4 = channel endpoint error, a different callback
        buf.put::<i32>(0, 8 + 16 + 1);
        buf.put::<i32>(4, 0x0F01);
        buf.put::<i64>(8, target);
        buf.put::<i32>(16, y);
        buf.put::<i32>(20, 1);
        buf.put::<u8>(24, b'e');
        buf.put::<i64>(64, 32);
        buf.put::<i64>(72, 32);
        let r = c.do_work();
        assert!(matches!(r, Ok(n) if n >= 1), "C14: the duty cycle processes the error event");
        std::mem::forget(r);
        match c.counter_by_registration_id.get(&cid) {
            Some(st) => {
                if foreign {
                    assert!(st.status == RegistrationStatus::Awaiting, "C14: an error for a foreign id changes no registration");
                } else {
                    assert!(st.status == RegistrationStatus::Errored && st.error_code == y && st.error_message.as_bytes().len() == 1 && st.error_message.as_bytes()[0] == b'e', "C14: error code and message reach the offending registration");
                }
            }
            None => assert!(false, "C14: the registration disappeared"),
        }
    } else if which == 1 {
        // unavailable counter: correlation id @0, counter id @8
        buf.put::<i32>(0, 8 + 12);
        buf.put::<i32>(4, 0x0F09);
        buf.put::<i64>(8, x);
        buf.put::<i32>(16, y);
        buf.put::<i64>(64, 24);
        buf.put::<i64>(72, 24);
        let r = c.do_work();
        assert!(matches!(r, Ok(n) if n >= 1), "C14: the duty cycle processes the unavailable-counter event");
        std::mem::forget(r);
        assert!(unsafe { SEEN.unavail_counters } == 1 && unsafe { SEEN.last_id } == x && unsafe { SEEN.last_counter_id } == y, "C14: registration id and counter id reach the unavailable-counter callback");
    } else {
        // client timeout: client id @0
        buf.put::<i32>(0, 8 + 8);
        buf.put::<i32>(4, 0x0F0A);
        buf.put::<i64>(8, x);
        buf.put::<i64>(64, 16);
        buf.put::<i64>(72, 16);
        let r = c.do_work();
        assert!(matches!(r, Ok(n) if n >= 1), "C14: the duty cycle processes the client-timeout event");
        std::mem::forget(r);
        assert!(c.is_closed() == (x == CLIENT_ID), "C14: the client id of a timeout event decides whether this client closes");
    }
    kani::cover!(which != 2 || x == CLIENT_ID, "[must] instance reaches the end (own client timeout when that is the event)");
    std::mem::forget(c);
}
    };
}
// @verif tier=thorough unwind=6 fs=1300 timeout=1500
dispatch_small!(c14_dispatch_error_response, 0);
// @verif tier=quick unwind=6 fs=1300 timeout=1500
dispatch_small!(c14_dispatch_unavailable_counter, 1);
// @verif tier=quick unwind=6 fs=1300 timeout=1500
dispatch_small!(c14_dispatch_client_timeout, 2);

// C11 also states: "a registration unanswered for longer than the driver timeout is reported as such - neither earlier
// nor never". Same harnesses as C09's unanswered instances (symbolic clock, exact boundary covered), run under C11 too.
// @verif tier=quick unwind=6 fs=1300 timeout=1500
sub_protocol!(c11_unanswered_subscription_times_out_on_time, 4);
// @verif tier=thorough unwind=6 fs=1300 timeout=1500
counter_protocol!(c11_unanswered_counter_times_out_on_time, 4);
// @verif tier=thorough unwind=6 fs=1300 timeout=1500
pub_protocol!(c11_unanswered_publication_times_out_on_time, false, 4);

// C10: "when the client is ... timed out" also covers the driver reclaiming the client's heartbeat counter after it missed
// the timeout event: the keep-alive check must close the client. Same step as C11's reclaimed-counter instance.
// @verif tier=quick unwind=4 fs=1300
heartbeat_step!(c10_reclaimed_heartbeat_counter_closes_client, 3);

// ------------------------------------------------------------------------------------------------------------------
// C12 — image lifecycle on a LIVE subscription (possible since the last-reference destructor paths are cut by
// `arc_last_drop_forbidden`, see there).

struct ImgEvents {
    magic: u64,
    available: u32,
    unavailable: u32,
    last_session: i32,
}
static mut IMGEV: ImgEvents = ImgEvents { magic: 0x5a5a_c12e_1396_0002, available: 0, unavailable: 0, last_session: 0 };
fn on_image_available(img: &Image) {
    unsafe {
        IMGEV.available += 1;
        IMGEV.last_session = img.session_id();
    }
}
fn on_image_unavailable(img: &Image) {
    unsafe {
        IMGEV.unavailable += 1;
        IMGEV.last_session = img.session_id();
    }
}

/// announce -> pollable + available callback once (`withdraw` = false), then withdraw -> unavailable callback once, image
/// gone; second withdrawal and withdrawal of an unknown image ignored (`withdraw` = true).
macro_rules! image_lifecycle {
    ($name:ident, $withdraw:expr) => {
#[kani::proof]
#[kani::stub(std::hash::RandomState::new, stub_random_state)]
#[kani::stub(std::sync::Arc::drop_slow, arc_last_drop_forbidden)]
#[kani::stub(crate::utils::log_buffers::LogBuffers::from_existing, heap_mapping)]
fn $name() {
    let mut b = Bufs::new();
    let mut c = fresh(&mut b, 10_000);
    unsafe {
        SEEN.now = 5;
        MAP.calls = 0;
        IMGEV.available = 0;
        IMGEV.unavailable = 0;
    }
    let sid = vok!(c.add_subscription(text(b"ch"), 5, Box::new(on_image_available as fn(&Image)), Box::new(on_image_unavailable as fn(&Image))), "C12: add_subscription");
    c.on_subscription_ready(sid, 3);
    let sub = vok!(c.find_subscription(sid), "C12: the subscription is usable");
    let (corr, session): (i64, i32) = (kani::any(), kani::any());
    c.on_available_image(corr, session, 0, sid, text(b"f"), text(b"s"));
    assert!(unsafe { IMGEV.available } == 1 && unsafe { IMGEV.last_session } == session, "C12: an announced image is reported available exactly once");
    assert!(unsafe { MAP.calls } == 1, "C12: the image's log is mapped once");
    {
        let g = sub.lock().unwrap();
        assert!(g.image_count() == 1, "C12: the announced image becomes pollable");
    }
    if $withdraw {
        c.on_unavailable_image(corr.wrapping_add(1), sid);
        assert!(unsafe { IMGEV.unavailable } == 0, "C12: withdrawing an unknown image is ignored");
        c.on_unavailable_image(corr, sid);
        assert!(unsafe { IMGEV.unavailable } == 1 && unsafe { IMGEV.last_session } == session, "C12: a withdrawn image is reported unavailable exactly once");
        {
            let g = sub.lock().unwrap();
            assert!(g.image_count() == 0, "C12: a withdrawn image is no longer polled");
        }
        c.on_unavailable_image(corr, sid);
        assert!(unsafe { IMGEV.unavailable } == 1 && unsafe { IMGEV.available } == 1, "C12: a repeated withdrawal is ignored");
    }
    std::mem::forget(sub);
    std::mem::forget(c);
}
    };
}
// NOT DECIDED (tier=off): Image::create + Subscription::add_image (copy-on-write clone of the image vector) run out of
// memory at 20-24 GB even with the destructor paths cut.
// @verif tier=off unwind=6 fs=1300 timeout=1500 mem=20
image_lifecycle!(c12_image_announced_once_and_pollable, false);
// @verif tier=off unwind=6 fs=1300 timeout=2400 mem=24
image_lifecycle!(c12_image_withdrawn_once, true);

// ------------------------------------------------------------------------------------------------------------------
// C10 — close with LIVE handles.

/// The client is timed out while the user holds a counter: it is closed, the unavailable-counter callback fires exactly
/// once, the registration is dropped, close handlers fire once, later lookups report the closed client.
// @verif tier=quick unwind=6 fs=1300 timeout=1200
#[kani::proof]
#[kani::stub(std::hash::RandomState::new, stub_random_state)]
#[kani::stub(std::sync::Arc::drop_slow, arc_last_drop_forbidden)]
fn c10_client_timeout_closes_live_counter() {
    let mut b = Bufs::new();
    let mut c = fresh(&mut b, 10_000);
    unsafe { SEEN.now = 5 };
    let key = [1u8; 4];
    let cid = vok!(c.add_counter(3, &key, "ab"), "C10: add_counter");
    c.on_available_counter(cid, 1);
    let counter = vok!(c.find_counter(cid), "C10: the counter is usable");
    unsafe {
        SEEN.errors = 0;
        SEEN.closes = 0;
        SEEN.unavail_counters = 0;
    }
    c.on_client_timeout(CLIENT_ID);
    assert!(c.is_closed(), "C10: a client-timeout event closes the client");
    assert!(counter.is_closed(), "C10: every counter handle is closed when the client is timed out");
    assert!(unsafe { SEEN.unavail_counters } == 1 && unsafe { SEEN.last_id } == cid && unsafe { SEEN.last_counter_id } == 1, "C10: the unavailable-counter callback fires exactly once for the held counter");
    assert!(unsafe { SEEN.errors } == 1 && unsafe { SEEN.last_error } == E_CLIENT_TIMEOUT && unsafe { SEEN.closes } == 1, "C10: the timeout is reported once and close handlers fire once");
    assert!(c.counter_by_registration_id.is_empty(), "C10: every registration is dropped on close");
    std::mem::forget(counter);
    std::mem::forget(c);
}
