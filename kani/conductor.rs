//! Harnesses that need ClientConductor's private state (child module of client_conductor.rs via hook H3).
#![allow(dead_code, unused_imports, unused_variables, unused_mut)]
