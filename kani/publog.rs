//! Shared scaffolding for publication / image level harnesses (regime R1: one contiguous log object, `fs=` raised,
//! every offset and length concrete per instance; ids, limits, flags, payload values symbolic).
use super::util::*;
use crate::client_conductor::ClientConductor;
use crate::concurrent::atomic_buffer::AtomicBuffer;
use crate::concurrent::logbuffer::log_buffer_descriptor as lbd;
use crate::concurrent::position::UnsafeBufferPosition;
use crate::exclusive_publication::ExclusivePublication;
use crate::publication::Publication;
use crate::utils::log_buffers::LogBuffers;
use std::ffi::CString;
use std::mem::MaybeUninit;
use std::sync::{Arc, Mutex};

pub const TL: usize = 512; // term length: max message = TL/8 = 64
pub const MTU: i32 = 64; // => max payload 32: 33..=64 bytes fragment into two frames
pub const LOGLEN: usize = 3 * TL + 4096;
pub const META: usize = 3 * TL;
/// Term ids are concrete at this level: a symbolic term id makes the raw-tail word symbolic, CBMC then cannot see that
/// `raw_tail & 0xFFFF_FFFF` is a constant and every frame offset becomes a symbolic index into the log object (15 min+).
/// i32::MAX - 1 makes the term id wrap after two terms; full-width symbolic term ids are decided in C17.
pub const INITIAL_TERM_ID: i32 = i32::MAX - 1;

pub struct PubLog {
    pub mem: Mem<LOGLEN>,
    pub counters: Mem<128>,
    pub initial: i32,
    pub count: i32,
    pub tail: i32,
    pub session: i32,
    pub stream: i32,
}

impl PubLog {
    /// The state a driver hands over / any reachable state: `count` elapsed terms (concrete), tail offset (concrete),
    /// initial term id symbolic; the other two tails hold term ids t-2 and t-1 by index (rotation invariant).
    pub fn new(count: i32, tail: i32) -> PubLog {
        pretouch();
        let mut p = PubLog { mem: Mem::zeroed(), counters: Mem::zeroed(), initial: INITIAL_TERM_ID, count, tail, session: kani::any(), stream: kani::any() };
        let t = p.term_id();
        let c = count as i64;
        let (idx, nidx, pidx) = ((c % 3) as i32, ((c + 1) % 3) as i32, ((c + 2) % 3) as i32);
        let m = p.meta();
        m.put::<i64>(idx * 8, pack_tail(t, tail));
        m.put::<i64>(nidx * 8, pack_tail(t.wrapping_sub(2), 0));
        m.put::<i64>(pidx * 8, pack_tail(t.wrapping_sub(1), 0));
        m.put::<i32>(*lbd::LOG_ACTIVE_TERM_COUNT_OFFSET, count);
        m.put::<i32>(*lbd::LOG_INITIAL_TERM_ID_OFFSET, p.initial);
        m.put::<i32>(*lbd::LOG_MTU_LENGTH_OFFSET, MTU);
        m.put::<i32>(*lbd::LOG_TERM_LENGTH_OFFSET, TL as i32);
        m.put::<i32>(*lbd::LOG_PAGE_SIZE_OFFSET, 4096);
        m.put::<i32>(lbd::LOG_DEFAULT_FRAME_HEADER_OFFSET + 12, p.session);
        m.put::<i32>(lbd::LOG_DEFAULT_FRAME_HEADER_OFFSET + 16, p.stream);
        p
    }
    pub fn term_id(&self) -> i32 {
        self.initial.wrapping_add(self.count)
    }
    pub fn partition(&self) -> usize {
        (self.count as i64 % 3) as usize
    }
    pub fn meta(&mut self) -> AtomicBuffer {
        self.mem.window(META, 4096)
    }
    pub fn set_connected(&mut self, v: i32) {
        self.meta().put::<i32>(*lbd::LOG_IS_CONNECTED_OFFSET, v);
    }
    pub fn set_limit(&mut self, v: i64) {
        self.counters.buf().put::<i64>(0, v);
    }
    pub fn log_buffers(&mut self) -> Arc<LogBuffers> {
        Arc::new(unsafe { LogBuffers::new(self.mem.0.as_mut_ptr(), LOGLEN as isize, TL as i32) })
    }
    pub fn raw_tail_of(&mut self, partition: usize) -> i64 {
        self.meta().get::<i64>(partition as i32 * 8)
    }
    pub fn active_count(&mut self) -> i32 {
        self.meta().get::<i32>(*lbd::LOG_ACTIVE_TERM_COUNT_OFFSET)
    }
    /// stream position of the tail before the operation (mathematical value)
    pub fn position(&self) -> i64 {
        (self.count as i64) * TL as i64 + self.tail as i64
    }
    pub fn limit_position(&mut self) -> UnsafeBufferPosition {
        UnsafeBufferPosition::new(self.counters.buf(), 0)
    }
    pub fn publication(&mut self) -> Publication {
        let lb = self.log_buffers();
        let lim = self.limit_position();
        Publication::new(dummy_conductor(), unsafe { CString::from_vec_unchecked(vec![b'c']) }, 7, 7, self.stream, self.session, lim, -1, lb)
    }
    pub fn exclusive_publication(&mut self) -> ExclusivePublication {
        let lb = self.log_buffers();
        let lim = self.limit_position();
        ExclusivePublication::new(dummy_conductor(), unsafe { CString::from_vec_unchecked(vec![b'c']) }, 7, self.stream, self.session, lim, -1, lb)
    }
    /// byte `i` of term partition `p`
    pub fn term_byte(&self, p: usize, i: usize) -> u8 {
        self.mem.0[p * TL + i]
    }
}

/// A conductor handle that offer/try_claim/position never dereference. The object holding it must be `mem::forget`-ed.
pub fn dummy_conductor() -> Arc<Mutex<ClientConductor>> {
    #[allow(invalid_value)]
    Arc::new(Mutex::new(unsafe { MaybeUninit::<ClientConductor>::uninit().assume_init() }))
}
