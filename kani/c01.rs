//! C01 harnesses.
