//! C01 — stream fidelity, producer side at appender level (regime R2: 256-byte term, separate small meta buffer).
//! Oracle: the Aeron data frame layout written as literal offsets (0 length, 4 version, 5 flags, 6 type, 8 term offset,
//! 12 session, 16 stream, 20 term id, 24 reserved value, 32 payload) and the closed-form frame placement.
use super::util::*;
use crate::concurrent::atomic_buffer::AtomicBuffer;
use crate::concurrent::logbuffer::buffer_claim::BufferClaim;
use crate::concurrent::logbuffer::exclusive_term_appender::ExclusiveTermAppender;
use crate::concurrent::logbuffer::header::HeaderWriter;
use crate::concurrent::logbuffer::term_appender::TermAppender;
use crate::utils::errors::AeronError;

pub const T: usize = 256;
pub const PAYLOAD: i32 = 32; // MTU payload used for fragmentation at appender level

pub fn supplier(_b: AtomicBuffer, off: i32, len: i32) -> i64 {
    reserved_for(off, len)
}
pub fn reserved_for(off: i32, len: i32) -> i64 {
    0x1122_3344_5566_7788 ^ ((off as i64) << 16) ^ len as i64
}

pub fn rd_i32(m: &[u8], at: usize) -> i32 {
    i32::from_le_bytes([m[at], m[at + 1], m[at + 2], m[at + 3]])
}
pub fn rd_u16(m: &[u8], at: usize) -> u16 {
    u16::from_le_bytes([m[at], m[at + 1]])
}
pub fn rd_i64(m: &[u8], at: usize) -> i64 {
    i64::from_le_bytes([m[at], m[at + 1], m[at + 2], m[at + 3], m[at + 4], m[at + 5], m[at + 6], m[at + 7]])
}

pub struct Log {
    pub term: Mem<T>,
    pub before: [u8; T],
    pub meta: Mem<32>,
    pub hdr: Mem<32>,
    pub term_id: i32,
    pub session: i32,
    pub stream: i32,
}

impl Log {
    /// arbitrary prior term contents; partition 0's raw tail = (term_id, tail)
    pub fn new(tail: i32) -> Log {
        let content: [u8; T] = kani::any();
        let (session, stream, term_id): (i32, i32, i32) = (kani::any(), kani::any(), kani::any());
        let mut l = Log { term: Mem(content), before: content, meta: Mem::zeroed(), hdr: Mem::zeroed(), term_id, session, stream };
        l.hdr.buf().put::<i32>(12, session);
        l.hdr.buf().put::<i32>(16, stream);
        l.meta.buf().put::<i64>(0, pack_tail(term_id, tail));
        l
    }
    pub fn raw_tail(&mut self) -> i64 {
        self.meta.buf().get::<i64>(0)
    }
    /// header of a committed frame at `off` is exactly what the protocol prescribes
    pub fn frame_ok(&self, off: usize, frame_len: i32, ty: u16, flags: u8, reserved: Option<i64>) -> bool {
        let m = &self.term.0;
        rd_i32(m, off) == frame_len
            && m[off + 4] == 0
            && m[off + 5] == flags
            && rd_u16(m, off + 6) == ty
            && rd_i32(m, off + 8) == off as i32
            && rd_i32(m, off + 12) == self.session
            && rd_i32(m, off + 16) == self.stream
            && rd_i32(m, off + 20) == self.term_id
            && match reserved {
                Some(r) => rd_i64(m, off + 24) == r,
                None => true,
            }
    }
    /// a symbolic byte outside [lo, hi) is unchanged
    pub fn unchanged_outside(&self, lo: usize, hi: usize) -> bool {
        let i: usize = kani::any();
        kani::assume(i < T && (i < lo || i >= hi));
        self.term.0[i] == self.before[i]
    }
}

fn any_tail() -> i32 {
    let slot: i32 = kani::any();
    kani::assume((0..=10).contains(&slot)); // 0 ..= T+64, i.e. including tails that already overshot the term
    slot * 32
}

fn any_len(max: i32) -> i32 {
    let len: i32 = kani::any();
    kani::assume((0..=max).contains(&len));
    len
}

// A copy whose destination offset AND size are both symbolic costs > 10 M SAT variables even on a 256-byte term
// (measured), so each instance makes one of them symbolic: `any_tail()` with a concrete length, or a concrete tail
// with `any_len(64)`. Term id, session/stream ids, payload bytes and prior term contents are always symbolic.
macro_rules! unfrag_step {
    ($name:ident, $tail:expr, $len:expr) => {
        #[kani::proof]
        fn $name() {
            pretouch();
            let tail: i32 = $tail;
            let mut l = Log::new(tail);
            let mut src: [u8; 64] = kani::any();
            let len: i32 = $len;
            let hw = HeaderWriter::new(l.hdr.buf());
            let a = TermAppender::new(l.term.buf(), l.meta.buf(), 0);
            let r = a.append_unfragmented_message(&hw, &AtomicBuffer::new(src.as_mut_ptr(), 64), 0, len, supplier, l.term_id);
            let aligned = align32(32 + len as i64) as i32;
            let res = vok!(r, "C01: append with the matching term id returns a result");
            assert!(l.raw_tail() == pack_tail(l.term_id, tail + aligned), "C01: raw tail advances by exactly the aligned frame length");
            if tail + aligned <= T as i32 {
                let off = tail as usize;
                assert!(res == tail + aligned, "C01: resulting offset is the end of the frame");
                assert!(l.frame_ok(off, 32 + len, 1, 0xC0, Some(reserved_for(tail, 32 + len))), "C01: committed frame header as prescribed (length, unfragmented flags, DATA, offsets, ids, reserved value)");
                if len > 0 {
                    let j: usize = kani::any();
                    kani::assume(j < len as usize);
                    assert!(l.term.0[off + 32 + j] == src[j], "C01: payload byte-identical");
                }
                assert!(l.unchanged_outside(off, off + aligned as usize), "C01: nothing outside the claimed frame is written");
            } else {
                assert!(res == -2, "C01: end of term reports TERM_APPENDER_FAILED");
                if tail < T as i32 {
                    let off = tail as usize;
                    assert!(l.frame_ok(off, T as i32 - tail, 0, 0xC0, None), "C01: exactly one padding frame fills the remainder of the term");
                    assert!(l.unchanged_outside(off, off + 32), "C01: only the padding header is written at the end of the term");
                } else {
                    assert!(l.unchanged_outside(0, 0), "C01: a tail at or beyond the term end writes nothing");
                }
            }
            kani::cover!(res > 0, "accepted path");
            kani::cover!(res == -2, "end-of-term path");
            kani::cover!(res > 0 || res == -2, "[must] append returns");
        }
    };
}
// @verif tier=quick unwind=4
unfrag_step!(c01_append_unfragmented_any_tail_len17, any_tail(), 17);
// @verif tier=quick unwind=4
unfrag_step!(c01_append_unfragmented_any_tail_len64, any_tail(), 64);
// @verif tier=thorough unwind=4
unfrag_step!(c01_append_unfragmented_any_tail_len0, any_tail(), 0);
// @verif tier=thorough unwind=4
unfrag_step!(c01_append_unfragmented_any_tail_len32, any_tail(), 32);
// @verif tier=quick unwind=4
unfrag_step!(c01_append_unfragmented_tail192_any_len, 192, any_len(64));
// @verif tier=thorough unwind=4
unfrag_step!(c01_append_unfragmented_tail0_any_len, 0, any_len(64));
// @verif tier=thorough unwind=4
unfrag_step!(c01_append_unfragmented_tail224_any_len, 224, any_len(64));

/// A stale caller (active term id differs from the tail's term id) is refused and no frame is written.
// @verif tier=quick unwind=4
#[kani::proof]
fn c01_append_stale_term_is_refused() {
    pretouch();
    let tail = any_tail();
    let mut l = Log::new(tail);
    let mut src: [u8; 64] = kani::any();
    let len: i32 = 40;
    let other: i32 = kani::any();
    kani::assume(other != l.term_id);
    let hw = HeaderWriter::new(l.hdr.buf());
    let a = TermAppender::new(l.term.buf(), l.meta.buf(), 0);
    let r = a.append_unfragmented_message(&hw, &AtomicBuffer::new(src.as_mut_ptr(), 64), 0, len, supplier, other);
    assert!(r.is_err(), "C01: append with a stale term id must fail");
    assert!(l.unchanged_outside(0, 0), "C01: a refused append writes nothing into the term");
    std::mem::forget(r);
}

macro_rules! frag_step {
    ($name:ident, $tail:expr, $len:expr) => {
        #[kani::proof]
        fn $name() {
            pretouch();
            let tail: i32 = $tail;
            let mut l = Log::new(tail);
            let mut src: [u8; 96] = kani::any();
            let len: i32 = $len;
            let hw = HeaderWriter::new(l.hdr.buf());
            let a = TermAppender::new(l.term.buf(), l.meta.buf(), 0);
            let r = a.append_fragmented_message(&hw, &AtomicBuffer::new(src.as_mut_ptr(), 96), 0, len, PAYLOAD, supplier, l.term_id);
            let res = vok!(r, "C01: fragmented append with the matching term id returns a result");
            let full = len / 32;
            let rem = len % 32;
            let n = full + if rem > 0 { 1 } else { 0 };
            let required = full * 64 + if rem > 0 { align32(32 + rem as i64) as i32 } else { 0 };
            assert!(l.raw_tail() == pack_tail(l.term_id, tail + required), "C01: raw tail advances by the sum of the aligned fragment lengths");
            if tail + required <= T as i32 {
                assert!(res == tail + required, "C01: resulting offset is the end of the last fragment");
                let i: i32 = kani::any();
                kani::assume(0 <= i && i < n);
                let off = (tail + 64 * i) as usize;
                let plen = if i < full { 32 } else { rem };
                let flags: u8 = (if i == 0 { 0x80 } else { 0 }) | (if i == n - 1 { 0x40 } else { 0 });
                assert!(l.frame_ok(off, 32 + plen, 1, flags, Some(reserved_for(off as i32, 32 + plen))), "C01: every fragment header as prescribed (BEGIN on first, END on last, DATA, ids, offsets)");
                let j: usize = kani::any();
                kani::assume(j < len as usize);
                assert!(l.term.0[tail as usize + 64 * (j / 32) + 32 + j % 32] == src[j], "C01: fragmented payload byte-identical and in order");
                assert!(l.unchanged_outside(tail as usize, (tail + required) as usize), "C01: nothing outside the claimed fragments is written");
            } else {
                assert!(res == -2, "C01: end of term reports TERM_APPENDER_FAILED");
                assert!(l.frame_ok(tail as usize, T as i32 - tail, 0, 0xC0, None), "C01: exactly one padding frame fills the remainder of the term");
                assert!(l.unchanged_outside(tail as usize, tail as usize + 32), "C01: a message that straddles the term end writes no data frame");
            }
            kani::cover!(res == -2 || res > 0, "[must] append returns");
        }
    };
}
// @verif tier=quick unwind=5
frag_step!(c01_append_fragmented_tail0_len96_exact_multiple, 0, 96);
// @verif tier=quick unwind=5
frag_step!(c01_append_fragmented_tail96_len33, 96, 33);
// @verif tier=thorough unwind=5
frag_step!(c01_append_fragmented_tail64_len65, 64, 65);
// @verif tier=thorough unwind=5
frag_step!(c01_append_fragmented_tail128_len64_fills_term, 128, 64);
// @verif tier=quick unwind=5
frag_step!(c01_append_fragmented_tail160_len65_straddles, 160, 65);

/// Exclusive appender: unfragmented step from any tail.
// @verif tier=quick unwind=4
#[kani::proof]
fn c01_exclusive_append_unfragmented_step() {
    pretouch();
    let tail = any_tail();
    kani::assume(tail <= T as i32); // the exclusive publication never calls with an offset beyond the term
    let mut l = Log::new(tail);
    let mut src: [u8; 64] = kani::any();
    let len: i32 = 33;
    let hw = HeaderWriter::new(l.hdr.buf());
    let mut a = ExclusiveTermAppender::new(l.term.buf(), l.meta.buf(), 0);
    let res = a.append_unfragmented_message(l.term_id, tail, &hw, AtomicBuffer::new(src.as_mut_ptr(), 64), 0, len, supplier);
    let aligned = align32(32 + len as i64) as i32;
    assert!(l.raw_tail() == pack_tail(l.term_id, tail + aligned), "C01: exclusive raw tail = (term id, tail + aligned length)");
    if tail + aligned <= T as i32 {
        let off = tail as usize;
        assert!(res == tail + aligned, "C01: resulting offset is the end of the frame");
        assert!(l.frame_ok(off, 32 + len, 1, 0xC0, Some(reserved_for(tail, 32 + len))), "C01: committed frame header as prescribed");
        let j: usize = kani::any();
        kani::assume(j < len as usize);
        assert!(l.term.0[off + 32 + j] == src[j], "C01: payload byte-identical");
        assert!(l.unchanged_outside(off, off + aligned as usize), "C01: nothing outside the claimed frame is written");
    } else {
        assert!(res == -2, "C01: end of term reports TERM_APPENDER_FAILED");
        if tail < T as i32 {
            assert!(l.frame_ok(tail as usize, T as i32 - tail, 0, 0xC0, None), "C01: exactly one padding frame fills the remainder of the term");
            assert!(l.unchanged_outside(tail as usize, tail as usize + 32), "C01: only the padding header is written");
        } else {
            assert!(l.unchanged_outside(0, 0), "C01: a full term is not written");
        }
    }
}

macro_rules! excl_frag_step {
    ($name:ident, $tail:expr, $len:expr) => {
        #[kani::proof]
        fn $name() {
            pretouch();
            let tail: i32 = $tail;
            let mut l = Log::new(tail);
            let mut src: [u8; 96] = kani::any();
            let len: i32 = $len;
            let hw = HeaderWriter::new(l.hdr.buf());
            let mut a = ExclusiveTermAppender::new(l.term.buf(), l.meta.buf(), 0);
            let res = a.append_fragmented_message(l.term_id, tail, &hw, AtomicBuffer::new(src.as_mut_ptr(), 96), 0, len, PAYLOAD, supplier);
            let full = len / 32;
            let rem = len % 32;
            let n = full + if rem > 0 { 1 } else { 0 };
            let required = full * 64 + if rem > 0 { align32(32 + rem as i64) as i32 } else { 0 };
            assert!(l.raw_tail() == pack_tail(l.term_id, tail + required), "C01: exclusive raw tail advances by the sum of the aligned fragment lengths");
            if tail + required <= T as i32 {
                assert!(res == tail + required, "C01: resulting offset is the end of the last fragment");
                let i: i32 = kani::any();
                kani::assume(0 <= i && i < n);
                let off = (tail + 64 * i) as usize;
                let plen = if i < full { 32 } else { rem };
                let flags: u8 = (if i == 0 { 0x80 } else { 0 }) | (if i == n - 1 { 0x40 } else { 0 });
                assert!(l.frame_ok(off, 32 + plen, 1, flags, Some(reserved_for(off as i32, 32 + plen))), "C01: every fragment header as prescribed");
                let j: usize = kani::any();
                kani::assume(j < len as usize);
                assert!(l.term.0[tail as usize + 64 * (j / 32) + 32 + j % 32] == src[j], "C01: fragmented payload byte-identical and in order");
                assert!(l.unchanged_outside(tail as usize, (tail + required) as usize), "C01: nothing outside the claimed fragments is written");
            } else {
                assert!(res == -2, "C01: end of term reports TERM_APPENDER_FAILED");
                assert!(l.frame_ok(tail as usize, T as i32 - tail, 0, 0xC0, None), "C01: exactly one padding frame fills the remainder of the term");
                assert!(l.unchanged_outside(tail as usize, tail as usize + 32), "C01: a message that straddles the term end writes no data frame");
            }
        }
    };
}
// @verif tier=quick unwind=5
excl_frag_step!(c01_exclusive_append_fragmented_tail32_len70, 32, 70);
// @verif tier=thorough unwind=5
excl_frag_step!(c01_exclusive_append_fragmented_tail128_len96_straddles, 128, 96);
// @verif tier=quick unwind=5
excl_frag_step!(c01_exclusive_append_fragmented_tail64_len96_exact_multiple, 64, 96);

/// claim -> (write) -> commit / abort, shared appender.
// @verif tier=quick unwind=4
#[kani::proof]
fn c01_claim_commit_abort() {
    pretouch();
    let tail = any_tail();
    let mut l = Log::new(tail);
    let len: i32 = kani::any();
    kani::assume((0..=64).contains(&len));
    let hw = HeaderWriter::new(l.hdr.buf());
    let a = TermAppender::new(l.term.buf(), l.meta.buf(), 0);
    let mut claim = BufferClaim::default();
    let r = a.claim(&hw, len, &mut claim, l.term_id);
    let res = vok!(r, "C01: claim with the matching term id returns a result");
    let aligned = align32(32 + len as i64) as i32;
    assert!(l.raw_tail() == pack_tail(l.term_id, tail + aligned), "C01: claim advances the raw tail by the aligned frame length");
    if tail + aligned <= T as i32 {
        let off = tail as usize;
        assert!(res == tail + aligned, "C01: claim returns the end of the claimed frame");
        assert!(rd_i32(&l.term.0, off) == -(32 + len), "C01: a claimed frame stays uncommitted (negative length) until commit");
        assert!(claim.length() == len && claim.offset() == 32, "C01: the claim exposes exactly the payload range");
        assert!(claim.buffer().buffer() as usize == l.term.0.as_ptr() as usize + off, "C01: the claim is located at the claimed frame");
        let fill: u8 = kani::any();
        let j: usize = kani::any();
        kani::assume(j < len as usize);
        claim.buffer().put::<u8>(32 + j as i32, fill);
        let abort: bool = kani::any();
        if abort {
            claim.abort();
            assert!(l.frame_ok(off, 32 + len, 0, 0xC0, None), "C01: an aborted claim becomes a padding frame of the same length");
        } else {
            claim.commit();
            assert!(l.frame_ok(off, 32 + len, 1, 0xC0, None), "C01: a committed claim is a DATA frame with the claimed length");
            assert!(l.term.0[off + 32 + j] == fill, "C01: bytes written through the claim are the payload");
        }
        assert!(l.unchanged_outside(off, off + aligned as usize), "C01: nothing outside the claimed frame is written");
    } else {
        assert!(res == -2, "C01: end of term reports TERM_APPENDER_FAILED");
        if tail < T as i32 {
            assert!(l.frame_ok(tail as usize, T as i32 - tail, 0, 0xC0, None), "C01: exactly one padding frame fills the remainder of the term");
        }
    }
}

/// claim -> commit / abort, exclusive appender.
// @verif tier=quick unwind=4
#[kani::proof]
fn c01_exclusive_claim_commit_abort() {
    pretouch();
    let tail = any_tail();
    kani::assume(tail <= T as i32);
    let mut l = Log::new(tail);
    let len: i32 = kani::any();
    kani::assume((0..=64).contains(&len));
    let hw = HeaderWriter::new(l.hdr.buf());
    let mut a = ExclusiveTermAppender::new(l.term.buf(), l.meta.buf(), 0);
    let mut claim = BufferClaim::default();
    let res = a.claim(l.term_id, tail, &hw, len, &mut claim);
    let aligned = align32(32 + len as i64) as i32;
    assert!(l.raw_tail() == pack_tail(l.term_id, tail + aligned), "C01: exclusive claim sets the raw tail to the end of the claimed frame");
    if tail + aligned <= T as i32 {
        let off = tail as usize;
        assert!(res == tail + aligned, "C01: claim returns the end of the claimed frame");
        assert!(rd_i32(&l.term.0, off) == -(32 + len), "C01: a claimed frame stays uncommitted until commit");
        assert!(claim.length() == len, "C01: the claim exposes exactly the payload range");
        if kani::any() {
            claim.abort();
            assert!(l.frame_ok(off, 32 + len, 0, 0xC0, None), "C01: an aborted claim becomes a padding frame of the same length");
        } else {
            claim.commit();
            assert!(l.frame_ok(off, 32 + len, 1, 0xC0, None), "C01: a committed claim is a DATA frame with the claimed length");
        }
        assert!(l.unchanged_outside(off, off + aligned as usize), "C01: nothing outside the claimed frame is written");
    } else {
        assert!(res == -2, "C01: end of term reports TERM_APPENDER_FAILED");
    }
}
