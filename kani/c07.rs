//! C07 harnesses.
