//! C07 — the command ring survives a producer dying mid-write; `unblock` never corrupts it.
//!
//! Two glued obligations (same regime and vocabulary as c06.rs: literal layout per arm, symbolic values):
//!  f. producer side — the real `write` is stopped forever after its k-th shared-memory access (hook crash prefix, every
//!     k, solver-chosen and case-split), claim placements incl. claims that WRAPPED, optionally followed by a
//!     surviving producer's complete write: the ring then satisfies the predicate `dead_claim` (asserted field by field
//!     in `crash_at`): the producer position covers the claim; the claim's length word is 0 (then the whole claim is
//!     still zero) or -length (then the type word is set) or +length only when type and bytes are in place; a wrap
//!     padding slot is untouched or a complete padding record, and untouched implies the record part is untouched;
//!     nothing outside the claim changed; the survivor's record is complete behind the claim.
//!  g. consumer side — from rings satisfying `dead_claim`, constructed directly (literal indices, symbolic contents):
//!     `unblock()`, `read`, drain, a fresh `write`, drain.
use super::c06::*;
use super::hook;
use super::util::*;
use crate::command::control_protocol_events::AeronCommand;
use crate::concurrent::ring_buffer::ManyToOneRingBuffer;

fn align8(v: i64) -> i64 {
    (v + 7) / 8 * 8
}

// ------------------------------------------------------------------------------------------------------------------
// f.  producer side: crash prefix inside the real write
// ------------------------------------------------------------------------------------------------------------------

#[derive(Copy, Clone, Default)]
pub struct CrashSeen {
    pub before_claim: bool,
    pub zero_len: bool,
    pub neg_len: bool,
    pub committed: bool,
    pub pad_unwritten: bool,
    pub pad_written_record_not: bool,
    pub survivor_ok: bool,
    pub survivor_refused: bool,
}

/// Empty zeroed ring at `head`, optional earlier record (`prefill` bytes, -1 = none); producer A writes `la` bytes and
/// is stopped forever after its k-th access; then (lb >= 0) surviving producer B performs a complete write of `lb` bytes.
fn crash_at(k: u32, head: i64, prefill: i32, la: i32, lb: i32, seen: &mut CrashSeen) {
    let m = ring_mem();
    set_positions(m, head, head, head);
    let rb = ring();
    if prefill >= 0 {
        let _ = produce(&rb, TYPES[0], prefill);
    }
    let tail = m.i64_at(TAIL_AT);
    let mut src_a = Mem::<8>::any();
    let p: usize = kani::any();
    kani::assume(p < N);
    let before = m.byte(p);
    hook::begin(k, u32::MAX, None, false);
    let _ = rb.write(CMD_A, src_a.buf(), 0, la);
    let n = hook::end();
    let sp = spec_place(head, tail, la as i64);
    assert!(sp.accept, "C07: harness instance: the dying producer's record fits");
    let t2 = m.i64_at(TAIL_AT);
    let in_hcache = p >= HCACHE_AT && p < HCACHE_AT + 8;
    let in_tail = p >= TAIL_AT && p < TAIL_AT + 8;
    assert!(m.i64_at(HEAD_AT) == head, "C07: a producer never moves the consumer position");
    if t2 == tail {
        assert!(in_hcache || m.byte(p) == before, "C07: a producer that dies before its claim leaves the ring untouched");
        seen.before_claim = true;
    } else {
        assert!(t2 == sp.new_tail, "C07: the producer position covers exactly the dead claim (record + wrap padding)");
        let lw = m.i32_at(sp.index);
        let rl = la + 8;
        assert!(lw == 0 || lw == -rl || lw == rl, "C07: the claim's length word is 0, -length, or +length");
        let q: usize = kani::any();
        kani::assume(q >= sp.index && q < sp.index + sp.required as usize);
        if lw == 0 {
            assert!(m.byte(q) == 0, "C07: a claim whose length word is still zero is entirely zero");
            seen.zero_len = true;
        } else {
            assert!(m.i32_at(sp.index + 4) == CMD_A as i32, "C07: a non-zero length word comes with the type word");
            assert!(q < sp.index + 8 + la as usize || m.byte(q) == 0, "C07: alignment slack of the claim stays zero");
            assert!(q < sp.index + 8 || q >= sp.index + 8 + la as usize || m.byte(q) == 0 || m.byte(q) == src_a.0[q - sp.index - 8],
                "C07: message bytes inside the claim are either not yet copied or the producer's bytes");
        }
        if lw == rl {
            assert!(record_is(m, sp.index, la, CMD_A as i32, &src_a.0), "C07: the length word turns positive only after type and bytes are in place");
            seen.committed = true;
        }
        if lw == -rl {
            seen.neg_len = true;
        }
        let mut in_pad = false;
        if sp.padding != 0 {
            let pw = m.i32_at(sp.tail_index);
            let pt = m.i32_at(sp.tail_index + 4);
            assert!((pw == 0 && pt == 0) || (pw == sp.padding as i32 && pt == -1), "C07: the wrap padding slot is untouched or a complete padding record");
            if pw == 0 {
                assert!(lw == 0, "C07: nothing of the record exists before the wrap padding record");
                seen.pad_unwritten = true;
            } else if lw == 0 {
                seen.pad_written_record_not = true;
            }
            in_pad = p >= sp.tail_index && p < sp.tail_index + 8;
        }
        let in_claim = p >= sp.index && p < sp.index + sp.required as usize;
        assert!(in_claim || in_pad || in_tail || in_hcache || m.byte(p) == before, "C07: a dying producer changes nothing outside its claim");
    }
    if lb >= 0 {
        let mut src_b = Mem::<8>::any();
        let q: usize = kani::any();
        kani::assume(q < CAP);
        let before_q = m.byte(q);
        let rb_res = rb.write(CMD_B, src_b.buf(), 0, lb);
        let spb = spec_place(head, t2, lb as i64);
        assert!(rb_res.is_ok() == spb.accept, "C07: a surviving producer is accepted exactly when its record fits behind the dead claim");
        if rb_res.is_ok() {
            assert!(m.i64_at(TAIL_AT) == spb.new_tail, "C07: the survivor's claim follows the dead claim");
            assert!(placed(m, &spb, lb, CMD_B as i32, &src_b.0), "C07: the survivor's record is complete behind the dead claim");
            let in_b = q >= spb.index && q < spb.index + 8 + lb as usize;
            let in_bpad = spb.padding != 0 && q >= spb.tail_index && q < spb.tail_index + 8;
            assert!(in_b || in_bpad || m.byte(q) == before_q, "C07: the survivor does not touch the dead claim or earlier records");
            seen.survivor_ok = true;
        } else {
            assert!(m.i64_at(TAIL_AT) == t2 && m.byte(q) == before_q, "C07: a refused survivor changes nothing");
            seen.survivor_refused = true;
        }
    }
}

macro_rules! crash_cover {
    ($seen:ident, before_claim) => { kani::cover!($seen.before_claim, "[must] producer stopped before its claim CAS took effect"); };
    ($seen:ident, zero_len) => { kani::cover!($seen.zero_len, "[must] producer stopped after the claim with a zero length word"); };
    ($seen:ident, neg_len) => { kani::cover!($seen.neg_len, "[must] producer stopped with a negative length word"); };
    ($seen:ident, committed) => { kani::cover!($seen.committed, "[must] producer ran to completion (crash point beyond the last access)"); };
    ($seen:ident, pad_unwritten) => { kani::cover!($seen.pad_unwritten, "[must] wrapped claim: stopped before the wrap padding record was written"); };
    ($seen:ident, pad_written_record_not) => { kani::cover!($seen.pad_written_record_not, "[must] wrapped claim: stopped between padding record and record header"); };
    ($seen:ident, survivor_ok) => { kani::cover!($seen.survivor_ok, "[must] survivor's write accepted behind the dead claim"); };
    ($seen:ident, survivor_refused) => { kani::cover!($seen.survivor_refused, "[must] survivor's write refused: the dead claim fills the ring"); };
}

macro_rules! crash_prefix {
    ($name:ident, $head:expr, $prefill:expr, $la:expr, $lb:expr, [$($k:expr),+], [$($kind:ident),*]) => {
        #[kani::proof]
        fn $name() {
            let mut seen = CrashSeen::default();
            let k: u32 = kani::any();
            split!(k, |c| crash_at(c, $head, $prefill, $la, $lb, &mut seen), $($k),+);
            $( crash_cover!(seen, $kind); )*
        }
    };
}

// claim [0,16) on an empty ring; survivor of 1 byte behind it.  write = 6 accesses; k = 6: no crash
// @verif tier=quick fs=801 unwind=4 unwindset=claim:2
crash_prefix!(c07_crash_plain, B1, -1, 4, 1, [0, 1, 2, 3, 4, 5, 6], [before_claim, zero_len, neg_len, committed, survivor_ok]);
// WRAPPED claim from index 24 of an empty ring at 2^31-8: padding slot [24,32) + record [0,16); producer index 16 <=
// consumer index 24; survivor of 0 bytes at [16,24).  write = 7 accesses
// @verif tier=quick fs=801 unwind=4 unwindset=claim:2
crash_prefix!(c07_crash_wrapped_claim, B2 + 24, -1, 4, 0, [0, 1, 2, 3, 4, 5, 6, 7],
    [before_claim, zero_len, neg_len, committed, pad_unwritten, pad_written_record_not, survivor_ok]);
// WRAPPED claim behind an unconsumed record at [16,24): after the claim the ring is full, the survivor is refused
// @verif tier=quick fs=801 unwind=4 unwindset=claim:2
crash_prefix!(c07_crash_wrapped_claim_full, B3 + 16, 0, 3, 0, [0, 1, 2, 3, 4, 5, 6, 7],
    [before_claim, zero_len, neg_len, committed, pad_unwritten, survivor_refused]);
// claim of a header-only record [8,16) at 2^40 + 8, no survivor
// @verif tier=quick fs=801 unwind=4 unwindset=claim:2
crash_prefix!(c07_crash_empty_message, B4 + 8, -1, 0, -1, [0, 1, 2, 3, 4, 5, 6], [before_claim, zero_len, neg_len, committed]);

// ------------------------------------------------------------------------------------------------------------------
// g.  consumer side: unblock from a ring satisfying dead_claim
// ------------------------------------------------------------------------------------------------------------------

#[derive(Copy, Clone, Default)]
pub struct UnblockSeen {
    pub unblocked_neg: bool,
    pub unblocked_scan: bool,
    pub not_unblocked: bool,
    pub fresh_wrapped: bool,
}

/// A surviving producer's committed record, written directly: literal place/length/type, symbolic bytes.
fn put_survivor(m: &mut Ring, idx: usize, len: i32, cmd: AeronCommand) -> Cmd {
    let bytes: [u8; 8] = kani::any();
    m.set_i32(idx, len + 8);
    m.set_i32(idx + 4, cmd as i32);
    // alignment slack behind the message is zero, as consumed space is returned zeroed
    let mask: u64 = if len >= 8 { !0 } else { (1u64 << (8 * len as u32)) - 1 };
    let word = u64::from_le_bytes(bytes) & mask;
    if len > 0 {
        m.set_i64(idx + 8, word as i64);
    }
    Cmd { id: cmd as i32, len, bytes: word.to_le_bytes() }
}

/// Ring satisfying `dead_claim`: consumer at `head`, producer at `tail`, dead claim of `alen` bytes at the consumer
/// index with length word `lw` (0: whole claim zero; negative: type word set, message area arbitrary), survivors
/// (index, length) x2 (length -1 = none).  Then unblock, read, drain, fresh write, drain.
fn unblock_from(lw: i32, head: i64, tail: i64, alen: usize, s0: (usize, i32), s1: (usize, i32), seen: &mut UnblockSeen) {
    let m = ring_mem();
    set_positions(m, head, tail, head);
    let ci = (head as i128 % CAP as i128) as usize;
    if lw != 0 {
        m.set_i32(ci, lw);
        m.set_i32(ci + 4, CMD_A as i32);
        if alen > 8 {
            m.set_i64(ci + 8, kani::any()); // partially copied message: arbitrary
        }
    }
    let mut surv = [NO_CMD; 4];
    let mut ns = 0usize;
    if s0.1 >= 0 {
        surv[ns] = put_survivor(m, s0.0, s0.1, TYPES[0]);
        ns += 1;
    }
    if s1.1 >= 0 {
        surv[ns] = put_survivor(m, s1.0, s1.1, TYPES[1]);
        ns += 1;
    }
    let rb = ring();
    let p: usize = kani::any();
    kani::assume(p >= CAP && p < N);
    let before_p = m.byte(p);
    let q: usize = kani::any();
    kani::assume(q < CAP);
    let before_q = m.byte(q);

    let u = rb.unblock();

    assert!(m.byte(p) == before_p, "C07: unblock changed the trailer");
    assert!(m.i64_at(HEAD_AT) == head && m.i64_at(TAIL_AT) == tail, "C07: unblock moves neither position");
    let in_hdr = q >= ci && q < ci + 8;
    assert!(in_hdr || m.byte(q) == before_q, "C07: unblock touches nothing but the header at the consumer position: committed commands stay intact");
    let w0 = m.i32_at(ci);
    let t0 = m.i32_at(ci + 4);
    if u {
        assert!(t0 == -1 && w0 > 0, "C07: unblock reports success only after turning the dead claim into a padding record");
        let end = ci as i64 + align8(w0 as i64);
        assert!(end <= CAP as i64, "C07: the padding record stored by unblock must lie inside the data area (consumer index + length <= capacity)");
        kani::assume(end <= CAP as i64);
        assert!(end == (ci + alen) as i64, "C07: the padding record ends at the record boundary where the dead claim ends");
        if lw < 0 {
            seen.unblocked_neg = true;
        } else {
            seen.unblocked_scan = true;
        }
    } else {
        assert!(m.byte(q) == before_q, "C07: unblock that reports failure leaves the ring alone");
        seen.not_unblocked = true;
    }
    // the next read
    let mut log = EMPTY_LOG;
    let c1 = rb.read(|t, b| log_push(&mut log, t, b), i32::MAX);
    let h1 = m.i64_at(HEAD_AT);
    assert!(h1 <= tail, "C07: the consumer position passed the producer position");
    assert!(h1 % 8 == 0, "C07: after unblock the next read must resume at a record boundary (the consumer position left the 8-byte record grid)");
    if u {
        assert!(h1 > head, "C07: after unblock reports success the next read makes progress");
    } else {
        assert!(h1 == head && c1 == 0, "C07: a ring still blocked by a claim hands out nothing and stays put");
    }
    drain(&rb, &mut log);
    let h2 = m.i64_at(HEAD_AT);
    assert!(h2 <= tail, "C07: the consumer position passed the producer position");
    assert!(!log.overflow, "C07: a command was handed out more than once");
    if u {
        assert!(log.n == ns, "C07: every command committed by a surviving producer is handed out exactly once");
        let mut i = 0;
        while i < 2 {
            if i < ns {
                assert!(delivered_is(&log, i, &surv[i]), "C07: surviving producers' commands come out intact, in order");
            }
            i += 1;
        }
        assert!(h2 == tail, "C07: after unblock the ring drains completely");
        // afterwards the ring works normally
        let mut src = Mem::<8>::any();
        vok!(rb.write(TYPES[3], src.buf(), 0, 2), "C07: after unblock and drain the ring accepts a new command");
        let fresh = Cmd { id: TYPES[3] as i32, len: 2, bytes: src.0 };
        let spf = spec_place(tail, tail, 2);
        assert!(m.i64_at(TAIL_AT) == spf.new_tail && placed(m, &spf, 2, TYPES[3] as i32, &src.0), "C07: the new command is placed by the rule");
        if spf.padding != 0 {
            seen.fresh_wrapped = true;
        }
        drain(&rb, &mut log);
        assert!(!log.overflow && log.n == ns + 1 && delivered_is(&log, ns, &fresh), "C07: the new command is delivered exactly once, intact");
        assert!(m.i64_at(HEAD_AT) == spf.new_tail, "C07: the ring drains completely again");
        let z: usize = kani::any();
        kani::assume(z < CAP);
        assert!(m.byte(z) == 0, "C07: consumed space, including the former dead claim, is returned zeroed");
    } else {
        assert!(log.n == 0, "C07: nothing behind a still-blocking claim is handed out");
        assert!(in_hdr || m.byte(q) == before_q, "C07: commands behind a still-blocking claim stay intact in the ring");
    }
}

macro_rules! unblock_cover {
    ($seen:ident, unblocked_neg) => { kani::cover!($seen.unblocked_neg, "[must] unblock true path: negative length word turned into padding"); };
    ($seen:ident, unblocked_scan) => { kani::cover!($seen.unblocked_scan, "[must] unblock true path: zeroed claim bridged up to the next record"); };
    ($seen:ident, not_unblocked) => { kani::cover!($seen.not_unblocked, "[must] unblock false path"); };
    ($seen:ident, fresh_wrapped) => { kani::cover!($seen.fresh_wrapped, "[must] the fresh command wrapped"); };
}

macro_rules! unblock_step {
    ($name:ident, $head:expr, $used:expr, $alen:expr, $s0:expr, $s1:expr, [$($lw:expr),+], [$($kind:ident),*]) => {
        #[kani::proof]
        fn $name() {
            let mut seen = UnblockSeen::default();
            let lw: i32 = kani::any();
            split!(lw, |v| unblock_from(v, $head, $head + $used, $alen, $s0, $s1, &mut seen), $($lw),+);
            $( unblock_cover!(seen, $kind); )*
        }
    };
}

const NONE: (usize, i32) = (0, -1);

// dead claim [0,16) (4-byte message) at the consumer, survivor (3 bytes) at [16,32): ring full, producer index ==
// consumer index
// @verif tier=quick fs=801 unwind=4 unwindset=claim:2,RingBuffer4read:6,set_memory:33,unblock:100,scan_back:100
unblock_step!(c07_unblock_plain_survivor, B1, 32, 16, (16, 3), NONE, [0, -12], [unblocked_neg, unblocked_scan]);
// dead claim [8,24) (2-byte message), nobody behind it: a zero length word cannot be told from a slow producer
// @verif tier=quick fs=801 unwind=4 unwindset=claim:2,RingBuffer4read:6,set_memory:33,unblock:100,scan_back:100
unblock_step!(c07_unblock_plain_alone, B1 + 8, 16, 16, NONE, NONE, [0, -10], [unblocked_neg, not_unblocked, fresh_wrapped]);
// WRAPPED: dead claim [16,32) reaches the end of the data area, the survivor's record (0 bytes) sits at [0,8) of the
// next lap: producer index 8 < consumer index 16, zeros from the consumer index to the end of the data area
// @verif tier=quick fs=801 unwind=4 unwindset=claim:2,RingBuffer4read:6,set_memory:33,unblock:100,scan_back:100
unblock_step!(c07_unblock_wrapped_claim_at_end, B3 + 16, 24, 16, (0, 0), NONE, [0, -12], [unblocked_neg, not_unblocked]);
// WRAPPED: the dying producer claimed padding slot [24,32) + record [0,16) and wrote nothing; a survivor (0 bytes)
// committed [16,24): ring full, producer index 24 == consumer index 24, everything from the consumer index to the end
// of the data area and the claim at [0,16) is zero
// @verif tier=quick fs=801 unwind=4 unwindset=claim:2,RingBuffer4read:6,set_memory:33,unblock:100,scan_back:100
unblock_step!(c07_unblock_wrapped_padding_slot, B1 + 24, 32, 8, (16, 0), NONE, [0], [not_unblocked]);
// same dead claim without survivor: producer index 16 < consumer index 24
// @verif tier=quick fs=801 unwind=4 unwindset=claim:2,RingBuffer4read:6,set_memory:33,unblock:100,scan_back:100
unblock_step!(c07_unblock_wrapped_padding_slot_alone, B2 + 24, 24, 8, NONE, NONE, [0], [not_unblocked]);
// the wrap padding record was written (and consumed), the record part [0,16) is dead; two survivors behind it
// @verif tier=quick fs=801 unwind=4 unwindset=claim:2,RingBuffer4read:6,set_memory:33,unblock:100,scan_back:100
unblock_step!(c07_unblock_two_survivors, B3 + 32, 32, 16, (16, 0), (24, 0), [0, -9], [unblocked_neg, unblocked_scan]);

/// Vacuity witness: the family must be able to fail — "unblock never reports success" is false.
// @verif tier=quick twin=1 fs=801 unwind=4 unwindset=claim:2,RingBuffer4read:6,set_memory:33,unblock:100,scan_back:100
#[kani::proof]
fn c07_twin_unblock_reports_success() {
    let mut seen = UnblockSeen::default();
    unblock_from(-12, B1, B1 + 32, 16, (16, 3), NONE, &mut seen);
    assert!(!seen.unblocked_neg, "C07: TWIN unblock never reports success");
}

/// A dead claim whose record length is NOT a multiple of 8 (header says -12: a 4-byte command), alone in the ring,
/// message area already zero: unblock turns it into padding, and the next read must step over the WHOLE aligned claim.
// @verif tier=quick fs=801 unwind=4 unwindset=RingBuffer4read:6,set_memory:33,unblock:100,scan_back:100
#[kani::proof]
fn c07_unblock_unaligned_dead_record_read_resumes_on_record_grid() {
    let m = ring_mem();
    let head = B1; // some lap, consumer index 0
    set_positions(m, head, head + 16, head);
    let ci = (head as i128 % CAP as i128) as usize;
    m.set_i32(ci, -12);
    m.set_i32(ci + 4, CMD_A as i32);
    let rb = ring();
    let u = rb.unblock();
    assert!(u, "C07: an abandoned claim with a negative length word is unblocked");
    let mut log = EMPTY_LOG;
    let _c = rb.read(|t, b| log_push(&mut log, t, b), i32::MAX);
    let h1 = m.i64_at(HEAD_AT);
    assert!(h1 == head + 16, "C07: after unblock the read steps over the whole (aligned) dead claim and stops at the producer position");
    assert!(log.n == 0, "C07: padding is never handed out as a command");
}

// ------------------------------------------------------------------------------------------------------------------
// h.  unblock racing a SLOW (not dead) producer: the claim at the consumer index is committed while unblock scans
// ------------------------------------------------------------------------------------------------------------------
// Producer A has claimed [0,16) (CAS on the tail done, nothing written: the whole claim is zero) and a surviving
// producer's committed record lies behind it at [16,32).  `unblock` is preempted just before its j-th shared-memory
// access (hook interference, j solver-chosen and case-split into literal arms) by the REST of A's write: type word,
// 4 payload bytes (symbolic - the solver picks the value a weak re-validation cannot tell from untouched space, e.g. 0),
// then the positive length word.  For every j after unblock's first look at the dead claim and before its backward
// re-validation starts (accesses 3..=5 of head, tail, length@0, length@8, length@16, back@8, back@0, header store),
// A's commit precedes the last re-validating read of the length word at the consumer index, so unblock must notice it:
// it reports failure and A's committed record is not turned into padding; both commands are then delivered once.
// (A commit that lands between the re-validation and the header store is the time-of-check race the protocol
// accepts - unblock is only called after a timeout - and is outside this obligation.)
fn env_a_commits_late() {
    let w = world();
    w.b_ran = true;
    let m = ring_mem();
    m.set_i32(4, CMD_A as i32);
    m.set_i32(8, i32::from_le_bytes([w.b_src.0[0], w.b_src.0[1], w.b_src.0[2], w.b_src.0[3]]));
    m.set_i32(0, 12);
}

fn unblock_vs_late_commit(j: u32, seen: &mut bool) {
    let m = ring_mem();
    let (head, tail) = (B1, B1 + 32);
    set_positions(m, head, tail, head);
    let surv = put_survivor(m, 16, 3, TYPES[0]);
    let w = world();
    w.b_src = Mem::<8>::any();
    w.b_src.0[4] = 0;
    w.b_src.0[5] = 0;
    w.b_src.0[6] = 0;
    w.b_src.0[7] = 0;
    w.b_ran = false;
    let a = Cmd { id: CMD_A as i32, len: 4, bytes: w.b_src.0 };
    let rb = ring();
    hook::begin(u32::MAX, j, Some(env_a_commits_late as fn()), false);
    let u = rb.unblock();
    let _ = hook::end();
    assert!(w.b_ran, "C07: harness instance: the late commit was injected inside unblock");
    assert!(!u, "C07: unblock reported success although the claim at the consumer index was committed before unblock re-validated it");
    assert!(m.i32_at(0) == 12 && m.i32_at(4) == CMD_A as i32, "C07: unblock turned a record into padding that its producer had committed before the re-validation (a committed command is hidden)");
    assert!(m.i64_at(HEAD_AT) == head && m.i64_at(TAIL_AT) == tail, "C07: unblock moves neither position");
    let mut log = EMPTY_LOG;
    drain(&rb, &mut log);
    assert!(!log.overflow && log.n == 2, "C07: both committed commands are handed out exactly once");
    assert!(delivered_is(&log, 0, &a) && delivered_is(&log, 1, &surv), "C07: the late committer's command and the survivor's come out intact, in order");
    *seen = true;
}

// @verif tier=quick fs=801 unwind=4 unwindset=RingBuffer4read:6,set_memory:33,unblock:100,scan_back:100
#[kani::proof]
fn c07_unblock_races_slow_producer_commit() {
    let mut seen = false;
    let j: u32 = kani::any();
    split!(j, |v| unblock_vs_late_commit(v, &mut seen), 3, 4, 5);
    kani::cover!(seen, "[must] a commit landed inside unblock before its re-validation");
}
