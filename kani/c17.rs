//! C17 — position / term arithmetic is consistent, including term-id wrap-around.
//! Oracle: the closed forms of the property statement, written with i64/i128 arithmetic that cannot wrap.
use super::util::*;
use crate::concurrent::atomic_buffer::AtomicBuffer;
use crate::concurrent::logbuffer::header::Header;
use crate::concurrent::logbuffer::{data_frame_header as dfh, log_buffer_descriptor as lbd};
use crate::utils::types::Index;

fn any_bits() -> i32 {
    let bits: i32 = kani::any();
    kani::assume((16..=30).contains(&bits)); // the 15 legal term lengths 64 KiB .. 1 GiB
    bits
}

fn any_count() -> i32 {
    let count: i32 = kani::any();
    kani::assume(count >= 0); // every number of elapsed terms below 2^31
    count
}

/// compute_position == count * term_length + offset, for every initial term id (the term id may have wrapped).
// @verif tier=quick
#[kani::proof]
fn c17_compute_position_closed_form() {
    let initial: i32 = kani::any();
    let count = any_count();
    let bits = any_bits();
    let offset: i32 = kani::any();
    kani::assume(offset >= 0 && (offset as i64) <= (1i64 << bits));
    let term_id = initial.wrapping_add(count);
    let pos = lbd::compute_position(term_id, offset, bits, initial);
    let expect = ((count as i64) << bits) + offset as i64;
    assert!(pos == expect, "C17: compute_position == elapsed_terms * term_length + offset");
    assert!(pos >= 0, "C17: position is non-negative");
    kani::cover!(term_id < initial, "[must] wrapped term id reachable");
}

// @verif tier=quick
#[kani::proof]
fn c17_compute_term_begin_position_closed_form() {
    let initial: i32 = kani::any();
    let count = any_count();
    let bits = any_bits();
    let term_id = initial.wrapping_add(count);
    let pos = lbd::compute_term_begin_position(term_id, bits, initial);
    assert!(pos == (count as i64) << bits, "C17: term begin position == elapsed_terms * term_length");
    assert!(pos >= 0, "C17: term begin position is non-negative");
    kani::cover!(term_id < initial, "[must] wrapped term id reachable");
}

/// Strict monotonicity in (count, offset), lexicographically.
// @verif tier=quick
#[kani::proof]
fn c17_position_monotone() {
    let initial: i32 = kani::any();
    let bits = any_bits();
    let (c1, c2) = (any_count(), any_count());
    let (o1, o2): (i32, i32) = (kani::any(), kani::any());
    kani::assume(o1 >= 0 && o2 >= 0 && (o1 as i64) < (1i64 << bits) && (o2 as i64) < (1i64 << bits));
    kani::assume(c1 < c2 || (c1 == c2 && o1 < o2));
    let p1 = lbd::compute_position(initial.wrapping_add(c1), o1, bits, initial);
    let p2 = lbd::compute_position(initial.wrapping_add(c2), o2, bits, initial);
    assert!(p1 < p2, "C17: position strictly monotone in (elapsed terms, offset)");
}

/// The partition chosen from the term id, from the term count and from the position agree.
// @verif tier=quick
#[kani::proof]
fn c17_partition_index_agree() {
    let initial: i32 = kani::any();
    let count = any_count();
    let bits = any_bits();
    let offset: i32 = kani::any();
    kani::assume(offset >= 0 && (offset as i64) < (1i64 << bits));
    let term_id = initial.wrapping_add(count);
    let by_term = lbd::index_by_term(initial, term_id);
    let by_count = lbd::index_by_term_count(count as i64);
    let pos = lbd::compute_position(term_id, offset, bits, initial);
    let by_pos = lbd::index_by_position(pos, bits);
    assert!(by_count == count % 3, "C17: index_by_term_count == count mod 3");
    assert!(by_term == by_count, "C17: index_by_term agrees with index_by_term_count");
    assert!(by_pos == by_count, "C17: index_by_position agrees with index_by_term_count");
    kani::cover!(term_id < initial, "[must] wrapped term id reachable");
}

// @verif tier=quick
#[kani::proof]
fn c17_raw_tail_fields_roundtrip() {
    let id: i32 = kani::any();
    let off: i32 = kani::any();
    let bits = any_bits();
    let term_len: i64 = 1i64 << bits;
    kani::assume(off >= 0);
    let raw = pack_tail(id, off);
    assert!(lbd::term_id(raw) == id, "C17: term_id(raw tail) inverts packing");
    let expect = if (off as i64) < term_len { off as i64 } else { term_len };
    assert!(lbd::term_offset(raw, term_len) as i64 == expect, "C17: term_offset(raw tail) == min(offset, term length)");
    // offsets a publisher that overshot the term may have left: up to 2^32-1 in the low word
    let low: u32 = kani::any();
    let raw2 = ((id as i64) << 32) | low as i64;
    assert!(lbd::term_id(raw2) == id, "C17: term_id ignores the low word");
    let e2 = if (low as i64) < term_len { low as i64 } else { term_len };
    assert!(lbd::term_offset(raw2, term_len) as i64 == e2, "C17: term_offset clamps an overshot tail to the term length");
}

// @verif tier=quick
#[kani::proof]
fn c17_partition_next_previous() {
    let i: i32 = kani::any();
    kani::assume((0..3).contains(&i));
    let n = lbd::next_partition_index(i);
    let p = lbd::previous_partition_index(i);
    assert!((0..3).contains(&n) && (0..3).contains(&p), "C17: partition indices stay in 0..3");
    assert!(n == (i + 1) % 3 && lbd::previous_partition_index(n) == i && lbd::next_partition_index(p) == i,
        "C17: next/previous partition are inverse rotations");
}

fn meta_tail(b: &AtomicBuffer, idx: i32) -> i64 {
    b.get::<i64>(idx * 8)
}

/// rotate_log from any valid meta-data state: count+1, next partition's tail = (term_id+1)<<32, others untouched; idempotent.
// @verif tier=quick unwind=3
#[kani::proof]
fn c17_rotate_log_step() {
    pretouch();
    assert!(*lbd::TERM_TAIL_COUNTER_OFFSET == 0 && *lbd::LOG_ACTIVE_TERM_COUNT_OFFSET == 24, "C17: harness layout assumption");
    let mut m = Mem::<32>::zeroed();
    let b = m.buf();
    let initial: i32 = kani::any();
    let count: i32 = kani::any();
    kani::assume(count >= 0 && count < i32::MAX); // a next term exists below 2^31
    let term_id = initial.wrapping_add(count);
    let c = count as i64;
    let (idx, nidx, pidx) = ((c % 3) as i32, ((c + 1) % 3) as i32, ((c + 2) % 3) as i32);
    let off: i32 = kani::any();
    kani::assume(off >= 0);
    let (off_n, off_p): (u32, u32) = (kani::any(), kani::any());
    // Inv: partition(count) holds term t, partition(count+1) holds t-2, partition(count+2) holds t-1
    let tails = [pack_tail(term_id, off), ((term_id.wrapping_sub(2) as i64) << 32) | off_n as i64,
                 ((term_id.wrapping_sub(1) as i64) << 32) | off_p as i64];
    b.put::<i64>(idx * 8, tails[0]);
    b.put::<i64>(nidx * 8, tails[1]);
    b.put::<i64>(pidx * 8, tails[2]);
    b.put::<i32>(24, count);

    lbd::rotate_log(&b, count, term_id);

    assert!(lbd::active_term_count(&b) == count + 1, "C17: rotation advances the active term count by exactly one");
    assert!(meta_tail(&b, nidx) == pack_tail(term_id.wrapping_add(1), 0), "C17: rotation sets the next tail to (term id + 1, offset 0)");
    assert!(meta_tail(&b, idx) == tails[0] && meta_tail(&b, pidx) == tails[2], "C17: rotation leaves the other tails untouched");
    assert!(lbd::index_by_term_count((count + 1) as i64) == nidx, "C17: new active partition is the next one");
    // a publisher that lost the race calls rotate_log with the same (stale) arguments: nothing may change
    lbd::rotate_log(&b, count, term_id);
    assert!(lbd::active_term_count(&b) == count + 1, "C17: repeated rotation with stale arguments is a no-op on the count");
    assert!(meta_tail(&b, nidx) == pack_tail(term_id.wrapping_add(1), 0), "C17: repeated rotation is a no-op on the tail");
    kani::cover!(term_id == i32::MAX, "[must] rotation across the i32::MAX term id");
}

/// rotate_log when another publisher already initialised the next tail and appended to it: tail is not reset.
// @verif tier=quick unwind=3
#[kani::proof]
fn c17_rotate_log_after_other_rotated_tail() {
    pretouch();
    let mut m = Mem::<32>::zeroed();
    let b = m.buf();
    let initial: i32 = kani::any();
    let count: i32 = kani::any();
    kani::assume(count >= 0 && count < i32::MAX);
    let term_id = initial.wrapping_add(count);
    let c = count as i64;
    let (idx, nidx, pidx) = ((c % 3) as i32, ((c + 1) % 3) as i32, ((c + 2) % 3) as i32);
    let off_n: u32 = kani::any();
    let next_tail = ((term_id.wrapping_add(1) as i64) << 32) | off_n as i64; // already rotated, maybe appended to
    b.put::<i64>(idx * 8, pack_tail(term_id, 0));
    b.put::<i64>(nidx * 8, next_tail);
    b.put::<i64>(pidx * 8, pack_tail(term_id.wrapping_sub(1), 0));
    let cur: i32 = kani::any();
    kani::assume(cur == count || cur == count + 1);
    b.put::<i32>(24, cur);
    lbd::rotate_log(&b, count, term_id);
    assert!(meta_tail(&b, nidx) == next_tail, "C17: rotation never resets a tail that already belongs to the next term");
    assert!(lbd::active_term_count(&b) == count + 1, "C17: term count ends at count+1 whoever rotated");
}

/// Header::position() == position just after the frame (what an image reaches after consuming it).
/// Frame offsets are the 32-aligned offsets of a 256-byte window; frame length, term id and term length are full width.
// @verif tier=quick
#[kani::proof]
fn c17_header_position_matches_consumed_position() {
    pretouch();
    let mut m = Mem::<256>::zeroed();
    let b = m.buf();
    let initial: i32 = kani::any();
    let count = any_count();
    let bits = any_bits();
    let term_id = initial.wrapping_add(count);
    let frame_len: i32 = kani::any();
    let slot: i32 = kani::any();
    kani::assume((0..7).contains(&slot));
    let term_off = slot * 32;
    let term_len = 1i64 << bits;
    kani::assume(frame_len >= 32);
    kani::assume(term_off as i64 + align32(frame_len as i64) <= term_len);
    b.put::<i32>(term_off, frame_len);
    b.put::<i32>(term_off + *dfh::TERM_ID_FIELD_OFFSET, term_id);
    let mut h = Header::new(initial, term_len as i32);
    h.set_buffer(b);
    h.set_offset(term_off);
    let expect = ((count as i64) << bits) + term_off as i64 + align32(frame_len as i64);
    assert!(h.position() == expect, "C17: header position == term begin + offset + aligned frame length");
    assert!(h.position() > 0, "C17: header position positive");
    kani::cover!(term_id < initial && slot == 6, "[must] wrapped term id reachable");
}
