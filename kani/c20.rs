//! C20 — multi-image subscription polling (bounded, fair) and per-session reassembly; plus the C01 obligation
//! "single-session reassembly" (`c01_reassembly_*`).
//!
//! A. `c01_reassembly_*`: the real `FragmentAssembler` (HashMap + BufferBuilder) fed 1..=3 frames of one session from a
//!    256-byte term: frame offsets / payload lengths literal (0/64/128, 32/32/7), FLAGS bytes and payload bytes symbolic.
//! B. `c20_assembler_*`: two sessions (5 and 9, concrete because SipHash over a symbolic key does not finish), each in
//!    its own term, 3 + 2 frames, all five FLAGS bytes symbolic, the interleaving order symbolic.
//!    Oracle for A and B: `Sess` - the reassembly state machine written from the property statement (unfragmented =>
//!    delivered as is; BEGIN starts a message; middle / END only continue a started message; END delivers the
//!    concatenation and clears) - and `concat`, the byte-by-byte concatenation of the member fragments' payloads.
//! C. `c20_poll_*`: the real `Subscription` (dummy conductor handle) over 2 / 3 real `Image`s, each on its own log
//!    (3 x 64-byte terms + 4096-byte meta data, one struct per log so that every term is a <= 64 element member and
//!    stays field sensitive at the default setting) with 0..=2 committed frames. Oracle: `reference`, the rotation
//!    walk written from the property statement (start somewhere, visit every image once in cyclic order, hand each the
//!    remaining limit), in i64.
use super::publog::dummy_conductor;
use super::util::*;
use crate::concurrent::atomic_buffer::AtomicBuffer;
use crate::concurrent::logbuffer::header::Header;
use crate::concurrent::position::UnsafeBufferPosition;
use crate::fragment_assembler::FragmentAssembler;
use crate::image::{ControlledPollAction, Image};
use crate::subscription::Subscription;
use crate::utils::errors::AeronError;
use crate::utils::log_buffers::LogBuffers;
use crate::utils::types::Index;
use std::ffi::CString;
use std::mem::ManuallyDrop;
use std::sync::Arc;

const STREAM: i32 = 1001;
const TERM_ID: i32 = 77;
const SID_A: i32 = 5;
const SID_B: i32 = 9;

fn fixed_random_state() -> std::hash::RandomState {
    unsafe { std::mem::transmute::<[u64; 2], std::hash::RandomState>([1, 2]) }
}

fn put_le<const N: usize>(m: &mut [u8], at: usize, b: [u8; N]) {
    let mut i = 0;
    while i < N {
        m[at + i] = b[i];
        i += 1;
    }
}

/// A DATA frame header at `off` with the literal protocol offsets (0 length, 4 version, 5 flags, 6 type, 8 term offset,
/// 12 session, 16 stream, 20 term id); the payload keeps whatever the memory holds.
fn put_frame(m: &mut [u8], off: usize, word: i32, flags: u8, session: i32) {
    put_le(m, off, word.to_le_bytes());
    m[off + 4] = 0;
    m[off + 5] = flags;
    put_le(m, off + 6, 1u16.to_le_bytes());
    put_le(m, off + 8, (off as i32).to_le_bytes());
    put_le(m, off + 12, session.to_le_bytes());
    put_le(m, off + 16, STREAM.to_le_bytes());
    put_le(m, off + 20, TERM_ID.to_le_bytes());
}

// ---------------------------------------------------------------------------------------------------------------
// A / B: fragment assembler
// ---------------------------------------------------------------------------------------------------------------

/// frame offsets and payload lengths of a session's frames (session B uses the first two offsets with its own lengths)
const FO: [usize; 3] = [0, 64, 128];
const LEN_A: [i32; 3] = [32, 32, 7];
const LEN_B: [i32; 3] = [32, 9, 0];
const NR: usize = 6; // recorded delegate calls (one more than can legally happen)

/// What the delegate was handed, call by call. `j` is the symbolic probe index: byte j of every delivered message is
/// recorded, so an unconstrained j gives full content equality.
struct Got {
    j: i32,
    terms: [usize; 2],
    calls: usize,
    len: [i32; NR],
    off: [i32; NR],
    byte: [u8; NR],
    sid: [i32; NR],
    hoff: [i32; NR],
    in_term: [bool; NR],
}

impl Got {
    fn new(j: i32, terms: [usize; 2]) -> Got {
        Got { j, terms, calls: 0, len: [0; NR], off: [0; NR], byte: [0; NR], sid: [0; NR], hoff: [0; NR], in_term: [false; NR] }
    }
    fn note(&mut self, b: &AtomicBuffer, off: Index, len: Index, h: &Header) {
        let c = self.calls;
        if c < NR {
            self.len[c] = len;
            self.off[c] = off;
            self.sid[c] = h.session_id();
            self.hoff[c] = h.offset();
            let p = b.buffer() as usize;
            self.in_term[c] = p == self.terms[0] || p == self.terms[1];
            self.byte[c] = if self.j < len { b.get::<u8>(off + self.j) } else { 0 };
        }
        self.calls += 1;
    }
}

/// The reassembly state machine of ONE session, from the property statement. `feed` returns the member set of the
/// message that frame `k` completes, if any.
#[derive(Copy, Clone)]
struct Sess {
    started: bool,
    cur: [bool; 3],
}

impl Sess {
    fn new() -> Sess {
        Sess { started: false, cur: [false; 3] }
    }
    fn feed(&mut self, k: usize, flags: u8) -> Option<[bool; 3]> {
        let begin = flags & 0x80 != 0;
        let end = flags & 0x40 != 0;
        if begin && end {
            let mut m = [false; 3];
            m[k] = true;
            Some(m) // unfragmented: delivered as is, an assembly in progress is not touched
        } else if begin {
            self.started = true;
            self.cur = [false; 3];
            self.cur[k] = true;
            None
        } else if self.started {
            self.cur[k] = true;
            if end {
                let m = self.cur;
                self.started = false;
                self.cur = [false; 3];
                Some(m)
            } else {
                None
            }
        } else {
            None // joined mid-message: nothing until the next BEGIN
        }
    }
}

/// Expected deliveries in order.
struct Want {
    calls: usize,
    sess: [usize; NR],
    members: [[bool; 3]; NR],
    last: [usize; NR],
}

impl Want {
    fn new() -> Want {
        Want { calls: 0, sess: [0; NR], members: [[false; 3]; NR], last: [0; NR] }
    }
    fn push(&mut self, sess: usize, members: [bool; 3], last: usize) {
        if self.calls < NR {
            self.sess[self.calls] = sess;
            self.members[self.calls] = members;
            self.last[self.calls] = last;
        }
        self.calls += 1;
    }
}

/// (length, byte j) of the concatenation of the member fragments' payloads
fn concat(term: &[u8; 256], lens: &[i32; 3], members: &[bool; 3], j: i32) -> (i32, u8) {
    let mut total = 0;
    let mut byte = 0u8;
    let mut k = 0;
    while k < 3 {
        if members[k] {
            if j >= total && j < total + lens[k] {
                byte = term[FO[k] + 32 + (j - total) as usize];
            }
            total += lens[k];
        }
        k += 1;
    }
    (total, byte)
}

struct SingleOut {
    delivered: usize,
    first_len: i32,
    joined_mid: bool,
}

fn reassembly_single(init: Option<isize>) -> SingleOut {
    pretouch();
    let mut term = Mem::<256>::any();
    let flags: [u8; 3] = kani::any();
    let n: usize = kani::any();
    kani::assume(n >= 1 && n <= 3);
    let mut k = 0;
    while k < 3 {
        put_frame(&mut term.0, FO[k], 32 + LEN_A[k], flags[k], SID_A);
        k += 1;
    }
    let tb = term.buf();
    let j: i32 = kani::any();
    kani::assume(j >= 0 && j < 96);
    let mut got = Got::new(j, [tb.buffer() as usize, 0]);
    let mut delegate = |b: &AtomicBuffer, off: Index, len: Index, h: &Header| got.note(b, off, len, h);
    // never dropped: BufferBuilder's Drop runs a byte loop over its capacity in the dev profile
    let mut asm = ManuallyDrop::new(FragmentAssembler::new(&mut delegate, init));
    {
        let mut handler = asm.handler();
        let mut hdr = Header::new(TERM_ID, 256);
        hdr.set_buffer(tb);
        k = 0;
        while k < 3 {
            if k < n {
                hdr.set_offset(FO[k] as i32);
                handler(&tb, FO[k] as i32 + 32, LEN_A[k], &hdr);
            }
            k += 1;
        }
    }
    let mut want = Want::new();
    let mut s = Sess::new();
    k = 0;
    while k < 3 {
        if k < n {
            if let Some(m) = s.feed(k, flags[k]) {
                want.push(0, m, k);
            }
        }
        k += 1;
    }
    assert!(got.calls == want.calls, "C01: the delegate is called exactly once per completed message and never for anything else");
    let c: usize = kani::any();
    kani::assume(c < want.calls);
    let (len, byte) = concat(&term.0, &LEN_A, &want.members[c], j);
    assert!(got.len[c] == len, "C01: delivered length is the sum of the message's fragment payload lengths, in offer order");
    if j < len {
        assert!(got.byte[c] == byte, "C01: delivered bytes are the concatenation of the message's fragment payloads");
    }
    assert!(got.sid[c] == SID_A && got.hoff[c] == FO[want.last[c]] as i32, "C01: the header handed over is that of the message's last fragment");
    let single = (flags[want.last[c]] & 0xC0) == 0xC0;
    assert!(got.in_term[c] == single, "C01: unfragmented messages are handed over in place, assembled ones from the session buffer");
    if single {
        assert!(got.off[c] == FO[want.last[c]] as i32 + 32, "C01: unfragmented message delivered at its own payload offset");
    }
    let (first_len, _) = concat(&term.0, &LEN_A, &want.members[0], 0);
    SingleOut { delivered: want.calls, first_len: if want.calls > 0 { first_len } else { -1 }, joined_mid: flags[0] & 0x80 == 0 }
}

/// initial buffer 64: header + first fragment fit exactly, the second and the third fragment each reallocate
// @verif tier=quick unwind=10 unwindset=dealloc_buffer_aligned:100
#[kani::proof]
#[kani::stub(std::hash::RandomState::new, fixed_random_state)]
fn c01_reassembly_single_session_growth() {
    let o = reassembly_single(Some(64));
    kani::cover!(o.delivered == 1 && o.first_len == 71, "[must] three fragments reassembled: growth path of the builder taken twice");
    kani::cover!(o.delivered == 1 && o.first_len == 64, "[must] two fragments reassembled: growth path of the builder taken");
    kani::cover!(o.joined_mid && o.delivered == 1 && o.first_len == 39, "[must] mid-message join ignored, the next message start is delivered");
    kani::cover!(o.delivered == 3, "[must] three unfragmented messages");
    kani::cover!(o.delivered == 0, "[must] nothing complete: nothing delivered");
}

/// default initial buffer (4096): no reallocation
// @verif tier=quick unwind=10
#[kani::proof]
#[kani::stub(std::hash::RandomState::new, fixed_random_state)]
fn c01_reassembly_single_session_default_buffer() {
    let o = reassembly_single(None);
    kani::cover!(o.delivered == 1 && o.first_len == 71, "[must] three fragments reassembled");
    kani::cover!(o.joined_mid && o.delivered == 1 && o.first_len == 39, "[must] mid-message join ignored, the next message start is delivered");
}

/// initial buffer 32 = header only: the very first fragment reallocates
// @verif tier=thorough unwind=10 unwindset=dealloc_buffer_aligned:110
#[kani::proof]
#[kani::stub(std::hash::RandomState::new, fixed_random_state)]
fn c01_reassembly_single_session_header_only_buffer() {
    let o = reassembly_single(Some(32));
    kani::cover!(o.delivered == 1 && o.first_len == 71, "[must] three fragments reassembled: growth path of the builder taken");
}

struct TwoOut {
    delivered: usize,
    a_len: i32,
    b_len: i32,
    interleaved: bool,
    b_joined_mid: bool,
}

/// Two sessions interleaved at fragment granularity.
fn assembler_two_sessions(init: Option<isize>) -> TwoOut {
    pretouch();
    let mut ta = Mem::<256>::any();
    let mut tb = Mem::<256>::any();
    let fa: [u8; 3] = kani::any();
    let fb: [u8; 3] = kani::any();
    let mut k = 0;
    while k < 3 {
        put_frame(&mut ta.0, FO[k], 32 + LEN_A[k], fa[k], SID_A);
        if k < 2 {
            put_frame(&mut tb.0, FO[k], 32 + LEN_B[k], fb[k], SID_B);
        }
        k += 1;
    }
    let (ba, bb) = (ta.buf(), tb.buf());
    // order[s]: the next fragment comes from session A (if it has one left)
    let order: [bool; 5] = kani::any();
    let j: i32 = kani::any();
    kani::assume(j >= 0 && j < 96);
    let mut got = Got::new(j, [ba.buffer() as usize, bb.buffer() as usize]);
    let mut delegate = |b: &AtomicBuffer, off: Index, len: Index, h: &Header| got.note(b, off, len, h);
    let mut asm = ManuallyDrop::new(FragmentAssembler::new(&mut delegate, init));
    let mut want = Want::new();
    let mut interleaved = false;
    {
        let mut handler = asm.handler();
        let mut ha = Header::new(TERM_ID, 256);
        ha.set_buffer(ba);
        let mut hb = Header::new(TERM_ID, 256);
        hb.set_buffer(bb);
        let (mut sa, mut sb) = (Sess::new(), Sess::new());
        let (mut ia, mut ib) = (0usize, 0usize);
        let mut s = 0;
        while s < 5 {
            let take_a = ib >= 2 || (order[s] && ia < 3);
            if take_a {
                // literal frame per arm: the session id the assembler hashes stays a constant
                match ia {
                    0 => {
                        ha.set_offset(0);
                        handler(&ba, 32, LEN_A[0], &ha);
                    }
                    1 => {
                        ha.set_offset(64);
                        handler(&ba, 64 + 32, LEN_A[1], &ha);
                    }
                    _ => {
                        ha.set_offset(128);
                        handler(&ba, 128 + 32, LEN_A[2], &ha);
                    }
                }
                if let Some(m) = sa.feed(ia, fa[ia]) {
                    want.push(0, m, ia);
                }
                interleaved = interleaved || (ia > 0 && ib > 0 && ib < 2);
                ia += 1;
            } else {
                match ib {
                    0 => {
                        hb.set_offset(0);
                        handler(&bb, 32, LEN_B[0], &hb);
                    }
                    _ => {
                        hb.set_offset(64);
                        handler(&bb, 64 + 32, LEN_B[1], &hb);
                    }
                }
                if let Some(m) = sb.feed(ib, fb[ib]) {
                    want.push(1, m, ib);
                }
                ib += 1;
            }
            s += 1;
        }
    }
    assert!(got.calls == want.calls, "C20: each session's completed messages are delivered exactly once and nothing else is");
    let c: usize = kani::any();
    kani::assume(c < want.calls);
    let is_a = want.sess[c] == 0;
    let (len, byte) = if is_a { concat(&ta.0, &LEN_A, &want.members[c], j) } else { concat(&tb.0, &LEN_B, &want.members[c], j) };
    assert!(got.sid[c] == if is_a { SID_A } else { SID_B }, "C20: deliveries happen in the order the sessions complete their messages (per-session order kept)");
    assert!(got.len[c] == len, "C20: delivered length is the sum of that session's fragment payload lengths only");
    if j < len {
        assert!(got.byte[c] == byte, "C20: delivered bytes are the concatenation of that session's fragments only (sessions never mix)");
    }
    assert!(got.hoff[c] == FO[want.last[c]] as i32, "C20: the header handed over is that of the session's last fragment");
    // summary for the covers: the first message of each session
    let (mut a_len, mut b_len) = (-1, -1);
    let mut i = 0;
    while i < NR {
        if i < want.calls {
            if want.sess[i] == 0 && a_len < 0 {
                a_len = concat(&ta.0, &LEN_A, &want.members[i], 0).0;
            }
            if want.sess[i] == 1 && b_len < 0 {
                b_len = concat(&tb.0, &LEN_B, &want.members[i], 0).0;
            }
        }
        i += 1;
    }
    TwoOut { delivered: want.calls, a_len, b_len, interleaved, b_joined_mid: fb[0] & 0x80 == 0 }
}

// @verif tier=quick unwind=10 unwindset=dealloc_buffer_aligned:100
#[kani::proof]
#[kani::stub(std::hash::RandomState::new, fixed_random_state)]
fn c20_assembler_two_sessions_interleaved() {
    let o = assembler_two_sessions(Some(64));
    kani::cover!(o.interleaved && o.delivered == 2 && o.a_len == 71 && o.b_len == 41, "[must] both multi-fragment messages reassembled from a true interleaving");
    kani::cover!(o.b_joined_mid && o.b_len < 0 && o.a_len == 71, "[must] session joined mid-message yields nothing while the other session is reassembled");
    kani::cover!(o.b_joined_mid && o.b_len == 9, "[must] mid-message join ignored, that session's next message start is delivered");
}

// ---------------------------------------------------------------------------------------------------------------
// C: Subscription::poll / controlled_poll over several images
// ---------------------------------------------------------------------------------------------------------------

const T: usize = 64;
const LOGLEN: usize = 3 * T + 4096;
const FRAME: i32 = 32; // header-only frames: two fit into a term
const NI: usize = 3;
const NC: usize = 8; // recorded handler calls
const REG: i64 = 9;
const CORR: [i64; 4] = [11, 12, 13, 14];
const NOBODY: usize = 9;

/// One log: three terms and the meta data section, contiguous (LogBuffers::new needs one region), every term a
/// separate <= 64 element member.
#[repr(C, align(16))]
struct LogMem {
    t0: [u8; T],
    t1: [u8; T],
    t2: [u8; T],
    meta: [u8; 4096],
}

impl LogMem {
    fn zeroed() -> LogMem {
        LogMem { t0: [0; T], t1: [0; T], t2: [0; T], meta: [0; 4096] }
    }
}

struct Mems {
    l0: LogMem,
    l1: LogMem,
    l2: LogMem,
    l3: LogMem,
    c0: Mem<64>,
    c1: Mem<64>,
    c2: Mem<64>,
    c3: Mem<64>,
}

impl Mems {
    fn zeroed() -> Mems {
        Mems { l0: LogMem::zeroed(), l1: LogMem::zeroed(), l2: LogMem::zeroed(), l3: LogMem::zeroed(), c0: Mem::zeroed(), c1: Mem::zeroed(), c2: Mem::zeroed(), c3: Mem::zeroed() }
    }
    fn log(&mut self, i: usize) -> &mut LogMem {
        match i {
            0 => &mut self.l0,
            1 => &mut self.l1,
            2 => &mut self.l2,
            _ => &mut self.l3,
        }
    }
    fn ctr(&mut self, i: usize) -> &mut Mem<64> {
        match i {
            0 => &mut self.c0,
            1 => &mut self.c1,
            2 => &mut self.c2,
            _ => &mut self.c3,
        }
    }
    /// subscriber position of image i as the counter holds it
    fn position(&self, i: usize) -> i64 {
        let c = match i {
            0 => &self.c0,
            1 => &self.c1,
            2 => &self.c2,
            _ => &self.c3,
        };
        i64::from_le_bytes([c.0[0], c.0[1], c.0[2], c.0[3], c.0[4], c.0[5], c.0[6], c.0[7]])
    }
    fn base(&mut self, i: usize) -> usize {
        self.log(i) as *mut LogMem as usize
    }
}

fn err_handler(_e: AeronError) {}

fn empty_cstring() -> CString {
    unsafe { CString::from_vec_unchecked(Vec::new()) }
}

/// A real Image over log i: `words` are the two frame length words (FRAME = committed, 0 = nothing there yet).
fn image(mem: &mut Mems, i: usize, words: [i32; 2], session: i32) -> Image {
    let lg = mem.log(i);
    put_frame(&mut lg.t0, 0, words[0], 0xC0, session);
    put_frame(&mut lg.t0, 32, words[1], 0xC0, session);
    let lb = unsafe { LogBuffers::new(lg as *mut LogMem as *mut u8, LOGLEN as isize, T as i32) };
    let sp = UnsafeBufferPosition::new(mem.ctr(i).buf(), 0);
    Image::create(session, CORR[i], REG, empty_cstring(), &sp, Arc::new(lb), Box::new(err_handler as fn(AeronError)))
}

/// frames visible to a reader standing at the start of the term
fn backlog(words: [i32; 2]) -> i64 {
    if words[0] > 0 {
        if words[1] > 0 {
            2
        } else {
            1
        }
    } else {
        0
    }
}

fn subscription() -> Subscription {
    Subscription::new(dummy_conductor(), REG, empty_cstring(), STREAM, -1)
}

/// What the fragment handler saw during the polls so far.
struct Seen {
    bases: [usize; 4],
    calls: usize,          // in the current poll call
    per: [i64; 4],         // fragments of image i in the current poll call
    taken: [i64; 4],       // fragments of image i over all calls
    last: usize,           // image of the previous fragment in the current call
    finished: [bool; 4],   // the current call has moved on from image i
    revisited: bool,       // a fragment of an image arrived after the call had moved on from it
    in_order: bool,        // every fragment was the next unconsumed frame of its image
    stranger: bool,        // a fragment from a buffer that is none of the images
    first: usize,          // image of the first fragment of the current call
    order: [usize; NC],
}

impl Seen {
    fn new(bases: [usize; 4]) -> Seen {
        Seen { bases, calls: 0, per: [0; 4], taken: [0; 4], last: NOBODY, finished: [false; 4], revisited: false, in_order: true, stranger: false, first: NOBODY, order: [NOBODY; NC] }
    }
    fn begin_call(&mut self) {
        self.calls = 0;
        self.per = [0; 4];
        self.last = NOBODY;
        self.finished = [false; 4];
        self.first = NOBODY;
    }
    fn note(&mut self, b: &AtomicBuffer, off: Index, len: Index, h: &Header) {
        let p = b.buffer() as usize;
        let who = if p == self.bases[0] {
            0
        } else if p == self.bases[1] {
            1
        } else if p == self.bases[2] {
            2
        } else if p == self.bases[3] {
            3
        } else {
            NOBODY
        };
        if who == NOBODY {
            self.stranger = true;
        } else {
            if self.last != NOBODY && self.last != who {
                self.finished[self.last] = true;
            }
            if self.finished[who] {
                self.revisited = true;
            }
            self.in_order = self.in_order && h.term_offset() as i64 == FRAME as i64 * self.taken[who] && off as i64 == FRAME as i64 * self.taken[who] + 32 && len == 0;
            self.per[who] += 1;
            self.taken[who] += 1;
            self.last = who;
            if self.first == NOBODY {
                self.first = who;
            }
            if self.calls < NC {
                self.order[self.calls] = who;
            }
        }
        self.calls += 1;
    }
}

/// The rotation walk of the property statement: start at image `start`, visit every image once in cyclic order, hand
/// each the part of the limit that is left. Returns the fragments per image.
fn reference(n: usize, start: usize, backlog: &[i64; 4], limit: i64) -> [i64; 4] {
    let mut out = [0i64; 4];
    let mut left = if limit > 0 { limit } else { 0 };
    let mut step = 0;
    while step < n {
        let i = (start + step) % n;
        let c = if backlog[i] < left { backlog[i] } else { left };
        out[i] = c;
        left -= c;
        step += 1;
    }
    out
}

fn min64(a: i64, b: i64) -> i64 {
    if a < b {
        a
    } else {
        b
    }
}

struct PollOut {
    limit: i32,
    result: i32,
    total_backlog: i64,
    starved: bool, // an image with data got nothing because the limit was used up by images in front of it
    first: usize,
    rr: usize,
}

/// One poll call over n images from a symbolic rotation state: `warm` earlier calls with fragment limit 0 (they move
/// the starting image and consume nothing), then the call under test with any i32 limit.
fn poll_once(n: usize, words: [[i32; 2]; 3], controlled: bool) -> PollOut {
    pretouch();
    let mut mem = Mems::zeroed();
    let sessions: [i32; 3] = kani::any();
    let mut sub = subscription();
    let mut bl = [0i64; 4];
    let mut i = 0;
    while i < n {
        let img = image(&mut mem, i, words[i], sessions[i]);
        std::mem::forget(sub.add_image(img));
        bl[i] = backlog(words[i]);
        i += 1;
    }
    assert!(sub.image_count() == n, "C20: every added image is in the image list");
    let warm: usize = kani::any();
    kani::assume(warm <= n);
    let mut nothing = |_: &AtomicBuffer, _: Index, _: Index, _: &Header| {};
    i = 0;
    while i < warm {
        let r = sub.poll(&mut nothing, 0);
        assert!(r == 0, "C20: a poll with fragment limit 0 delivers nothing");
        i += 1;
    }
    let limit: i32 = kani::any();
    let mut seen = Seen::new([mem.base(0), mem.base(1), mem.base(2), mem.base(3)]);
    seen.begin_call();
    let result = if controlled {
        sub.controlled_poll(
            |b: &AtomicBuffer, off: Index, len: Index, h: &Header| {
                seen.note(b, off, len, h);
                Ok(ControlledPollAction::Continue)
            },
            limit,
        )
    } else {
        let mut handler = |b: &AtomicBuffer, off: Index, len: Index, h: &Header| seen.note(b, off, len, h);
        sub.poll(&mut handler, limit)
    };
    let total = bl[0] + bl[1] + bl[2];
    let lim = if limit > 0 { limit as i64 } else { 0 };
    assert!(!seen.stranger, "C20: only fragments of the subscription's images are delivered");
    assert!(seen.calls as i64 == result as i64, "C20: the return value is the number of fragments delivered");
    assert!(result as i64 <= lim, "C20: at most fragment_limit fragments are delivered in total");
    assert!(result as i64 == min64(lim, total), "C20: a poll stops only at the limit or when every image has been drained");
    assert!(!seen.revisited, "C20: an image is polled at most once per call (its fragments are contiguous in the call)");
    assert!(seen.in_order, "C20: each image's fragments arrive in stream order, each exactly once");
    let mut matches_some_start = false;
    let mut starved = false;
    let mut s = 0;
    while s < n {
        let r = reference(n, s, &bl, limit as i64);
        if r[0] == seen.per[0] && r[1] == seen.per[1] && r[2] == seen.per[2] {
            matches_some_start = true;
        }
        s += 1;
    }
    assert!(matches_some_start, "C20: per-image counts are those of one cyclic walk handing each image the remaining limit");
    i = 0;
    while i < n {
        assert!(mem.position(i) == FRAME as i64 * seen.per[i], "C20: each subscriber position advances by exactly the fragments delivered from that image");
        assert!(seen.per[i] <= min64(bl[i], lim), "C20: an image yields at most what one poll of it with the limit can consume");
        starved = starved || (bl[i] > 0 && seen.per[i] == 0);
        i += 1;
    }
    std::mem::forget(sub);
    PollOut { limit, result, total_backlog: total, starved, first: seen.first, rr: warm }
}

fn any_words() -> [[i32; 2]; 3] {
    let present: [[bool; 2]; 3] = kani::any();
    let mut w = [[0i32; 2]; 3];
    let mut i = 0;
    while i < 3 {
        w[i][0] = if present[i][0] { FRAME } else { 0 };
        w[i][1] = if present[i][1] { FRAME } else { 0 };
        i += 1;
    }
    w
}

// @verif tier=quick unwind=10
#[kani::proof]
fn c20_poll_two_images_any_backlog() {
    let o = poll_once(2, any_words(), false);
    kani::cover!(o.starved && o.limit > 0, "[must] limit reached before all images polled");
    kani::cover!(o.rr == 2 && o.first == 0 && o.result > 0, "[must] wrap-around of the round-robin index: starting image back at the first");
    kani::cover!(o.rr == 1 && o.first == 1 && o.result == 4, "[must] start at the second image, wrap to the first, everything drained");
    kani::cover!(o.limit < 0 && o.total_backlog == 4, "[must] negative limit with data everywhere");
}
