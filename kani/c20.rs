//! C20 — multi-image subscription polling (bounded, fair) and per-session reassembly; plus the C01 obligation
//! "single-session reassembly" (`c01_reassembly_*`).
//!
//! A. `c01_reassembly_*`: the real `FragmentAssembler` (HashMap + BufferBuilder) fed 1..=3 frames of one session from a
//!    256-byte term: frame offsets / payload lengths literal (0/64/128, 32/32/7), FLAGS bytes and payload bytes symbolic.
//! B. `c20_assembler_*`: two sessions (5 and 9, concrete because SipHash over a symbolic key does not finish), each in
//!    its own term, 3 + 2 frames, all five FLAGS bytes symbolic, the interleaving order symbolic.
//!    Oracle for A and B: `Sess` - the reassembly state machine written from the property statement (unfragmented =>
//!    delivered as is; BEGIN starts a message; middle / END only continue a started message; END delivers the
//!    concatenation and clears) - and `concat`, the byte-by-byte concatenation of the member fragments' payloads.
//! C. `c20_poll_*`: the real `Subscription` (dummy conductor handle) over 2 / 3 real `Image`s, each on its own log
//!    (3 x 64-byte terms + 4096-byte meta data, one struct per log so that every term is a <= 64 element member and
//!    stays field sensitive at the default setting) with 0..=2 committed frames. Oracle: `reference`, the rotation
//!    walk written from the property statement (start somewhere, visit every image once in cyclic order, hand each the
//!    remaining limit), in i64.
use super::publog::dummy_conductor;
use super::util::*;
use crate::concurrent::atomic_buffer::AtomicBuffer;
use crate::concurrent::logbuffer::header::Header;
use crate::concurrent::logbuffer::term_reader::ErrorHandler;
use crate::concurrent::position::UnsafeBufferPosition;
use crate::fragment_assembler::FragmentAssembler;
use crate::image::{ControlledPollAction, Image};
use crate::subscription::Subscription;
use crate::utils::errors::AeronError;
use crate::utils::log_buffers::LogBuffers;
use crate::utils::types::Index;
use std::ffi::CString;
use std::mem::ManuallyDrop;
use std::sync::Arc;

const STREAM: i32 = 1001;
const TERM_ID: i32 = 77;
const SID_A: i32 = 5;
const SID_B: i32 = 9;

/// Every key hashes to the same constant: a legal (if poor) hash function. The map then tells sessions apart by key
/// equality alone, and the SipHash rounds (rotates are not constant-folded by CBMC) stay out of the formula.
fn fixed_finish(_h: &std::hash::DefaultHasher) -> u64 {
    0x517c_c1b7_2722_0a95
}

fn fixed_random_state() -> std::hash::RandomState {
    unsafe { std::mem::transmute::<[u64; 2], std::hash::RandomState>([1, 2]) }
}

fn put_le<const N: usize>(m: &mut [u8], at: usize, b: [u8; N]) {
    let mut i = 0;
    while i < N {
        m[at + i] = b[i];
        i += 1;
    }
}

/// A DATA frame header at `off` with the literal protocol offsets (0 length, 4 version, 5 flags, 6 type, 8 term offset,
/// 12 session, 16 stream, 20 term id); the payload keeps whatever the memory holds.
fn put_frame(m: &mut [u8], off: usize, word: i32, flags: u8, session: i32) {
    put_le(m, off, word.to_le_bytes());
    m[off + 4] = 0;
    m[off + 5] = flags;
    put_le(m, off + 6, 1u16.to_le_bytes());
    put_le(m, off + 8, (off as i32).to_le_bytes());
    put_le(m, off + 12, session.to_le_bytes());
    put_le(m, off + 16, STREAM.to_le_bytes());
    put_le(m, off + 20, TERM_ID.to_le_bytes());
}

// ---------------------------------------------------------------------------------------------------------------
// A / B: fragment assembler
// ---------------------------------------------------------------------------------------------------------------

/// frame offsets and payload lengths of a session's frames (session B uses the first two offsets with its own lengths)
const FO: [usize; 3] = [0, 64, 128];
const LEN_A: [i32; 3] = [32, 32, 7];
const LEN_B: [i32; 3] = [32, 9, 0];
const NR: usize = 6; // recorded delegate calls (one more than can legally happen)

/// What the delegate was handed, call by call. `j` is the symbolic probe index: byte j of every delivered message is
/// recorded, so an unconstrained j gives full content equality.
struct Got {
    j: i32,
    terms: [usize; 2],
    calls: usize,
    len: [i32; NR],
    off: [i32; NR],
    byte: [u8; NR],
    sid: [i32; NR],
    hoff: [i32; NR],
    in_term: [bool; NR],
}

impl Got {
    fn new(j: i32, terms: [usize; 2]) -> Got {
        Got { j, terms, calls: 0, len: [0; NR], off: [0; NR], byte: [0; NR], sid: [0; NR], hoff: [0; NR], in_term: [false; NR] }
    }
    fn note(&mut self, b: &AtomicBuffer, off: Index, len: Index, h: &Header) {
        let c = self.calls;
        if c < NR {
            self.len[c] = len;
            self.off[c] = off;
            self.sid[c] = h.session_id();
            self.hoff[c] = h.offset();
            let p = b.buffer() as usize;
            self.in_term[c] = p == self.terms[0] || p == self.terms[1];
            self.byte[c] = if self.j < len { b.get::<u8>(off + self.j) } else { 0 };
        }
        self.calls += 1;
    }
}

/// The reassembly state machine of ONE session, from the property statement. `feed` returns the member set of the
/// message that frame `k` completes, if any.
#[derive(Copy, Clone)]
struct Sess {
    started: bool,
    cur: [bool; 3],
}

impl Sess {
    fn new() -> Sess {
        Sess { started: false, cur: [false; 3] }
    }
    fn feed(&mut self, k: usize, flags: u8) -> Option<[bool; 3]> {
        let begin = flags & 0x80 != 0;
        let end = flags & 0x40 != 0;
        if begin && end {
            let mut m = [false; 3];
            m[k] = true;
            Some(m) // unfragmented: delivered as is, an assembly in progress is not touched
        } else if begin {
            self.started = true;
            self.cur = [false; 3];
            self.cur[k] = true;
            None
        } else if self.started {
            self.cur[k] = true;
            if end {
                let m = self.cur;
                self.started = false;
                self.cur = [false; 3];
                Some(m)
            } else {
                None
            }
        } else {
            None // joined mid-message: nothing until the next BEGIN
        }
    }
}

/// Expected deliveries in order.
struct Want {
    calls: usize,
    sess: [usize; NR],
    members: [[bool; 3]; NR],
    last: [usize; NR],
}

impl Want {
    fn new() -> Want {
        Want { calls: 0, sess: [0; NR], members: [[false; 3]; NR], last: [0; NR] }
    }
    fn push(&mut self, sess: usize, members: [bool; 3], last: usize) {
        if self.calls < NR {
            self.sess[self.calls] = sess;
            self.members[self.calls] = members;
            self.last[self.calls] = last;
        }
        self.calls += 1;
    }
}

/// (length, byte j) of the concatenation of the member fragments' payloads
fn concat(term: &[u8; 256], lens: &[i32; 3], members: &[bool; 3], j: i32) -> (i32, u8) {
    let mut total = 0;
    let mut byte = 0u8;
    let mut k = 0;
    while k < 3 {
        if members[k] {
            if j >= total && j < total + lens[k] {
                byte = term[FO[k] + 32 + (j - total) as usize];
            }
            total += lens[k];
        }
        k += 1;
    }
    (total, byte)
}

struct SingleOut {
    delivered: usize,
    first_len: i32,
    joined_mid: bool,
}

fn reassembly_single(init: Option<isize>) -> SingleOut {
    pretouch();
    let mut term = Mem::<256>::any();
    let flags: [u8; 3] = kani::any();
    let n: usize = kani::any();
    kani::assume(n >= 1 && n <= 3);
    let mut k = 0;
    while k < 3 {
        put_frame(&mut term.0, FO[k], 32 + LEN_A[k], flags[k], SID_A);
        k += 1;
    }
    let tb = term.buf();
    let j: i32 = kani::any();
    kani::assume(j >= 0 && j < 96);
    let mut got = Got::new(j, [tb.buffer() as usize, 0]);
    let mut delegate = |b: &AtomicBuffer, off: Index, len: Index, h: &Header| got.note(b, off, len, h);
    // never dropped: BufferBuilder's Drop runs a byte loop over its capacity in the dev profile
    let mut asm = ManuallyDrop::new(FragmentAssembler::new(&mut delegate, init));
    {
        let mut handler = asm.handler();
        let mut hdr = Header::new(TERM_ID, 256);
        hdr.set_buffer(tb);
        k = 0;
        while k < 3 {
            if k < n {
                hdr.set_offset(FO[k] as i32);
                handler(&tb, FO[k] as i32 + 32, LEN_A[k], &hdr);
            }
            k += 1;
        }
    }
    let mut want = Want::new();
    let mut s = Sess::new();
    k = 0;
    while k < 3 {
        if k < n {
            if let Some(m) = s.feed(k, flags[k]) {
                want.push(0, m, k);
            }
        }
        k += 1;
    }
    assert!(got.calls == want.calls, "C01: the delegate is called exactly once per completed message and never for anything else");
    let c: usize = kani::any();
    kani::assume(c < want.calls);
    let (len, byte) = concat(&term.0, &LEN_A, &want.members[c], j);
    assert!(got.len[c] == len, "C01: delivered length is the sum of the message's fragment payload lengths, in offer order");
    if j < len {
        assert!(got.byte[c] == byte, "C01: delivered bytes are the concatenation of the message's fragment payloads");
    }
    assert!(got.sid[c] == SID_A && got.hoff[c] == FO[want.last[c]] as i32, "C01: the header handed over is that of the message's last fragment");
    let single = (flags[want.last[c]] & 0xC0) == 0xC0;
    assert!(got.in_term[c] == single, "C01: unfragmented messages are handed over in place, assembled ones from the session buffer");
    if single {
        assert!(got.off[c] == FO[want.last[c]] as i32 + 32, "C01: unfragmented message delivered at its own payload offset");
    }
    let (first_len, _) = concat(&term.0, &LEN_A, &want.members[0], 0);
    SingleOut { delivered: want.calls, first_len: if want.calls > 0 { first_len } else { -1 }, joined_mid: flags[0] & 0x80 == 0 }
}

/// initial buffer 64: header + first fragment fit exactly, the second and the third fragment each reallocate
// @verif tier=quick unwind=10 unwindset=dealloc_buffer_aligned:100
#[kani::proof]
#[kani::stub(std::hash::RandomState::new, fixed_random_state)]
#[kani::stub(<std::hash::DefaultHasher as std::hash::Hasher>::finish, fixed_finish)]
fn c01_reassembly_single_session_growth() {
    let o = reassembly_single(Some(64));
    kani::cover!(o.delivered == 1 && o.first_len == 71, "[must] three fragments reassembled: growth path of the builder taken twice");
    kani::cover!(o.delivered == 1 && o.first_len == 64, "[must] two fragments reassembled: growth path of the builder taken");
    kani::cover!(o.joined_mid && o.delivered == 1 && o.first_len == 39, "[must] mid-message join ignored, the next message start is delivered");
    kani::cover!(o.delivered == 3, "[must] three unfragmented messages");
    kani::cover!(o.delivered == 0, "[must] nothing complete: nothing delivered");
}

/// default initial buffer (4096): no reallocation
// @verif tier=quick unwind=10
#[kani::proof]
#[kani::stub(std::hash::RandomState::new, fixed_random_state)]
#[kani::stub(<std::hash::DefaultHasher as std::hash::Hasher>::finish, fixed_finish)]
fn c01_reassembly_single_session_default_buffer() {
    let o = reassembly_single(None);
    kani::cover!(o.delivered == 1 && o.first_len == 71, "[must] three fragments reassembled");
    kani::cover!(o.joined_mid && o.delivered == 1 && o.first_len == 39, "[must] mid-message join ignored, the next message start is delivered");
}

/// initial buffer 32 = header only: the very first fragment reallocates
// @verif tier=thorough unwind=10 unwindset=dealloc_buffer_aligned:110
#[kani::proof]
#[kani::stub(std::hash::RandomState::new, fixed_random_state)]
#[kani::stub(<std::hash::DefaultHasher as std::hash::Hasher>::finish, fixed_finish)]
fn c01_reassembly_single_session_header_only_buffer() {
    let o = reassembly_single(Some(32));
    kani::cover!(o.delivered == 1 && o.first_len == 71, "[must] three fragments reassembled: growth path of the builder taken");
}

struct TwoOut {
    delivered: usize,
    a_len: i32,
    b_len: i32,
    interleaved: bool,
    b_joined_mid: bool,
}

/// Two sessions interleaved at fragment granularity.
fn assembler_two_sessions(init: Option<isize>) -> TwoOut {
    pretouch();
    let mut ta = Mem::<256>::any();
    let mut tb = Mem::<256>::any();
    let fa: [u8; 3] = kani::any();
    let fb: [u8; 3] = kani::any();
    let mut k = 0;
    while k < 3 {
        put_frame(&mut ta.0, FO[k], 32 + LEN_A[k], fa[k], SID_A);
        if k < 2 {
            put_frame(&mut tb.0, FO[k], 32 + LEN_B[k], fb[k], SID_B);
        }
        k += 1;
    }
    let (ba, bb) = (ta.buf(), tb.buf());
    // order[s]: the next fragment comes from session A (if it has one left)
    let order: [bool; 5] = kani::any();
    let j: i32 = kani::any();
    kani::assume(j >= 0 && j < 96);
    let mut got = Got::new(j, [ba.buffer() as usize, bb.buffer() as usize]);
    let mut delegate = |b: &AtomicBuffer, off: Index, len: Index, h: &Header| got.note(b, off, len, h);
    let mut asm = ManuallyDrop::new(FragmentAssembler::new(&mut delegate, init));
    let mut want = Want::new();
    let mut interleaved = false;
    {
        let mut handler = asm.handler();
        let mut ha = Header::new(TERM_ID, 256);
        ha.set_buffer(ba);
        let mut hb = Header::new(TERM_ID, 256);
        hb.set_buffer(bb);
        let (mut sa, mut sb) = (Sess::new(), Sess::new());
        let (mut ia, mut ib) = (0usize, 0usize);
        let mut s = 0;
        while s < 5 {
            let take_a = ib >= 2 || (order[s] && ia < 3);
            if take_a {
                // literal frame per arm: the session id the assembler hashes stays a constant
                match ia {
                    0 => {
                        ha.set_offset(0);
                        handler(&ba, 32, LEN_A[0], &ha);
                    }
                    1 => {
                        ha.set_offset(64);
                        handler(&ba, 64 + 32, LEN_A[1], &ha);
                    }
                    _ => {
                        ha.set_offset(128);
                        handler(&ba, 128 + 32, LEN_A[2], &ha);
                    }
                }
                if let Some(m) = sa.feed(ia, fa[ia]) {
                    want.push(0, m, ia);
                }
                interleaved = interleaved || (ia > 0 && ib > 0 && ib < 2);
                ia += 1;
            } else {
                match ib {
                    0 => {
                        hb.set_offset(0);
                        handler(&bb, 32, LEN_B[0], &hb);
                    }
                    _ => {
                        hb.set_offset(64);
                        handler(&bb, 64 + 32, LEN_B[1], &hb);
                    }
                }
                if let Some(m) = sb.feed(ib, fb[ib]) {
                    want.push(1, m, ib);
                }
                ib += 1;
            }
            s += 1;
        }
    }
    assert!(got.calls == want.calls, "C20: each session's completed messages are delivered exactly once and nothing else is");
    let c: usize = kani::any();
    kani::assume(c < want.calls);
    let is_a = want.sess[c] == 0;
    let (len, byte) = if is_a { concat(&ta.0, &LEN_A, &want.members[c], j) } else { concat(&tb.0, &LEN_B, &want.members[c], j) };
    assert!(got.sid[c] == if is_a { SID_A } else { SID_B }, "C20: deliveries happen in the order the sessions complete their messages (per-session order kept)");
    assert!(got.len[c] == len, "C20: delivered length is the sum of that session's fragment payload lengths only");
    if j < len {
        assert!(got.byte[c] == byte, "C20: delivered bytes are the concatenation of that session's fragments only (sessions never mix)");
    }
    assert!(got.hoff[c] == FO[want.last[c]] as i32, "C20: the header handed over is that of the session's last fragment");
    // summary for the covers: the first message of each session
    let (mut a_len, mut b_len) = (-1, -1);
    let mut i = 0;
    while i < NR {
        if i < want.calls {
            if want.sess[i] == 0 && a_len < 0 {
                a_len = concat(&ta.0, &LEN_A, &want.members[i], 0).0;
            }
            if want.sess[i] == 1 && b_len < 0 {
                b_len = concat(&tb.0, &LEN_B, &want.members[i], 0).0;
            }
        }
        i += 1;
    }
    TwoOut { delivered: want.calls, a_len, b_len, interleaved, b_joined_mid: fb[0] & 0x80 == 0 }
}

// @verif tier=quick unwind=10 unwindset=simd_bitmask_impl:17,find_inner:3,find_insert_index:3,find_suitable_capacity:5
#[kani::proof]
#[kani::stub(std::hash::RandomState::new, fixed_random_state)]
#[kani::stub(<std::hash::DefaultHasher as std::hash::Hasher>::finish, fixed_finish)]
fn c20_assembler_two_sessions_interleaved() {
    let o = assembler_two_sessions(None);
    kani::cover!(o.interleaved && o.delivered == 2 && o.a_len == 71 && o.b_len == 41, "[must] both multi-fragment messages reassembled from a true interleaving");
    kani::cover!(o.b_joined_mid && o.b_len < 0 && o.a_len == 71, "[must] session joined mid-message yields nothing while the other session is reassembled");
    kani::cover!(o.b_joined_mid && o.b_len == 9, "[must] mid-message join ignored, that session's next message start is delivered");
}

// ---------------------------------------------------------------------------------------------------------------
// C: Subscription::poll / controlled_poll over several images
// ---------------------------------------------------------------------------------------------------------------
//
// What CBMC's symbolic execution can and cannot see decides the construction (all measured):
// * `Subscription::add_image` keeps the images in a heap `Vec<Image>`; nothing read back from a heap block larger than
//   64 bytes is constant-propagated, so every pointer inside an image (term buffers, position counter, vtable of the
//   boxed error handler) becomes an expression only the solver can evaluate. Dropping such an image (add_image and
//   remove_image drop the previous list) dispatches the boxed handler's drop over every drop glue of the binary with
//   garbage operands. One poll over two such images: 1 M SSA steps, solver out of memory at 14 GB.
// * `inject` therefore places the images in a typed `[Image; N]` local of the harness and points the subscription's
//   (empty) `Vec<Image>` at it. The subscription, its rotation index and the poll code are the real ones; only the
//   storage of the list differs from what `add_image` would allocate. Every access then has a literal address as long
//   as the starting image and the frame length words are literals on the path: `split!` case-splits the solver-chosen
//   rotation state and backlog so that each leaf runs on literals (limit, ids stay symbolic inside the leaf).
// * The real `add_image` / `remove_image` are exercised on top of an injected list in the `c20_poll_*_image_*`
//   harnesses (one list mutation each: the images dropped are the transparent originals).

const T: usize = 64;
const LOGLEN: usize = 3 * T + 4096;
const FRAME: i32 = 32; // header-only frames: two fit into a term
const NC: usize = 8; // recorded handler calls
const REG: i64 = 9;
const CORR: [i64; 4] = [11, 12, 13, 14];
const NOBODY: usize = 9;

/// One log: three 64-byte terms and the meta data section, contiguous (LogBuffers::new needs one region); every term is
/// a separate member of at most 64 elements, so it stays field sensitive at the default setting.
#[repr(C, align(16))]
struct LogMem {
    t0: [u8; T],
    t1: [u8; T],
    t2: [u8; T],
    meta: [u8; 4096],
}

impl LogMem {
    fn zeroed() -> LogMem {
        LogMem { t0: [0; T], t1: [0; T], t2: [0; T], meta: [0; 4096] }
    }
}

#[derive(Copy, Clone)]
struct Mems {
    log: [*mut u8; 4],
    ctr: [*mut u8; 4],
}

/// four zeroed logs and four zeroed position counters, each its own local (its own root object for CBMC)
macro_rules! mems {
    ($m:ident) => {
        let (mut l0, mut l1, mut l2, mut l3) = (LogMem::zeroed(), LogMem::zeroed(), LogMem::zeroed(), LogMem::zeroed());
        let (mut c0, mut c1, mut c2, mut c3) = ([0u64; 8], [0u64; 8], [0u64; 8], [0u64; 8]);
        let $m = Mems {
            log: [&mut l0 as *mut LogMem as *mut u8, &mut l1 as *mut LogMem as *mut u8, &mut l2 as *mut LogMem as *mut u8, &mut l3 as *mut LogMem as *mut u8],
            ctr: [c0.as_mut_ptr() as *mut u8, c1.as_mut_ptr() as *mut u8, c2.as_mut_ptr() as *mut u8, c3.as_mut_ptr() as *mut u8],
        };
    };
}

impl Mems {
    /// subscriber position of image i as the counter holds it
    fn position(&self, i: usize) -> i64 {
        unsafe { *(self.ctr[i] as *const i64) }
    }
    fn base(&self, i: usize) -> usize {
        self.log[i] as usize
    }
    fn bases(&self) -> [usize; 4] {
        [self.base(0), self.base(1), self.base(2), self.base(3)]
    }
    fn term0(&self, i: usize) -> &mut [u8] {
        unsafe { std::slice::from_raw_parts_mut(self.log[i], T) }
    }
    /// the two frame length words of image i (FRAME = committed, 0 = nothing there yet)
    fn set_words(&self, i: usize, words: [i32; 2]) {
        put_le(self.term0(i), 0, words[0].to_le_bytes());
        put_le(self.term0(i), 32, words[1].to_le_bytes());
    }
}

/// never called; forgets its argument so that the harness does not reference AeronError's (recursive) drop glue
fn err_handler(e: AeronError) {
    std::mem::forget(e)
}

fn empty_cstring() -> CString {
    unsafe { CString::from_vec_unchecked(Vec::new()) }
}

/// A real Image over log i, two frame headers laid out at 0 and 32, length words still 0.
fn image(mem: &Mems, i: usize, session: i32) -> Image {
    put_frame(mem.term0(i), 0, 0, 0xC0, session);
    put_frame(mem.term0(i), 32, 0, 0xC0, session);
    let lb = unsafe { LogBuffers::new(mem.log[i], LOGLEN as isize, T as i32) };
    let sp = UnsafeBufferPosition::new(AtomicBuffer::new(mem.ctr[i], 64), 0);
    Image::create(session, CORR[i], REG, empty_cstring(), &sp, Arc::new(lb), Box::new(err_handler as fn(AeronError)))
}

fn subscription() -> Subscription {
    Subscription::new(dummy_conductor(), REG, empty_cstring(), STREAM, -1)
}

/// Harness scaffolding (see the section comment): make the subscription's image list be the `n` images at `images`.
/// Capacity 0: the list is never reallocated by poll, and a later `add_image` / `remove_image` (which replace the list)
/// must not hand harness memory to the allocator.
#[allow(invalid_reference_casting)]
fn inject(sub: &mut Subscription, images: *mut Image, n: usize) {
    let list = sub.images() as *const Vec<Image> as *mut Vec<Image>;
    unsafe { std::ptr::write(list, Vec::from_raw_parts(images, n, 0)) };
}

/// `split!(selector, |k| body, 0, 1, 2)`: the solver-chosen selector is case-split; `body` runs with a literal.
macro_rules! split {
    ($s:expr, $f:expr, $k:literal) => { $f($k) };
    ($s:expr, $f:expr, $k:literal, $($rest:literal),+) => {
        if $s == $k { $f($k) } else { split!($s, $f, $($rest),+) }
    };
}

const WORDS3: [[i32; 2]; 4] = [[0, 0], [FRAME, 0], [FRAME, FRAME], [0, FRAME]];

/// frames visible to a reader standing at the start of the term
fn backlog(words: [i32; 2]) -> i64 {
    if words[0] > 0 {
        if words[1] > 0 {
            2
        } else {
            1
        }
    } else {
        0
    }
}

/// What the fragment handler saw during the polls so far.
struct Seen {
    bases: [usize; 4],
    calls: usize,        // in the current poll call
    per: [i64; 4],       // fragments of image i in the current poll call
    taken: [i64; 4],     // fragments of image i over all calls
    last: usize,         // image of the previous fragment in the current call
    finished: [bool; 4], // the current call has moved on from image i
    revisited: bool,     // a fragment of an image arrived after the call had moved on from it
    in_order: bool,      // every fragment was the next unconsumed frame of its image
    stranger: bool,      // a fragment from a buffer that is none of the images
    first: usize,        // image of the first fragment of the current call
}

impl Seen {
    fn new(bases: [usize; 4]) -> Seen {
        Seen { bases, calls: 0, per: [0; 4], taken: [0; 4], last: NOBODY, finished: [false; 4], revisited: false, in_order: true, stranger: false, first: NOBODY }
    }
    fn begin_call(&mut self) {
        self.calls = 0;
        self.per = [0; 4];
        self.last = NOBODY;
        self.finished = [false; 4];
        self.first = NOBODY;
    }
    fn note(&mut self, b: &AtomicBuffer, off: Index, len: Index, h: &Header) {
        let p = b.buffer() as usize;
        let who = if p == self.bases[0] {
            0
        } else if p == self.bases[1] {
            1
        } else if p == self.bases[2] {
            2
        } else if p == self.bases[3] {
            3
        } else {
            NOBODY
        };
        if who == NOBODY {
            self.stranger = true;
        } else {
            if self.last != NOBODY && self.last != who {
                self.finished[self.last] = true;
            }
            if self.finished[who] {
                self.revisited = true;
            }
            self.in_order = self.in_order && h.term_offset() as i64 == FRAME as i64 * self.taken[who] && off as i64 == FRAME as i64 * self.taken[who] + 32 && len == 0;
            self.per[who] += 1;
            self.taken[who] += 1;
            self.last = who;
            if self.first == NOBODY {
                self.first = who;
            }
        }
        self.calls += 1;
    }
}

/// The rotation walk of the property statement over the image list `ids[..n]`: start at list position `start`, visit
/// every image once in cyclic order, hand each the part of the limit that is left. Returns the fragments per image id.
fn reference(n: usize, ids: &[usize; 4], start: usize, backlog: &[i64; 4], limit: i64) -> [i64; 4] {
    let mut out = [0i64; 4];
    let mut left = if limit > 0 { limit } else { 0 };
    let mut step = 0;
    while step < n {
        let i = ids[(start + step) % n];
        let c = if backlog[i] < left { backlog[i] } else { left };
        out[i] = c;
        left -= c;
        step += 1;
    }
    out
}

fn min64(a: i64, b: i64) -> i64 {
    if a < b {
        a
    } else {
        b
    }
}

#[derive(Copy, Clone)]
struct PollOut {
    limit: i32,
    result: i32,
    total_backlog: i64,
    starved: bool, // an image with data got nothing because the limit was used up by images in front of it
    first: usize,
    rr: usize,
}

/// a poll with fragment limit 0: moves the starting image, consumes nothing
fn idle_poll(sub: &mut Subscription) {
    let mut nothing = |_: &AtomicBuffer, _: Index, _: Index, _: &Header| {};
    let r = sub.poll(&mut nothing, 0);
    assert!(r == 0, "C20: a poll with fragment limit 0 delivers nothing");
}

fn plain_poll(sub: &mut Subscription, seen: &mut Seen, limit: i32) -> i32 {
    let mut handler = |b: &AtomicBuffer, off: Index, len: Index, h: &Header| seen.note(b, off, len, h);
    sub.poll(&mut handler, limit)
}

fn controlled_poll(sub: &mut Subscription, seen: &mut Seen, limit: i32) -> i32 {
    sub.controlled_poll(
        |b: &AtomicBuffer, off: Index, len: Index, h: &Header| {
            seen.note(b, off, len, h);
            Ok(ControlledPollAction::Continue)
        },
        limit,
    )
}

/// Everything one poll call must satisfy, given the image list `ids[..n]` (image ids in list order) and each image's
/// backlog `bl` / fragments consumed before the call `before`.
fn check_poll(n: usize, ids: &[usize; 4], mem: &Mems, seen: &Seen, bl: &[i64; 4], before: &[i64; 4], limit: i32, result: i32) -> bool {
    let total = bl[0] + bl[1] + bl[2] + bl[3];
    let lim = if limit > 0 { limit as i64 } else { 0 };
    assert!(!seen.stranger, "C20: only fragments of the subscription's images are delivered");
    assert!(seen.calls as i64 == result as i64, "C20: the return value is the number of fragments delivered");
    assert!(result as i64 <= lim, "C20: at most fragment_limit fragments are delivered in total");
    assert!(result as i64 == min64(lim, total), "C20: a poll stops only at the limit or when every image has been drained");
    assert!(!seen.revisited, "C20: an image is polled at most once per call (its fragments are contiguous in the call)");
    assert!(seen.in_order, "C20: each image's fragments arrive in stream order, each exactly once");
    let mut matches_some_start = false;
    let mut s = 0;
    while s < n {
        let r = reference(n, ids, s, bl, limit as i64);
        if r[0] == seen.per[0] && r[1] == seen.per[1] && r[2] == seen.per[2] && r[3] == seen.per[3] {
            matches_some_start = true;
        }
        s += 1;
    }
    assert!(matches_some_start, "C20: per-image counts are those of one cyclic walk handing each image the remaining limit");
    let mut starved = false;
    let mut i = 0;
    while i < 4 {
        assert!(mem.position(i) == FRAME as i64 * (before[i] + seen.per[i]), "C20: each subscriber position advances by exactly the fragments delivered from that image");
        assert!(seen.per[i] <= min64(bl[i], lim), "C20: an image yields at most what one poll of it with the limit can consume");
        starved = starved || (bl[i] > 0 && seen.per[i] == 0);
        i += 1;
    }
    starved
}

/// Leaf of the case split: `warm` earlier calls with fragment limit 0 (they move the starting image and consume
/// nothing), backlog code `code` (base-3 digit i = frames committed in image i), then the call under test with any limit.
fn poll_leaf(n: usize, sub: &mut Subscription, mem: &Mems, warm: usize, code: usize, do_poll: impl Fn(&mut Subscription, &mut Seen, i32) -> i32) -> PollOut {
    let mut bl = [0i64; 4];
    let mut c = code;
    let mut i = 0;
    while i < n {
        let words = WORDS3[c % 4];
        mem.set_words(i, words);
        bl[i] = backlog(words);
        c /= 4;
        i += 1;
    }
    i = 0;
    while i < warm {
        idle_poll(sub);
        i += 1;
    }
    let limit: i32 = kani::any();
    let mut seen = Seen::new(mem.bases());
    seen.begin_call();
    let result = do_poll(sub, &mut seen, limit);
    let starved = check_poll(n, &[0, 1, 2, 3], mem, &seen, &bl, &[0; 4], limit, result);
    PollOut { limit, result, total_backlog: bl[0] + bl[1] + bl[2] + bl[3], starved, first: seen.first, rr: warm }
}

macro_rules! poll_family {
    ($name:ident, $n:literal, [$($img:literal),+], $kind:expr, [$($warm:literal),+], [$($code:literal),+]) => {
        #[kani::proof]
        fn $name() {
            pretouch();
            mems!(mem);
            let sessions: [i32; 4] = kani::any();
            let mut sub = subscription();
            let mut images = ManuallyDrop::new([$(image(&mem, $img, sessions[$img])),+]);
            inject(&mut sub, images.as_mut_ptr(), $n);
            assert!(sub.image_count() == $n && !sub.is_closed() && sub.registration_id() == REG, "C20: harness subscription holds the injected images");
            let warm: usize = kani::any();
            let code: usize = kani::any();
            kani::assume(warm <= $n);
            let o = split!(warm, |w| split!(code, |c| poll_leaf($n, &mut sub, &mem, w, c, $kind), $($code),+), $($warm),+);
            std::mem::forget(sub);
            kani::cover!(o.starved && o.limit > 0, "[must] limit reached before all images polled");
            kani::cover!(o.rr == $n && o.first == 0 && o.result > 0, "[must] wrap-around of the round-robin index: starting image back at the first");
            kani::cover!(o.rr == $n - 1 && o.first == $n - 1 && o.result as i64 == 2 * $n, "[must] start at the last image, wrap to the first, everything drained");
            kani::cover!(o.limit < 0 && o.total_backlog == 2 * $n, "[must] negative limit with data everywhere");
            kani::cover!(o.limit == i32::MAX, "[must] largest limit");
        }
    };
}

// backlog codes: base-4 digit i selects image i's length words among none / one frame / two frames / gap (second frame
// committed behind an uncommitted first one: nothing visible)
// @verif tier=quick unwind=10
poll_family!(c20_poll_two_images_any_backlog, 2, [0, 1], plain_poll, [0, 1, 2], [0, 1, 2, 3, 4, 5, 6, 7, 8, 9, 10, 11, 12, 13, 14, 15]);

// PROBES (temporary)
macro_rules! spin { ($name:ident) => { #[inline(never)] fn $name(w: i64) -> i64 { let mut k = 0; while k < w { k += 1; } k } }; }
spin!(spin_raw);
spin!(spin_ab);
spin!(spin_lb);
spin!(spin_arc);
spin!(spin_img_len);
spin!(spin_img_pos);
spin!(spin_vol);
spin!(spin_vecab);

// @verif tier=off unwind=10
#[kani::proof]
fn c20_zz_probe_opacity() {
    pretouch();
    mems!(mem);
    let mut img = image(&mem, 0, 5);
    mem.set_words(0, [3, 3]);
    let raw = unsafe { *(mem.log[0] as *const i32) } as i64;
    spin_raw(raw);
    let ab = AtomicBuffer::new(mem.log[0], 64);
    spin_ab(ab.get::<i32>(0) as i64);
    spin_vol(ab.get_volatile::<i32>(0) as i64);
    let lb = unsafe { LogBuffers::new(mem.log[0], LOGLEN as isize, T as i32) };
    spin_lb(lb.atomic_buffer(0).get::<i32>(0) as i64);
    let arc = Arc::new(lb);
    spin_arc(arc.atomic_buffer(0).get::<i32>(0) as i64);
    let v: Vec<AtomicBuffer> = (0..3).map(|i| arc.atomic_buffer(i)).collect();
    spin_vecab(v[0].get::<i32>(0) as i64);
    spin_img_len((img.term_buffer_length() / 16) as i64);
    spin_img_pos(img.position() + 3);
    std::mem::forget(img);
    std::mem::forget(arc);
    std::mem::forget(v);
}

// @verif tier=off unwind=10
#[kani::proof]
fn c20_zz_probe_real_add() {
    pretouch();
    mems!(mem);
    let mut sub = subscription();
    std::mem::forget(sub.add_image(image(&mem, 0, 5)));
    std::mem::forget(sub.add_image(image(&mem, 1, 6)));
    mem.set_words(0, [FRAME, FRAME]);
    mem.set_words(1, [FRAME, 0]);
    let mut n = 0;
    let mut h = |_: &AtomicBuffer, _: Index, _: Index, _: &Header| n += 1;
    let r = sub.poll(&mut h, 5);
    assert!(r == 3, "C20: probe");
    std::mem::forget(sub);
}

// @verif tier=off unwind=10
#[kani::proof]
#[kani::stub(std::hash::RandomState::new, fixed_random_state)]
#[kani::stub(<std::hash::DefaultHasher as std::hash::Hasher>::finish, fixed_finish)]
fn c20_zz_probe_asm() {
    pretouch();
    let mut term = Mem::<256>::any();
    put_frame(&mut term.0, 0, 64, 0x80, SID_A);
    put_frame(&mut term.0, 64, 64, 0x00, SID_A);
    put_frame(&mut term.0, 128, 39, 0x40, SID_A);
    let tb = term.buf();
    let mut got = Got::new(3, [tb.buffer() as usize, 0]);
    let mut delegate = |b: &AtomicBuffer, off: Index, len: Index, h: &Header| got.note(b, off, len, h);
    let asm: &mut FragmentAssembler = Box::leak(Box::new(FragmentAssembler::new(&mut delegate, None)));
    {
        let mut handler = asm.handler();
        let mut hdr = Header::new(TERM_ID, 256);
        hdr.set_buffer(tb);
        hdr.set_offset(0);
        handler(&tb, 32, 32, &hdr);
        hdr.set_offset(64);
        handler(&tb, 96, 32, &hdr);
        hdr.set_offset(128);
        handler(&tb, 160, 7, &hdr);
    }
    assert!(got.calls == 1 && got.len[0] == 71, "C20: probe");
}

spin!(spin_map);
// @verif tier=off unwind=10
#[kani::proof]
#[kani::stub(std::hash::RandomState::new, fixed_random_state)]
#[kani::stub(<std::hash::DefaultHasher as std::hash::Hasher>::finish, fixed_finish)]
fn c20_zz_probe_map() {
    let mut m: std::collections::HashMap<i32, i32> = std::collections::HashMap::new();
    m.insert(5, 3);
    let v = match m.get(&5) { Some(v) => *v, None => 9 };
    spin_map(v as i64);
    std::mem::forget(m);
}

spin!(spin_ms);
spin!(spin_plain);
// @verif tier=off unwind=10
#[kani::proof]
fn c20_zz_probe_memset() {
    unsafe {
        let p = std::alloc::alloc(std::alloc::Layout::from_size_align_unchecked(116, 16));
        *p.add(100) = 3;
        spin_plain(*p.add(100) as i64);
        p.add(96).write_bytes(0xFF, 20);
        spin_ms(*p.add(99) as i64 - 252);
        spin_plain(*p.add(100) as i64 - 252);
    }
}
