//! C20 — multi-image subscription polling (bounded, fair) and per-session reassembly; plus the C01 obligation
//! "single-session reassembly" (`c01_reassembly_*`).
//!
//! A/B. `c01_reassembly_*` (one session) and `c20_assembler_*` (two sessions, ids 5 and 9): the real `FragmentAssembler`
//!    (std HashMap + BufferBuilder) is fed frames from 256-byte terms, one term per session. Per instance LITERAL:
//!    the FLAGS byte of every frame (BEGIN / middle / END / unfragmented, reserved bits set in some instances), frame
//!    offsets and payload lengths (0/64/128; 32/32/7 and 32/9), the interleaving order. SYMBOLIC: every payload byte
//!    and the probe index j (byte j of every delivered message is compared, so an unconstrained j is full content
//!    equality). Why literal flags: hashbrown probes with SSE2 group operations, which CBMC does not constant-fold,
//!    so every bucket index - and with it the builder's limit / capacity / buffer pointer - is known to the solver
//!    only; a symbolic FLAGS byte on top of that makes symbolic execution explore insert / rehash / reallocation for
//!    every frame (measured: 3 frames with symbolic flags > 15 min without a verdict; a bare insert + get 9 s).
//!    Oracle: `Sess`, the reassembly state machine written from the property statement (unfragmented => delivered as
//!    is; BEGIN starts a message; middle / END only continue a started message; END delivers the concatenation and
//!    clears), `concat`, the byte-by-byte concatenation of the member fragments' payloads, and the instance's literal
//!    expectation (number and lengths of deliveries).
//! C. `c20_poll_*`: the real `Subscription` (dummy conductor handle) over 2 / 3 real `Image`s, each on its own log
//!    (3 x 64-byte terms + 4096-byte meta data) with 0..=2 committed header-only frames. Solver-chosen and case-split
//!    into literals (`split!`): the rotation state (number of earlier calls) and each image's backlog; symbolic inside
//!    each leaf: the fragment limit (any i32), session ids. Oracle: `reference`, the rotation walk written from the
//!    property statement (start somewhere, visit every image once in cyclic order, hand each the remaining limit), in
//!    i64; `check_poll` states every per-call obligation.
use super::publog::dummy_conductor;
use super::util::*;
use crate::concurrent::atomic_buffer::AtomicBuffer;
use crate::concurrent::logbuffer::header::Header;
use crate::concurrent::logbuffer::term_reader::ErrorHandler;
use crate::concurrent::position::UnsafeBufferPosition;
use crate::fragment_assembler::FragmentAssembler;
use crate::image::{ControlledPollAction, Image};
use crate::subscription::Subscription;
use crate::utils::errors::AeronError;
use crate::utils::log_buffers::LogBuffers;
use crate::utils::types::Index;
use std::ffi::CString;
use std::mem::ManuallyDrop;
use std::sync::Arc;

const STREAM: i32 = 1001;
const TERM_ID: i32 = 77;
const SID_A: i32 = 5;
const SID_B: i32 = 9;

/// Every key hashes to the same constant: a legal (if poor) hash function. The map then tells sessions apart by key
/// equality alone, and the SipHash rounds (rotates are not constant-folded by CBMC) stay out of the formula.
fn fixed_finish(_h: &std::hash::DefaultHasher) -> u64 {
    0x517c_c1b7_2722_0a95
}

fn fixed_random_state() -> std::hash::RandomState {
    unsafe { std::mem::transmute::<[u64; 2], std::hash::RandomState>([1, 2]) }
}

fn put_le<const N: usize>(m: &mut [u8], at: usize, b: [u8; N]) {
    let mut i = 0;
    while i < N {
        m[at + i] = b[i];
        i += 1;
    }
}

/// A DATA frame header at `off` with the literal protocol offsets (0 length, 4 version, 5 flags, 6 type, 8 term offset,
/// 12 session, 16 stream, 20 term id); the payload keeps whatever the memory holds.
fn put_frame(m: &mut [u8], off: usize, word: i32, flags: u8, session: i32) {
    put_le(m, off, word.to_le_bytes());
    m[off + 4] = 0;
    m[off + 5] = flags;
    put_le(m, off + 6, 1u16.to_le_bytes());
    put_le(m, off + 8, (off as i32).to_le_bytes());
    put_le(m, off + 12, session.to_le_bytes());
    put_le(m, off + 16, STREAM.to_le_bytes());
    put_le(m, off + 20, TERM_ID.to_le_bytes());
}

// ---------------------------------------------------------------------------------------------------------------
// A / B: fragment assembler
// ---------------------------------------------------------------------------------------------------------------

/// frame offsets and payload lengths of a session's frames (session B uses the first two offsets with its own lengths)
const FO: [usize; 3] = [0, 64, 128];
const LEN_A: [i32; 3] = [32, 32, 7];
const LEN_B: [i32; 3] = [32, 9, 0];
const NR: usize = 6; // recorded delegate calls (one more than can legally happen)

/// What the delegate was handed, call by call. `j` is the symbolic probe index: byte j of every delivered message is
/// recorded, so an unconstrained j gives full content equality.
struct Got {
    j: i32,
    terms: [usize; 2],
    calls: usize,
    len: [i32; NR],
    off: [i32; NR],
    byte: [u8; NR],
    sid: [i32; NR],
    hoff: [i32; NR],
    in_term: [bool; NR],
}

impl Got {
    fn new(j: i32, terms: [usize; 2]) -> Got {
        Got { j, terms, calls: 0, len: [0; NR], off: [0; NR], byte: [0; NR], sid: [0; NR], hoff: [0; NR], in_term: [false; NR] }
    }
    fn note(&mut self, b: &AtomicBuffer, off: Index, len: Index, h: &Header) {
        let c = self.calls;
        if c < NR {
            self.len[c] = len;
            self.off[c] = off;
            self.sid[c] = h.session_id();
            self.hoff[c] = h.offset();
            let p = b.buffer() as usize;
            self.in_term[c] = p == self.terms[0] || p == self.terms[1];
            self.byte[c] = if self.j < len { b.get::<u8>(off + self.j) } else { 0 };
        }
        self.calls += 1;
    }
}

/// The reassembly state machine of ONE session, from the property statement. `feed` returns the member set of the
/// message that frame `k` completes, if any.
#[derive(Copy, Clone)]
struct Sess {
    started: bool,
    cur: [bool; 3],
}

impl Sess {
    fn new() -> Sess {
        Sess { started: false, cur: [false; 3] }
    }
    fn feed(&mut self, k: usize, flags: u8) -> Option<[bool; 3]> {
        let begin = flags & 0x80 != 0;
        let end = flags & 0x40 != 0;
        if begin && end {
            let mut m = [false; 3];
            m[k] = true;
            Some(m) // unfragmented: delivered as is, an assembly in progress is not touched
        } else if begin {
            self.started = true;
            self.cur = [false; 3];
            self.cur[k] = true;
            None
        } else if self.started {
            self.cur[k] = true;
            if end {
                let m = self.cur;
                self.started = false;
                self.cur = [false; 3];
                Some(m)
            } else {
                None
            }
        } else {
            None // joined mid-message: nothing until the next BEGIN
        }
    }
}

/// Expected deliveries in order.
struct Want {
    calls: usize,
    sess: [usize; NR],
    members: [[bool; 3]; NR],
    last: [usize; NR],
}

impl Want {
    fn new() -> Want {
        Want { calls: 0, sess: [0; NR], members: [[false; 3]; NR], last: [0; NR] }
    }
    fn push(&mut self, sess: usize, members: [bool; 3], last: usize) {
        if self.calls < NR {
            self.sess[self.calls] = sess;
            self.members[self.calls] = members;
            self.last[self.calls] = last;
        }
        self.calls += 1;
    }
}

/// (length, byte j) of the concatenation of the member fragments' payloads
fn concat(term: &[u8; 256], lens: &[i32; 3], members: &[bool; 3], j: i32) -> (i32, u8) {
    let mut total = 0;
    let mut byte = 0u8;
    let mut k = 0;
    while k < 3 {
        if members[k] {
            if j >= total && j < total + lens[k] {
                byte = term[FO[k] + 32 + (j - total) as usize];
            }
            total += lens[k];
        }
        k += 1;
    }
    (total, byte)
}

/// What a scenario delivered (for the reachability covers of the instance).
struct AsmOut {
    delivered: usize,
    len: [i32; NR],
    sess: [usize; NR],
}

/// property-tagged assertion: the single-session instances belong to C01, the two-session ones to C20
macro_rules! pa {
    ($c01:expr, $cond:expr, $msg:literal) => {
        if $c01 {
            kani::assert($cond, concat!("C01: ", $msg));
        } else {
            kani::assert($cond, concat!("C20: ", $msg));
        }
    };
}

/// One literal scenario: `fa` / `fb` are the FLAGS bytes of session A's three and session B's two frames, `order`
/// says whose next frame is fed (0 = A, 1 = B). Literal per instance (see the module comment: the assembler's HashMap
/// cannot be executed with anything symbolic steering it); symbolic: every payload byte, the probe index.
fn assembler_scenario(c01: bool, init: Option<isize>, fa: [u8; 3], fb: [u8; 2], order: &[usize]) -> AsmOut {
    pretouch();
    let mut ta = Mem::<256>::any();
    let mut tb = Mem::<256>::any();
    let mut k = 0;
    while k < 3 {
        put_frame(&mut ta.0, FO[k], 32 + LEN_A[k], fa[k], SID_A);
        if k < 2 {
            put_frame(&mut tb.0, FO[k], 32 + LEN_B[k], fb[k], SID_B);
        }
        k += 1;
    }
    let (ba, bb) = (ta.buf(), tb.buf());
    let j: i32 = kani::any();
    kani::assume(j >= 0 && j < 96);
    let mut got = Got::new(j, [ba.buffer() as usize, bb.buffer() as usize]);
    let mut delegate = |b: &AtomicBuffer, off: Index, len: Index, h: &Header| got.note(b, off, len, h);
    // never dropped: BufferBuilder's Drop runs a byte loop over its capacity in the dev profile
    let mut asm = ManuallyDrop::new(FragmentAssembler::new(&mut delegate, init));
    let mut want = Want::new();
    {
        let mut handler = asm.handler();
        let mut ha = Header::new(TERM_ID, 256);
        ha.set_buffer(ba);
        let mut hb = Header::new(TERM_ID, 256);
        hb.set_buffer(bb);
        let (mut sa, mut sb) = (Sess::new(), Sess::new());
        let (mut ia, mut ib) = (0usize, 0usize);
        let mut s = 0;
        while s < order.len() {
            if order[s] == 0 {
                ha.set_offset(FO[ia] as i32);
                handler(&ba, FO[ia] as i32 + 32, LEN_A[ia], &ha);
                if let Some(m) = sa.feed(ia, fa[ia]) {
                    want.push(0, m, ia);
                }
                ia += 1;
            } else {
                hb.set_offset(FO[ib] as i32);
                handler(&bb, FO[ib] as i32 + 32, LEN_B[ib], &hb);
                if let Some(m) = sb.feed(ib, fb[ib]) {
                    want.push(1, m, ib);
                }
                ib += 1;
            }
            s += 1;
        }
    }
    pa!(c01, got.calls == want.calls, "each session's completed messages are delivered exactly once and nothing else is");
    let mut out = AsmOut { delivered: want.calls, len: [-1; NR], sess: [9; NR] };
    let mut c = 0;
    while c < NR {
        if c < want.calls {
            let is_a = want.sess[c] == 0;
            let (len, byte) = if is_a { concat(&ta.0, &LEN_A, &want.members[c], j) } else { concat(&tb.0, &LEN_B, &want.members[c], j) };
            let last = want.last[c];
            pa!(c01, got.sid[c] == if is_a { SID_A } else { SID_B }, "deliveries happen in the order the sessions complete their messages (per-session order kept)");
            pa!(c01, got.len[c] == len, "delivered length is the sum of that session's fragment payload lengths only, in order");
            if j < len {
                pa!(c01, got.byte[c] == byte, "delivered bytes are the concatenation of that session's fragments only (sessions never mix)");
            }
            pa!(c01, got.hoff[c] == FO[last] as i32, "the header handed over is that of the message's last fragment");
            let single = ((if is_a { fa[last] } else { fb[last] }) & 0xC0) == 0xC0;
            pa!(c01, got.in_term[c] == single, "unfragmented messages are handed over in place, assembled ones from the session buffer");
            if single {
                pa!(c01, got.off[c] == FO[last] as i32 + 32, "unfragmented message delivered at its own payload offset");
            }
            out.len[c] = len;
            out.sess[c] = want.sess[c];
        }
        c += 1;
    }
    out
}

const U: u8 = 0xC0; // unfragmented
const B: u8 = 0x80; // BEGIN
const M: u8 = 0x00; // middle
const E: u8 = 0x40; // END
const X: u8 = 0x3F; // reserved bits set: must not matter

macro_rules! assembler_case {
    ($name:ident, $prop:literal, $init:expr, $fa:expr, $fb:expr, $order:expr, [$($want_len:expr),*], $must:literal) => {
        #[kani::proof]
        #[kani::stub(std::hash::RandomState::new, fixed_random_state)]
        #[kani::stub(<std::hash::DefaultHasher as std::hash::Hasher>::finish, fixed_finish)]
        fn $name() {
            const IS_C01: bool = {
                let b = $prop.as_bytes();
                b[1] == b'0' && b[2] == b'1'
            };
            let o = assembler_scenario(IS_C01, $init, $fa, $fb, &$order);
            let expect: &[i32] = &[$($want_len),*];
            // the instance's own expectation, spelled out (the oracle above is the state machine; this is the literal)
            kani::assert(o.delivered == expect.len(), concat!($prop, ": ", stringify!($name), ": number of deliveries"));
            let mut i = 0;
            while i < expect.len() {
                kani::assert(o.len[i] == expect[i], concat!($prop, ": ", stringify!($name), ": delivered lengths"));
                i += 1;
            }
            kani::cover!(o.delivered == expect.len(), $must);
        }
    };
}

// Single session (the C01 obligation). Hash-map loops: at most 2 colliding entries => bound 3 (unwinding assertions
// on). Cost is driven by the number of BufferBuilder appends in the scenario (the builder's fields are read back from
// the hash table, so each append also explores the reallocation branch with solver-only sizes): 0 appends 25 s,
// 2 appends 2-4 min / 4-10 M variables, 3 appends 18 M variables (thorough tier, 24 GB).
// (the thorough-tier instances are named `c01_heavy_reassembly_*` so that `--only c01_reassembly`, which ignores tiers,
// stays a quick run)
// @verif tier=quick unwind=10 fs=300 unwindset=hashbrown:3,simd_bitmask_impl:17,find_suitable_capacity:4,dealloc_buffer_aligned:2
assembler_case!(c01_reassembly_mid_message_join, "C01", None, [E | X, B | X, E | X], [U, U], [0, 0, 0], [39], "[must] mid-message join ignored, the next message start is delivered");
// @verif tier=quick unwind=10 fs=300 unwindset=hashbrown:3,simd_bitmask_impl:17,find_suitable_capacity:4,dealloc_buffer_aligned:2
assembler_case!(c01_reassembly_unfragmented_then_two, "C01", None, [U, B, E], [U, U], [0, 0, 0], [32, 39], "[must] unfragmented message passed through, then a two-fragment message");
// @verif tier=quick unwind=10 fs=300 unwindset=hashbrown:3,simd_bitmask_impl:17,find_suitable_capacity:4,dealloc_buffer_aligned:2
assembler_case!(c01_reassembly_never_started, "C01", None, [M, E, U], [U, U], [0, 0, 0], [7], "[must] fragments without a start dropped, unfragmented message still delivered");
// (19 M variables on the correct code: thorough tier, 24 GB)
// @verif tier=thorough mem=24 unwind=10 fs=300 unwindset=hashbrown:3,simd_bitmask_impl:17,find_suitable_capacity:4,dealloc_buffer_aligned:2
assembler_case!(c01_heavy_reassembly_stray_end_after_message, "C01", None, [B, E, E], [U, U], [0, 0, 0], [64], "[must] a stray END after a completed message delivers nothing more");
// @verif tier=thorough unwind=10 fs=300 unwindset=hashbrown:3,simd_bitmask_impl:17,find_suitable_capacity:4,dealloc_buffer_aligned:2
assembler_case!(c01_heavy_reassembly_two_messages, "C01", None, [B, E, U], [U, U], [0, 0, 0], [64, 7], "[must] two messages in offer order");
// @verif tier=thorough mem=24 unwind=10 fs=300 unwindset=hashbrown:3,simd_bitmask_impl:17,find_suitable_capacity:4,dealloc_buffer_aligned:2
assembler_case!(c01_heavy_reassembly_three_fragments, "C01", None, [B, M, E], [U, U], [0, 0, 0], [71], "[must] three fragments reassembled into one message");
// @verif tier=thorough mem=24 unwind=10 fs=300 unwindset=hashbrown:3,simd_bitmask_impl:17,find_suitable_capacity:4,dealloc_buffer_aligned:2
assembler_case!(c01_heavy_reassembly_restart, "C01", None, [B, B, E], [U, U], [0, 0, 0], [39], "[must] a new BEGIN abandons the unfinished message");
/// initial buffer 64 = header + first fragment exactly: the END fragment reallocates (64 -> 96), copying header + first fragment
// @verif tier=thorough mem=24 unwind=10 fs=300 unwindset=hashbrown:3,simd_bitmask_impl:17,find_suitable_capacity:4,dealloc_buffer_aligned:66
assembler_case!(c01_heavy_reassembly_two_fragments_growth, "C01", Some(64), [B, E, U], [U, U], [0, 0], [64], "[must] growth path of the builder taken");

// a stray END after a completed message must not be glued to what was delivered before (also run under C01)
// @verif tier=thorough mem=24 unwind=10 fs=300 unwindset=hashbrown:3,simd_bitmask_impl:17,find_suitable_capacity:4,dealloc_buffer_aligned:2
assembler_case!(c20_assembler_stray_end_after_message, "C20", None, [B, E, E], [U, U], [0, 0, 0], [64], "[must] a stray END after a completed message delivers nothing more");
// Two sessions interleaved at fragment granularity (A = session 5, B = session 9; order 0 = A's next frame, 1 = B's).
// @verif tier=quick unwind=10 fs=300 unwindset=hashbrown:3,simd_bitmask_impl:17,find_suitable_capacity:4,dealloc_buffer_aligned:2
assembler_case!(c20_assembler_interleaved_join_ignored, "C20", None, [U, U, U], [E | X, U], [0, 1, 0, 1, 0], [32, 32, 9, 7], "[must] mid-message join ignored between the other session's messages, per-session order kept");
// @verif tier=thorough unwind=10 fs=300 unwindset=hashbrown:3,simd_bitmask_impl:17,find_suitable_capacity:4,dealloc_buffer_aligned:2
assembler_case!(c20_assembler_interleaved_unfragmented_between_fragments, "C20", None, [B, E, U], [U, U], [0, 1, 0], [32, 64], "[must] the other session's unfragmented message passes between the two fragments of a message: both intact, nothing mixed");
// two appends plus a lookup of the joining session: out of memory at 24 GB
// @verif tier=off mem=24 unwind=10 fs=300 unwindset=hashbrown:3,simd_bitmask_impl:17,find_suitable_capacity:4,dealloc_buffer_aligned:2
assembler_case!(c20_assembler_interleaved_join_between_fragments, "C20", None, [B, E, U], [E | X, U], [0, 1, 0], [64], "[must] a fragment of a session joined mid-message arrives between the two fragments of the other session's message: ignored, the message is intact");
// four calls with two appends: out of memory at 24 GB (measured twice)
// @verif tier=off mem=24 unwind=10 fs=300 unwindset=hashbrown:3,simd_bitmask_impl:17,find_suitable_capacity:4,dealloc_buffer_aligned:2
assembler_case!(c20_assembler_interleaved_session_joined_mid_message, "C20", None, [B, E, U], [E | X, U], [0, 1, 0, 1], [64, 9], "[must] mid-message join ignored: the joining session yields nothing until its next message start, the other is intact");
// @verif tier=off mem=24 unwind=10 fs=300 unwindset=hashbrown:3,simd_bitmask_impl:17,find_suitable_capacity:4,dealloc_buffer_aligned:2
assembler_case!(c20_assembler_interleaved_join_never_starts, "C20", None, [B, E, U], [M, E], [1, 0, 1, 0], [64], "[must] fragments of a session that never started are not mixed into the other session's message");
// Three and more appends do not fit (measured: 3 appends across two sessions 62 M variables, out of memory at 24 GB;
// a0b0a1b1 and the full 3 + 2 fragment interleaving likewise): kept for reference, decided natively only
// (/verif/native/tests/c20.rs runs all ten interleavings of the 3 + 2 fragments).
// @verif tier=off mem=24 unwind=10 fs=300 unwindset=hashbrown:3,simd_bitmask_impl:17,find_suitable_capacity:4,dealloc_buffer_aligned:2
assembler_case!(c20_assembler_interleaved_pending_other_session, "C20", None, [B, E, U], [B, E], [0, 1, 0], [64], "[must] a message completes while the other session's message is still pending: nothing of it leaks");
// @verif tier=off mem=24 unwind=10 fs=300 unwindset=hashbrown:3,simd_bitmask_impl:17,find_suitable_capacity:4,dealloc_buffer_aligned:2
assembler_case!(c20_assembler_interleaved_a0b0a1b1, "C20", None, [B, E, U], [B, E], [0, 1, 0, 1], [64, 41], "[must] both multi-fragment messages reassembled from a true interleaving");
// @verif tier=off mem=24 unwind=10 fs=300 unwindset=hashbrown:3,simd_bitmask_impl:17,find_suitable_capacity:4,dealloc_buffer_aligned:2
assembler_case!(c20_assembler_interleaved_a0b0a1b1a2, "C20", None, [B, M, E], [B, E], [0, 1, 0, 1, 0], [41, 71], "[must] three- and two-fragment messages reassembled from a true interleaving");

// ---------------------------------------------------------------------------------------------------------------
// C: Subscription::poll / controlled_poll over several images
// ---------------------------------------------------------------------------------------------------------------
//
// What CBMC's symbolic execution can and cannot see decides the construction (all measured):
// * `Subscription::add_image` keeps the images in a heap `Vec<Image>`; nothing read back from a heap block larger than
//   64 bytes is constant-propagated, so every pointer inside an image (term buffers, position counter, vtable of the
//   boxed error handler) becomes an expression only the solver can evaluate. Dropping such an image (add_image and
//   remove_image drop the previous list) dispatches the boxed handler's drop over every drop glue of the binary with
//   garbage operands. One poll over two such images: 1 M SSA steps, solver out of memory at 14 GB.
// * `inject` therefore places the images in a typed `[Image; N]` local of the harness and points the subscription's
//   (empty) `Vec<Image>` at it. The subscription, its rotation index and the poll code are the real ones; only the
//   storage of the list differs from what `add_image` would allocate. Every access then has a literal address as long
//   as the starting image and the frame length words are literals on the path: `split!` case-splits the solver-chosen
//   rotation state and backlog so that each leaf runs on literals (limit, ids stay symbolic inside the leaf).
// * The real `add_image` is exercised on top of an injected list in `c20_poll_add_image_*` (one list mutation each:
//   the images dropped are the transparent originals); `remove_image` does not fit (see there).

const T: usize = 64;
const LOGLEN: usize = 3 * T + 4096;
const FRAME: i32 = 32; // header-only frames: two fit into a term
const NC: usize = 8; // recorded handler calls
const REG: i64 = 9;
const CORR: [i64; 4] = [11, 12, 13, 14];
const NOBODY: usize = 9;

/// One log: three 64-byte terms and the meta data section, contiguous (LogBuffers::new needs one region); every term is
/// a separate member of at most 64 elements, so it stays field sensitive at the default setting.
#[repr(C, align(16))]
struct LogMem {
    t0: [u8; T],
    t1: [u8; T],
    t2: [u8; T],
    meta: [u8; 4096],
}

impl LogMem {
    fn zeroed() -> LogMem {
        LogMem { t0: [0; T], t1: [0; T], t2: [0; T], meta: [0; 4096] }
    }
}

#[derive(Copy, Clone)]
struct Mems {
    log: [*mut u8; 4],
    ctr: [*mut u8; 4],
}

/// four zeroed logs and four zeroed position counters, each its own local (its own root object for CBMC)
macro_rules! mems {
    ($m:ident) => {
        let (mut l0, mut l1, mut l2, mut l3) = (LogMem::zeroed(), LogMem::zeroed(), LogMem::zeroed(), LogMem::zeroed());
        let (mut c0, mut c1, mut c2, mut c3) = ([0u64; 8], [0u64; 8], [0u64; 8], [0u64; 8]);
        let $m = Mems {
            log: [&mut l0 as *mut LogMem as *mut u8, &mut l1 as *mut LogMem as *mut u8, &mut l2 as *mut LogMem as *mut u8, &mut l3 as *mut LogMem as *mut u8],
            ctr: [c0.as_mut_ptr() as *mut u8, c1.as_mut_ptr() as *mut u8, c2.as_mut_ptr() as *mut u8, c3.as_mut_ptr() as *mut u8],
        };
    };
}

impl Mems {
    /// subscriber position of image i as the counter holds it
    fn position(&self, i: usize) -> i64 {
        unsafe { *(self.ctr[i] as *const i64) }
    }
    fn base(&self, i: usize) -> usize {
        self.log[i] as usize
    }
    fn bases(&self) -> [usize; 4] {
        [self.base(0), self.base(1), self.base(2), self.base(3)]
    }
    fn term0(&self, i: usize) -> &mut [u8] {
        unsafe { std::slice::from_raw_parts_mut(self.log[i], T) }
    }
    /// the two frame length words of image i (FRAME = committed, 0 = nothing there yet)
    fn set_words(&self, i: usize, words: [i32; 2]) {
        put_le(self.term0(i), 0, words[0].to_le_bytes());
        put_le(self.term0(i), 32, words[1].to_le_bytes());
    }
}

/// never called; forgets its argument so that the harness does not reference AeronError's (recursive) drop glue
fn err_handler(e: AeronError) {
    std::mem::forget(e)
}

fn empty_cstring() -> CString {
    unsafe { CString::from_vec_unchecked(Vec::new()) }
}

/// A real Image over log i, two frame headers laid out at 0 and 32, length words still 0.
fn image(mem: &Mems, i: usize, session: i32) -> Image {
    put_frame(mem.term0(i), 0, 0, 0xC0, session);
    put_frame(mem.term0(i), 32, 0, 0xC0, session);
    let lb = unsafe { LogBuffers::new(mem.log[i], LOGLEN as isize, T as i32) };
    let sp = UnsafeBufferPosition::new(AtomicBuffer::new(mem.ctr[i], 64), 0);
    Image::create(session, CORR[i], REG, empty_cstring(), &sp, Arc::new(lb), Box::new(err_handler as fn(AeronError)))
}

fn subscription() -> Subscription {
    Subscription::new(dummy_conductor(), REG, empty_cstring(), STREAM, -1)
}

/// Harness scaffolding (see the section comment): make the subscription's image list be the `n` images at `images`.
/// Capacity 0: the list is never reallocated by poll, and a later `add_image` / `remove_image` (which replace the list)
/// must not hand harness memory to the allocator.
#[allow(invalid_reference_casting)]
fn inject(sub: &mut Subscription, images: *mut Image, n: usize) {
    let list = sub.images() as *const Vec<Image> as *mut Vec<Image>;
    unsafe { std::ptr::write(list, Vec::from_raw_parts(images, n, 0)) };
}

/// `split!(selector, |k| body, 0, 1, 2)`: the solver-chosen selector is case-split; `body` runs with a literal.
macro_rules! split {
    ($s:expr, $f:expr, $k:literal) => { $f($k) };
    ($s:expr, $f:expr, $k:literal, $($rest:literal),+) => {
        if $s == $k { $f($k) } else { split!($s, $f, $($rest),+) }
    };
}

const WORDS3: [[i32; 2]; 4] = [[0, 0], [FRAME, 0], [FRAME, FRAME], [0, FRAME]];

/// frames visible to a reader standing at the start of the term
fn backlog(words: [i32; 2]) -> i64 {
    if words[0] > 0 {
        if words[1] > 0 {
            2
        } else {
            1
        }
    } else {
        0
    }
}

/// What the fragment handler saw during the polls so far.
struct Seen {
    bases: [usize; 4],
    calls: usize,        // in the current poll call
    per: [i64; 4],       // fragments of image i in the current poll call
    taken: [i64; 4],     // fragments of image i over all calls
    last: usize,         // image of the previous fragment in the current call
    finished: [bool; 4], // the current call has moved on from image i
    revisited: bool,     // a fragment of an image arrived after the call had moved on from it
    in_order: bool,      // every fragment was the next unconsumed frame of its image
    stranger: bool,      // a fragment from a buffer that is none of the images
    first: usize,        // image of the first fragment of the current call
}

impl Seen {
    fn new(bases: [usize; 4]) -> Seen {
        Seen { bases, calls: 0, per: [0; 4], taken: [0; 4], last: NOBODY, finished: [false; 4], revisited: false, in_order: true, stranger: false, first: NOBODY }
    }
    fn begin_call(&mut self) {
        self.calls = 0;
        self.per = [0; 4];
        self.last = NOBODY;
        self.finished = [false; 4];
        self.first = NOBODY;
    }
    fn note(&mut self, b: &AtomicBuffer, off: Index, len: Index, h: &Header) {
        let p = b.buffer() as usize;
        let who = if p == self.bases[0] {
            0
        } else if p == self.bases[1] {
            1
        } else if p == self.bases[2] {
            2
        } else if p == self.bases[3] {
            3
        } else {
            NOBODY
        };
        if who == NOBODY {
            self.stranger = true;
        } else {
            if self.last != NOBODY && self.last != who {
                self.finished[self.last] = true;
            }
            if self.finished[who] {
                self.revisited = true;
            }
            self.in_order = self.in_order && h.term_offset() as i64 == FRAME as i64 * self.taken[who] && off as i64 == FRAME as i64 * self.taken[who] + 32 && len == 0;
            self.per[who] += 1;
            self.taken[who] += 1;
            self.last = who;
            if self.first == NOBODY {
                self.first = who;
            }
        }
        self.calls += 1;
    }
}

/// The rotation walk of the property statement over the image list `ids[..n]`: start at list position `start`, visit
/// every image once in cyclic order, hand each the part of the limit that is left. Returns the fragments per image id.
fn reference(n: usize, ids: &[usize; 4], start: usize, backlog: &[i64; 4], limit: i64) -> [i64; 4] {
    let mut out = [0i64; 4];
    let mut left = if limit > 0 { limit } else { 0 };
    let mut step = 0;
    while step < n {
        let i = ids[(start + step) % n];
        let c = if backlog[i] < left { backlog[i] } else { left };
        out[i] = c;
        left -= c;
        step += 1;
    }
    out
}

fn min64(a: i64, b: i64) -> i64 {
    if a < b {
        a
    } else {
        b
    }
}

#[derive(Copy, Clone)]
struct PollOut {
    limit: i32,
    result: i32,
    total_backlog: i64,
    starved: bool, // an image with data got nothing because the limit was used up by images in front of it
    first: usize,
    rr: usize,
}

/// a poll with fragment limit 0: moves the starting image, consumes nothing
fn idle_poll(sub: &mut Subscription) {
    let mut nothing = |_: &AtomicBuffer, _: Index, _: Index, _: &Header| {};
    let r = sub.poll(&mut nothing, 0);
    assert!(r == 0, "C20: a poll with fragment limit 0 delivers nothing");
}

fn plain_poll(sub: &mut Subscription, seen: &mut Seen, limit: i32) -> i32 {
    let mut handler = |b: &AtomicBuffer, off: Index, len: Index, h: &Header| seen.note(b, off, len, h);
    sub.poll(&mut handler, limit)
}

fn controlled_poll(sub: &mut Subscription, seen: &mut Seen, limit: i32) -> i32 {
    sub.controlled_poll(
        |b: &AtomicBuffer, off: Index, len: Index, h: &Header| {
            seen.note(b, off, len, h);
            Ok(ControlledPollAction::Continue)
        },
        limit,
    )
}

/// Everything one poll call must satisfy, given the image list `ids[..n]` (image ids in list order) and each image's
/// backlog `bl` / fragments consumed before the call `before`.
fn check_poll(n: usize, ids: &[usize; 4], mem: &Mems, seen: &Seen, bl: &[i64; 4], before: &[i64; 4], limit: i32, result: i32) -> bool {
    let total = bl[0] + bl[1] + bl[2] + bl[3];
    let lim = if limit > 0 { limit as i64 } else { 0 };
    assert!(!seen.stranger, "C20: only fragments of the subscription's images are delivered");
    assert!(seen.calls as i64 == result as i64, "C20: the return value is the number of fragments delivered");
    assert!(result as i64 <= lim, "C20: at most fragment_limit fragments are delivered in total");
    assert!(result as i64 == min64(lim, total), "C20: a poll stops only at the limit or when every image has been drained");
    assert!(!seen.revisited, "C20: an image is polled at most once per call (its fragments are contiguous in the call)");
    assert!(seen.in_order, "C20: each image's fragments arrive in stream order, each exactly once");
    let mut matches_some_start = false;
    let mut s = 0;
    while s < n {
        let r = reference(n, ids, s, bl, limit as i64);
        if r[0] == seen.per[0] && r[1] == seen.per[1] && r[2] == seen.per[2] && r[3] == seen.per[3] {
            matches_some_start = true;
        }
        s += 1;
    }
    assert!(matches_some_start, "C20: per-image counts are those of one cyclic walk handing each image the remaining limit");
    let mut starved = false;
    let mut i = 0;
    while i < 4 {
        assert!(mem.position(i) == FRAME as i64 * (before[i] + seen.per[i]), "C20: each subscriber position advances by exactly the fragments delivered from that image");
        assert!(seen.per[i] <= min64(bl[i], lim), "C20: an image yields at most what one poll of it with the limit can consume");
        starved = starved || (bl[i] > 0 && seen.per[i] == 0);
        i += 1;
    }
    starved
}

/// Leaf of the case split: `warm` earlier calls with fragment limit 0 (they move the starting image and consume
/// nothing), backlog code `code` (base-3 digit i = frames committed in image i), then the call under test with any limit.
fn poll_leaf(n: usize, sub: &mut Subscription, mem: &Mems, warm: usize, code: usize, do_poll: impl Fn(&mut Subscription, &mut Seen, i32) -> i32) -> PollOut {
    let mut bl = [0i64; 4];
    let mut c = code;
    let mut i = 0;
    while i < n {
        let words = WORDS3[c % 4];
        mem.set_words(i, words);
        bl[i] = backlog(words);
        c /= 4;
        i += 1;
    }
    i = 0;
    while i < warm {
        idle_poll(sub);
        i += 1;
    }
    let limit: i32 = kani::any();
    let mut seen = Seen::new(mem.bases());
    seen.begin_call();
    let result = do_poll(sub, &mut seen, limit);
    let starved = check_poll(n, &[0, 1, 2, 3], mem, &seen, &bl, &[0; 4], limit, result);
    PollOut { limit, result, total_backlog: bl[0] + bl[1] + bl[2] + bl[3], starved, first: seen.first, rr: warm }
}

macro_rules! poll_family {
    ($name:ident, $n:literal, [$($img:literal),+], $kind:expr, [$($warm:literal),+], [$($code:literal),+], $covers:expr) => {
        #[kani::proof]
        fn $name() {
            pretouch();
            mems!(mem);
            let sessions: [i32; 4] = kani::any();
            let mut sub = subscription();
            let mut images = ManuallyDrop::new([$(image(&mem, $img, sessions[$img])),+]);
            inject(&mut sub, images.as_mut_ptr(), $n);
            assert!(sub.image_count() == $n && !sub.is_closed() && sub.registration_id() == REG, "C20: harness subscription holds the injected images");
            let warm: usize = kani::any();
            let code: usize = kani::any();
            let o = split!(warm, |w| split!(code, |c| poll_leaf($n, &mut sub, &mem, w, c, $kind), $($code),+), $($warm),+);
            std::mem::forget(sub);
            let covers: fn(PollOut) = $covers;
            covers(o);
        }
    };
}

fn covers_all_states_2(o: PollOut) {
    kani::cover!(o.starved && o.limit > 0, "[must] limit reached before all images polled");
    kani::cover!(o.rr == 2 && o.first == 0 && o.result > 0, "[must] wrap-around of the round-robin index: starting image back at the first");
    kani::cover!(o.rr == 1 && o.first == 1 && o.result == 4, "[must] start at the last image, wrap to the first, everything drained");
    kani::cover!(o.limit < 0 && o.total_backlog == 4, "[must] negative limit with data everywhere");
    kani::cover!(o.limit == i32::MAX, "[must] largest limit");
}

fn covers_one_state_3(o: PollOut) {
    kani::cover!(o.starved && o.limit > 0, "[must] limit reached before all images polled");
    kani::cover!(o.result == 6 && o.first == if o.rr < 3 { o.rr } else { 0 }, "[must] everything drained starting from the image the rotation state selects (wrap-around included)");
    kani::cover!(o.limit <= 0 && o.total_backlog == 6, "[must] non-positive limit with data everywhere");
}

// backlog codes: base-4 digit i selects image i's length words among 0 = none / 1 = one frame / 2 = two frames /
// 3 = gap (second frame committed behind an uncommitted first one: nothing visible)
// @verif tier=quick unwind=10 fs=200
poll_family!(c20_poll_two_images_any_backlog, 2, [0, 1], plain_poll, [0, 1, 2], [0, 1, 2, 4, 5, 6, 8, 9, 10, 3, 14], covers_all_states_2);
// @verif tier=quick unwind=10 fs=200
poll_family!(c20_poll_two_images_controlled, 2, [0, 1], controlled_poll, [0, 1, 2], [0, 2, 5, 6, 9, 10], covers_all_states_2);
// three images: one harness per rotation state (27 backlog combinations + 3 with gaps each; ~4 min / ~2 M variables each)
// @verif tier=thorough unwind=10 fs=200
poll_family!(c20_poll_three_images_any_backlog_rr0, 3, [0, 1, 2], plain_poll, [0],
    [0, 1, 2, 4, 5, 6, 8, 9, 10, 16, 17, 18, 20, 21, 22, 24, 25, 26, 32, 33, 34, 36, 37, 38, 40, 41, 42, 3, 30, 35], covers_one_state_3);
// @verif tier=thorough unwind=10 fs=200
poll_family!(c20_poll_three_images_any_backlog_rr1, 3, [0, 1, 2], plain_poll, [1],
    [0, 1, 2, 4, 5, 6, 8, 9, 10, 16, 17, 18, 20, 21, 22, 24, 25, 26, 32, 33, 34, 36, 37, 38, 40, 41, 42, 3, 30, 35], covers_one_state_3);
// @verif tier=thorough unwind=10 fs=200
poll_family!(c20_poll_three_images_any_backlog_rr2, 3, [0, 1, 2], plain_poll, [2],
    [0, 1, 2, 4, 5, 6, 8, 9, 10, 16, 17, 18, 20, 21, 22, 24, 25, 26, 32, 33, 34, 36, 37, 38, 40, 41, 42, 3, 30, 35], covers_one_state_3);
// @verif tier=thorough unwind=10 fs=200
poll_family!(c20_poll_three_images_any_backlog_rr3, 3, [0, 1, 2], plain_poll, [3],
    [0, 1, 2, 4, 5, 6, 8, 9, 10, 16, 17, 18, 20, 21, 22, 24, 25, 26, 32, 33, 34, 36, 37, 38, 40, 41, 42, 3, 30, 35], covers_one_state_3);
// @verif tier=thorough unwind=10 fs=200
poll_family!(c20_poll_three_images_controlled, 3, [0, 1, 2], controlled_poll, [0, 1, 2, 3], [0, 21, 26, 38, 41, 42, 9, 18], covers_controlled_3);

fn covers_controlled_3(o: PollOut) {
    kani::cover!(o.starved && o.limit > 0, "[must] limit reached before all images polled");
    kani::cover!(o.rr == 3 && o.first == 0 && o.result > 0, "[must] wrap-around of the round-robin index: starting image back at the first");
    kani::cover!(o.result == 6, "[must] everything drained in one controlled poll");
}

/// Fairness: every image has two frames (the worst case of the statement: earlier images always have data), every
/// call has fragment limit 1. From any rotation state, n + 1 consecutive calls serve every image at least once.
fn fairness_leaf(n: usize, sub: &mut Subscription, mem: &Mems, warm: usize, calls: usize) -> FairOut {
    let mut i = 0;
    while i < n {
        mem.set_words(i, [FRAME, FRAME]);
        i += 1;
    }
    i = 0;
    while i < warm {
        idle_poll(sub);
        i += 1;
    }
    let mut seen = Seen::new(mem.bases());
    let mut served = [NOBODY; 5];
    let mut unserved_after_n = false;
    let mut call = 0;
    while call < calls {
        let before = seen.taken;
        let bl = [2 - before[0], 2 - before[1], 2 - before[2], 2 - before[3]];
        seen.begin_call();
        let r = plain_poll(sub, &mut seen, 1);
        let mut left = [0i64; 4];
        let mut k = 0;
        while k < n {
            left[k] = bl[k];
            k += 1;
        }
        check_poll(n, &[0, 1, 2, 3], mem, &seen, &left, &before, 1, r);
        assert!(r == 1, "C20: with data available a call with limit 1 delivers exactly one fragment");
        served[call] = seen.first;
        if call + 1 == n {
            k = 0;
            while k < n {
                unserved_after_n = unserved_after_n || seen.taken[k] == 0;
                k += 1;
            }
        }
        call += 1;
    }
    i = 0;
    while i < n {
        if calls > n {
            assert!(seen.taken[i] >= 1, "C20: every image with data is served within n + 1 calls even when the images in front of it always have data");
        } else {
            assert!(seen.taken[i] >= 1, "C20: TWIN every image is served within n calls (false from the wrap state: the bound is n + 1)");
        }
        i += 1;
    }
    let mut wrapped = false;
    let mut twice = false;
    call = 0;
    while call + 1 < calls {
        wrapped = wrapped || served[call + 1] < served[call];
        twice = twice || served[call + 1] == served[call];
        call += 1;
    }
    FairOut { unserved_after_n, wrapped, twice, warm }
}

#[derive(Copy, Clone)]
struct FairOut {
    unserved_after_n: bool,
    wrapped: bool,
    twice: bool,
    warm: usize,
}

macro_rules! fairness_family {
    ($name:ident, $n:literal, $calls:expr, [$($img:literal),+], [$($warm:literal),+]) => {
        #[kani::proof]
        fn $name() {
            pretouch();
            mems!(mem);
            let sessions: [i32; 4] = kani::any();
            let mut sub = subscription();
            let mut images = ManuallyDrop::new([$(image(&mem, $img, sessions[$img])),+]);
            inject(&mut sub, images.as_mut_ptr(), $n);
            let warm: usize = kani::any();
            kani::assume(warm <= $n);
            let o = split!(warm, |w| fairness_leaf($n, &mut sub, &mem, w, $calls), $($warm),+);
            std::mem::forget(sub);
            kani::cover!(o.wrapped, "[must] wrap-around of the round-robin index: the starting image goes back to an earlier one");
            kani::cover!(o.unserved_after_n, "n calls are not enough from the wrap state: the bound is n + 1 (as in the Java / C++ clients)");
            kani::cover!(o.twice, "the first image is served twice in a row at the wrap (rotation restarts at 0 after the reset)");
        }
    };
}
// @verif tier=quick unwind=10 fs=200
fairness_family!(c20_poll_two_images_fairness, 2, 3, [0, 1], [0, 1, 2]);
/// broken twin: claims the bound n; must fail (vacuity witness for the fairness family)
// @verif tier=quick twin=1 unwind=10 fs=200
fairness_family!(c20_poll_two_images_fairness_twin, 2, 2, [0, 1], [0, 1, 2]);
// @verif tier=thorough unwind=10 fs=200
fairness_family!(c20_poll_three_images_fairness, 3, 4, [0, 1, 2], [0, 1, 2, 3]);

/// Starvation: EVERY image has data at EVERY call (the publisher side keeps writing: the subscriber positions are put
/// back to the start of the term before each call), every call has fragment limit 1. From any rotation state the
/// starting image must rotate so that n + 1 consecutive calls serve every image at least once.
fn starvation_leaf(n: usize, sub: &mut Subscription, mem: &Mems, warm: usize, calls: usize) -> bool {
    let mut i = 0;
    while i < n {
        mem.set_words(i, [FRAME, FRAME]);
        i += 1;
    }
    i = 0;
    while i < warm {
        idle_poll(sub);
        i += 1;
    }
    let mut ever = [false; 4];
    let mut call = 0;
    while call < calls {
        i = 0;
        while i < n {
            unsafe { *(mem.ctr[i] as *mut i64) = 0 }; // image i has its full backlog again
            i += 1;
        }
        let mut seen = Seen::new(mem.bases());
        seen.begin_call();
        let r = plain_poll(sub, &mut seen, 1);
        assert!(r == 1 && seen.first < n, "C20: with data available a call with limit 1 delivers exactly one fragment of a listed image");
        ever[seen.first] = true;
        call += 1;
    }
    i = 0;
    let mut all = true;
    while i < n {
        assert!(ever[i], "C20: every image is served within n + 1 calls even when the images in front of it ALWAYS have data (the starting image must rotate)");
        all = all && ever[i];
        i += 1;
    }
    all
}

macro_rules! starvation_family {
    ($name:ident, $n:literal, $calls:expr, [$($img:literal),+], [$($warm:literal),+]) => {
        #[kani::proof]
        fn $name() {
            pretouch();
            mems!(mem);
            let sessions: [i32; 4] = kani::any();
            let mut sub = subscription();
            let mut images = ManuallyDrop::new([$(image(&mem, $img, sessions[$img])),+]);
            inject(&mut sub, images.as_mut_ptr(), $n);
            let warm: usize = kani::any();
            kani::assume(warm <= $n);
            let o = split!(warm, |w| starvation_leaf($n, &mut sub, &mem, w, $calls), $($warm),+);
            std::mem::forget(sub);
            kani::cover!(o, "[must] every image served");
        }
    };
}
// @verif tier=quick unwind=10 fs=200
starvation_family!(c20_poll_two_images_no_starvation, 2, 3, [0, 1], [0, 1, 2]);
// @verif tier=thorough unwind=10 fs=200
starvation_family!(c20_poll_three_images_no_starvation, 3, 4, [0, 1, 2], [0, 1, 2, 3]);

// ---- a list that shrinks between polls (poll side of remove_image) --------------------------------------------------
// `remove_image` itself does not fit (see below); what it does to poll is replace the list by a shorter one while the
// rotation index stays. That situation is produced here by pointing the subscription at a shorter injected list:
// rotation index 0..=3 (case-split) over a list of 3, then any one image gone (case-split), one call with any limit,
// then the empty list. Obligations: no panic, the index beyond the new length is handled (`starting index >= len`),
// the image that is gone is never polled, the rest is served as one cyclic walk.
fn shrink_leaf(sub: &mut Subscription, mem: &Mems, sessions: &[i32; 4], warm: usize, gone: usize) -> PollOut {
    let mut i = 0;
    while i < warm {
        idle_poll(sub);
        i += 1;
    }
    let (a, b) = match gone {
        0 => (1, 2),
        1 => (0, 2),
        _ => (0, 1),
    };
    let mut rest = ManuallyDrop::new([image(mem, a, sessions[a]), image(mem, b, sessions[b])]);
    inject(sub, rest.as_mut_ptr(), 2);
    i = 0;
    while i < 3 {
        mem.set_words(i, [FRAME, FRAME]);
        i += 1;
    }
    let limit: i32 = kani::any();
    let mut seen = Seen::new(mem.bases());
    seen.begin_call();
    let result = plain_poll(sub, &mut seen, limit);
    let mut bl = [2i64, 2, 2, 0];
    bl[gone] = 0;
    let starved = check_poll(2, &[a, b, 3, 3], mem, &seen, &bl, &[0; 4], limit, result);
    assert!(seen.per[gone] == 0 && mem.position(gone) == 0, "C20: an image that is no longer listed is never polled");
    let first = seen.first;
    // and the empty list
    inject(sub, rest.as_mut_ptr(), 0);
    seen.begin_call();
    let r0 = plain_poll(sub, &mut seen, limit);
    assert!(r0 == 0 && seen.calls == 0, "C20: a poll over no images delivers nothing");
    PollOut { limit, result, total_backlog: 4, starved, first, rr: warm }
}

// @verif tier=quick unwind=10 fs=200
#[kani::proof]
fn c20_poll_list_shrunk_between_polls() {
    pretouch();
    mems!(mem);
    let sessions: [i32; 4] = kani::any();
    let mut sub = subscription();
    let mut images = ManuallyDrop::new([image(&mem, 0, sessions[0]), image(&mem, 1, sessions[1]), image(&mem, 2, sessions[2])]);
    inject(&mut sub, images.as_mut_ptr(), 3);
    let warm: usize = kani::any();
    let gone: usize = kani::any();
    let o = split!(warm, |w| split!(gone, |g| shrink_leaf(&mut sub, &mem, &sessions, w, g), 0, 1, 2), 0, 1, 2, 3);
    std::mem::forget(sub);
    kani::cover!(o.rr == 3 && o.result == 4 && o.first != NOBODY, "[must] rotation index beyond the shorter list: reset, everything left is drained");
    kani::cover!(o.rr == 2 && o.result == 1, "[must] rotation index equal to the new length: reset to the first image");
    kani::cover!(o.starved && o.limit > 0, "[must] limit reached before all images polled");
}

// ---- the real add_image / remove_image between polls ------------------------------------------------------------
// One list mutation per harness, on top of an injected list; rotation state and the image concerned are literals of
// the instance. After the mutation the list is the heap Vec the real code allocates (opaque to symbolic execution, and
// the images it drops go through the garbage drop dispatch described above). Measured: add_image onto a one-image list
// + two polls 90 s / 6 M variables; onto a two-image list 23 GB; every remove_image instance (even 2 -> 1 images, one
// poll) out of memory at 24 GB - kept below with tier=off. What the add instances establish is the post-state of the
// mutation (list contents, rotation index untouched: the added image is the next one the rotation selects); the
// fairness bound for the resulting list is then the injected-list fairness harness of that length, which starts from
// every rotation state. The poll side of a removal is `c20_poll_list_shrunk_between_polls` above.

/// images 0 and 1 listed, `warm` idle polls, add image 2, then two calls with limit 1.
fn add_image_case(warm: usize) {
    pretouch();
    mems!(mem);
    let sessions: [i32; 4] = kani::any();
    let mut sub = subscription();
    let mut images = ManuallyDrop::new([image(&mem, 0, sessions[0]), image(&mem, 1, sessions[1])]);
    inject(&mut sub, images.as_mut_ptr(), 2);
    let mut i = 0;
    while i < warm {
        idle_poll(&mut sub);
        i += 1;
    }
    let old = sub.add_image(image(&mem, 2, sessions[2]));
    // (image() lays the frame headers out with length word 0: commit the frames only now)
    i = 0;
    while i < 3 {
        mem.set_words(i, [FRAME, FRAME]);
        i += 1;
    }
    assert!(old.len() == 2 && sub.image_count() == 3, "C20: add_image appends to the list and returns the previous list");
    assert!(sub.has_image(CORR[2]) && sub.has_image(CORR[0]) && sub.has_image(CORR[1]), "C20: the list holds the old images and the added one");
    std::mem::forget(old);
    let mut seen = Seen::new(mem.bases());
    // the rotation index is what the idle polls left (<= 2 < new length 3): the next two calls start at images warm, warm + 1
    let mut call = 0;
    while call < 2 {
        let before = seen.taken;
        let bl = [2 - before[0], 2 - before[1], 2 - before[2], 0];
        seen.begin_call();
        let r = plain_poll(&mut sub, &mut seen, 1);
        check_poll(3, &[0, 1, 2, 3], &mem, &seen, &bl, &before, 1, r);
        assert!(seen.first == (warm + call) % 3, "C20: add_image leaves the rotation where it was: the next calls start at the following images, the added one included");
        call += 1;
    }
    kani::cover!(seen.taken[2] == 1, "[must] the added image is served");
    std::mem::forget(sub);
}

/// images 0 and 1 listed, `warm` idle polls (rotation index up to 2), remove image `which` (2 = an id that is not listed),
/// then one call with any limit over what is left.
fn remove_image_case(warm: usize, which: usize) {
    pretouch();
    mems!(mem);
    let sessions: [i32; 4] = kani::any();
    let mut sub = subscription();
    let mut images = ManuallyDrop::new([image(&mem, 0, sessions[0]), image(&mem, 1, sessions[1])]);
    inject(&mut sub, images.as_mut_ptr(), 2);
    let mut i = 0;
    while i < 2 {
        mem.set_words(i, [FRAME, FRAME]);
        i += 1;
    }
    i = 0;
    while i < warm {
        idle_poll(&mut sub);
        i += 1;
    }
    let mut ids = [0usize, 1, 3, 3];
    let mut bl = [2i64, 2, 0, 0];
    let mut n = 2;
    match sub.remove_image(CORR[which]) {
        Some((old, index)) => {
            assert!(which < 2 && index as usize == which && old.len() == 2, "C20: remove_image reports the removed position and the previous list");
            std::mem::forget(old);
            n = 1;
            bl[which] = 0;
            ids = if which == 0 { [1, 3, 3, 3] } else { [0, 3, 3, 3] };
        }
        None => assert!(which == 2, "C20: remove_image of a listed image must succeed"),
    }
    assert!(sub.image_count() == n && !sub.has_image(CORR[which]), "C20: the removed image is no longer listed");
    let limit: i32 = kani::any();
    let mut seen = Seen::new(mem.bases());
    seen.begin_call();
    let r = plain_poll(&mut sub, &mut seen, limit);
    check_poll(n, &ids, &mem, &seen, &bl, &[0; 4], limit, r);
    if which < 2 {
        assert!(seen.per[which] == 0 && mem.position(which) == 0, "C20: a removed image is no longer polled");
    }
    kani::cover!(r as usize == 2 * n, "[must] everything left is drained in one call after the removal");
    std::mem::forget(sub);
}

/// image 0 listed, one idle poll (rotation index 1 = list length), add image 1, then two calls with limit 1: the added
/// image is the one the rotation index now selects; the call after it wraps to image 0.
fn add_image_to_single_case() {
    pretouch();
    mems!(mem);
    let sessions: [i32; 4] = kani::any();
    let mut sub = subscription();
    let mut images = ManuallyDrop::new([image(&mem, 0, sessions[0])]);
    inject(&mut sub, images.as_mut_ptr(), 1);
    idle_poll(&mut sub);
    let old = sub.add_image(image(&mem, 1, sessions[1]));
    // (image() lays the frame headers out with length word 0: commit the frames only now)
    mem.set_words(0, [FRAME, FRAME]);
    mem.set_words(1, [FRAME, FRAME]);
    assert!(old.len() == 1 && sub.image_count() == 2 && sub.has_image(CORR[0]) && sub.has_image(CORR[1]), "C20: add_image appends to the list and returns the previous list");
    std::mem::forget(old);
    let mut seen = Seen::new(mem.bases());
    let mut call = 0;
    while call < 2 {
        let before = seen.taken;
        let bl = [2 - before[0], 2 - before[1], 0, 0];
        seen.begin_call();
        let r = plain_poll(&mut sub, &mut seen, 1);
        check_poll(2, &[0, 1, 2, 3], &mem, &seen, &bl, &before, 1, r);
        assert!(seen.first == (1 + call) % 2, "C20: the added image is served by the very next call, the one after it wraps to the first image");
        call += 1;
    }
    kani::cover!(seen.taken[1] == 1 && seen.taken[0] == 1, "[must] the added image is served, then the rotation wraps");
    std::mem::forget(sub);
}

macro_rules! list_case {
    ($name:ident, $f:ident) => {
        #[kani::proof]
        fn $name() {
            $f()
        }
    };
    ($name:ident, $f:ident, $($arg:expr),+) => {
        #[kani::proof]
        fn $name() {
            $f($($arg),+)
        }
    };
}
// @verif tier=quick unwind=10 fs=1200 unwindset=term_reader4read:4
list_case!(c20_poll_add_image_to_single_image_list, add_image_to_single_case);
// rotation index 0: both calls after the add start at cloned (opaque) images - out of memory at 24 GB
// @verif tier=off mem=24 unwind=10 fs=1200 unwindset=term_reader4read:4
list_case!(c20_poll_add_image_rr0, add_image_case, 0);
// the added image is the next one in the rotation
// @verif tier=thorough mem=24 unwind=10 fs=1200 unwindset=term_reader4read:4
list_case!(c20_poll_add_image_rr2, add_image_case, 2);
// rotation index 2 >= new length 1: the reset path
// @verif tier=off mem=24 unwind=10 fs=1200 unwindset=term_reader4read:4
list_case!(c20_poll_remove_image_rr2_first, remove_image_case, 2, 0);
// @verif tier=off mem=24 unwind=10 fs=1200 unwindset=term_reader4read:4
list_case!(c20_poll_remove_image_rr1_last, remove_image_case, 1, 1);
// @verif tier=off mem=24 unwind=10 fs=1200 unwindset=term_reader4read:4
list_case!(c20_poll_remove_image_rr1_unknown_id, remove_image_case, 1, 2);
