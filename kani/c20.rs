//! C20 harnesses.
