//! C05 harnesses.
