//! C05 — image polling accounts for exactly the frames it delivers, in every poll variant.
//!
//! Two regimes over one real `LogBuffers` (3 * 256 + 4096 bytes), `UnsafeBufferPosition` and `Image`:
//!
//! R1 (`c05_<variant>`, `c05_havoc_*`; `fs=4865`): per literal instance the LAYOUT is constant - term count (=> partition
//!    and high position bits, up to 2^31 - 1), start offset, frame lengths and the stored length words (+len committed,
//!    -len claimed / in flight, 0 untouched; gaps included) - and every VALUE is symbolic: DATA / PAD per frame, flags,
//!    session id, reserved value, first payload byte, initial term id, fragment limit (any i32), position bound
//!    (any i64), block length limit (any i32), one handler action per fragment. Fast: quick tier.
//! R2 (`c05_sym_<variant>`; default field sensitivity): nothing is literal - any term count, any start offset, up to
//!    three committed frames of any lengths, every other byte of the log unconstrained. Minutes of SAT: thorough tier.
//!
//! Oracle: the reference walkers `walk` / `walk_peek` / `walk_block` / `sym_walk`, written from the property statement
//! and the Aeron reader protocol over the harness' own frame table (never from the code under test), in i64.
//! Findings decided here (see /verif/native/tests/c05.rs): bounded_poll / bounded_controlled_poll narrowed
//! `bound - position + offset` to i32 (a bound > 2^31 behind the position became a positive limit offset);
//! block_poll overflowed `term_offset + block_length_limit`.
use super::hook;
use super::util::*;
use crate::concurrent::atomic_buffer::AtomicBuffer;
use crate::concurrent::logbuffer::header::Header;
use crate::concurrent::logbuffer::{data_frame_header as dfh, frame_descriptor as fd, log_buffer_descriptor as lbd};
use crate::concurrent::position::{ReadablePosition, UnsafeBufferPosition};
use crate::image::{ControlledPollAction, Image};
use crate::utils::errors::AeronError;
use crate::utils::log_buffers::LogBuffers;
use crate::utils::types::Index;
use std::ffi::CString;
use std::sync::Arc;

const T: i32 = 256;
const LOG: usize = 3 * 256 + 4096;
const NF: usize = 3; // frames per instance table
const NC: usize = 4; // recorded handler calls (one more than can legally happen)

/// Layout of one instance: literally constant. `tc` = number of terms the stream has advanced (=> partition tc % 3 and
/// the high bits of the position), `start` = term offset of the subscriber position, `lens[..n]` = frame lengths
/// (header included) of the frames laid out back to back from `start`, `words` = the length words actually stored.
#[derive(Copy, Clone)]
struct Inst {
    tc: i64,
    start: i32,
    n: usize,
    lens: [i32; NF],
    /// lens[i] = committed, -lens[i] = claimed and still being written, 0 = untouched
    words: [i32; NF],
    /// C03 consumer side: every byte that is not a committed frame header / the next length word is symbolic garbage
    havoc: bool,
    /// controlled_peek only: index of the frame the peek starts from (>= the subscriber position)
    from: usize,
}

impl Inst {
    fn committed(&self, i: usize) -> bool {
        self.words[i] > 0
    }
    /// number of leading committed frames
    fn prefix(&self) -> usize {
        let mut i = 0;
        while i < self.n && self.committed(i) {
            i += 1;
        }
        i
    }
    fn part(&self) -> i32 {
        (self.tc % 3) as i32
    }
    fn pos0(&self) -> i64 {
        self.tc * T as i64 + self.start as i64
    }
    fn term_begin(&self) -> i64 {
        self.tc * T as i64
    }
    fn term_end(&self) -> i64 {
        self.tc * T as i64 + T as i64
    }
    fn off(&self, i: usize) -> i32 {
        let mut o = self.start as i64;
        let mut k = 0;
        while k < i {
            o += align32(self.lens[k] as i64);
            k += 1;
        }
        o as i32
    }
    fn end(&self) -> i32 {
        self.off(self.n)
    }
    fn well_formed(&self) -> bool {
        let mut ok = self.tc >= 0 && self.tc <= i32::MAX as i64 && self.start >= 0 && self.start % 32 == 0 && self.n <= NF && self.end() <= T && self.from <= self.n;
        let mut k = 0;
        while k < self.n {
            ok = ok && self.lens[k] >= 32 && (self.words[k] == self.lens[k] || self.words[k] == -self.lens[k] || self.words[k] == 0);
            k += 1;
        }
        ok
    }
    fn havoc(self) -> Inst {
        Inst { havoc: true, ..self }
    }
    fn from(self, j: usize) -> Inst {
        Inst { from: j, ..self }
    }
}

// The layouts. Offsets in comments. Every `words` argument is a literal at the call site.
/// partition 0, first term, frames at 0 / 32 / 96, next free slot 160
fn lay_a(words: [i32; NF]) -> Inst {
    Inst { tc: 0, start: 0, n: 3, lens: [32, 33, 49], words, havoc: false, from: 0 }
}
/// partition 1, second term, frames at 64 / 128 / 192, the last one ends exactly at the term end
fn lay_b(words: [i32; NF]) -> Inst {
    Inst { tc: 1, start: 64, n: 3, lens: [49, 64, 64], words, havoc: false, from: 0 }
}
/// partition 2, term count 2^23 + 3 (position has bit 31 set: exercises the i64 -> i32 narrowing), frames at 160 / 224
fn lay_c(words: [i32; NF]) -> Inst {
    Inst { tc: (1 << 23) + 3, start: 160, n: 2, lens: [64, 32, 32], words, havoc: false, from: 0 }
}
/// partition 1, the last term count an i32 term id difference can express, frames at 0 / 96 / 128 up to the term end
fn lay_d(words: [i32; NF]) -> Inst {
    Inst { tc: i32::MAX as i64, start: 0, n: 3, lens: [96, 32, 128], words, havoc: false, from: 0 }
}
/// partition 0, one header-only frame in the last slot of the term (224)
fn lay_e(words: [i32; NF]) -> Inst {
    Inst { tc: 3, start: 224, n: 1, lens: [32, 32, 32], words, havoc: false, from: 0 }
}
/// partition 2, nothing published at the subscriber position (96)
fn lay_f() -> Inst {
    Inst { tc: 5, start: 96, n: 0, lens: [32, 32, 32], words: [0, 0, 0], havoc: false, from: 0 }
}

/// Symbolic content of the frames of an instance.
#[derive(Copy, Clone)]
struct Frames {
    init_tid: i32,
    tid: i32,
    pad: [bool; NF],
    flags: [u8; NF],
    sid: [i32; NF],
    stream: i32,
    rsv: [i64; NF],
    byte0: [u8; NF],
}

impl Frames {
    fn any(inst: &Inst) -> Frames {
        let init_tid: i32 = kani::any();
        Frames {
            init_tid,
            tid: init_tid.wrapping_add(inst.tc as i32), // the term id a real history has after tc rotations
            pad: kani::any(),
            flags: kani::any(),
            sid: kani::any(),
            stream: kani::any(),
            rsv: kani::any(),
            byte0: kani::any(),
        }
    }
}

fn err_handler(_e: AeronError) {}

fn put_le<const N: usize>(m: &mut [u8; LOG], at: usize, b: [u8; N]) {
    let mut i = 0;
    while i < N {
        m[at + i] = b[i];
        i += 1;
    }
}

/// Lay the frame table into the partition of the instance, byte by byte at literal indices (a typed store through
/// the buffer accessors costs one SSA step per byte of the whole log object under raised field sensitivity).
/// Plain mode: every frame of the table is written completely, only the length word tells committed from in flight
/// (the most tempting state for a reader that does not honour the length word). Havoc mode: the committed prefix is
/// written, then only the next length word (<= 0); every other byte keeps its symbolic garbage.
fn write_frames(m: &mut [u8; LOG], inst: &Inst, f: &Frames) {
    let base = (inst.part() * T) as usize;
    let prefix = inst.prefix();
    let mut i = 0;
    while i < inst.n {
        let o = inst.off(i);
        let at = base + o as usize;
        let len = inst.lens[i];
        if !inst.havoc || i <= prefix {
            put_le(m, at, inst.words[i].to_le_bytes());
        }
        if !inst.havoc || i < prefix {
            m[at + 4] = 0;
            m[at + 5] = f.flags[i];
            put_le(m, at + 6, (if f.pad[i] { dfh::HDR_TYPE_PAD } else { dfh::HDR_TYPE_DATA }).to_le_bytes());
            put_le(m, at + 8, o.to_le_bytes());
            put_le(m, at + 12, f.sid[i].to_le_bytes());
            put_le(m, at + 16, f.stream.to_le_bytes());
            put_le(m, at + 20, f.tid.to_le_bytes());
            put_le(m, at + 24, f.rsv[i].to_le_bytes());
            if len > 32 {
                m[at + 32] = f.byte0[i];
            }
        }
        i += 1;
    }
    if inst.havoc && prefix == inst.n && inst.end() < T {
        put_le(m, base + inst.end() as usize, 0i32.to_le_bytes());
    }
}

struct World {
    image: Image,
    term: AtomicBuffer,
    ctr: AtomicBuffer,
    session: i32,
}

/// Real LogBuffers / UnsafeBufferPosition / Image over harness memory.
fn world(log: &mut Mem<LOG>, ctr: &mut Mem<64>, inst: &Inst, f: &Frames, session: i32, pos0: i64) -> World {
    pretouch();
    assert!(inst.well_formed(), "C05: harness instance table is well formed");
    assert!(*dfh::TYPE_FIELD_OFFSET == 6 && *dfh::FLAGS_FIELD_OFFSET == 5 && *dfh::TERM_ID_FIELD_OFFSET == 20 && *dfh::SESSION_ID_FIELD_OFFSET == 12
        && *dfh::RESERVED_VALUE_FIELD_OFFSET == 24 && *dfh::TERM_OFFSET_FIELD_OFFSET == 8 && *dfh::STREAM_ID_FIELD_OFFSET == 16 && dfh::LENGTH == 32,
        "C05: harness layout assumption");
    write_frames(&mut log.0, inst, f);
    put_le(&mut log.0, 3 * T as usize + *lbd::LOG_INITIAL_TERM_ID_OFFSET as usize, f.init_tid.to_le_bytes());
    let p0 = pos0.to_le_bytes();
    let mut i = 0;
    while i < 8 {
        ctr.0[i] = p0[i];
        i += 1;
    }
    let lb = unsafe { LogBuffers::new(log.0.as_mut_ptr(), LOG as isize, T) };
    let term = lb.atomic_buffer(inst.part());
    let cb = ctr.buf();
    let sp = UnsafeBufferPosition::new(cb, 0);
    let image = Image::create(session, 7, 9, unsafe { CString::from_vec_unchecked(Vec::new()) }, &sp, Arc::new(lb), Box::new(err_handler as fn(AeronError)));
    World { image, term, ctr: cb, session }
}

/// C03 consumer side: the whole active term starts as symbolic garbage (the other partitions and the meta data are
/// not the reader's business: they stay zero and any access to them shows up in the access-trace harness).
fn havoc_term(m: &mut [u8; LOG], base: usize) {
    let g: [u8; 256] = kani::any();
    let mut j = 0;
    while j < 256 {
        m[base + j] = g[j];
        j += 1;
    }
}

macro_rules! setup {
    ($inst:ident, $f:ident, $log:ident, $ctr:ident, $w:ident) => {
        let $f = Frames::any(&$inst);
        let session: i32 = kani::any();
        let mut $log = Mem::<LOG>::zeroed();
        if $inst.havoc {
            havoc_term(&mut $log.0, ($inst.part() * T) as usize);
        }
        let mut $ctr = if $inst.havoc { Mem::<64>::any() } else { Mem::<64>::zeroed() };
        let mut $w = world(&mut $log, &mut $ctr, &$inst, &$f, session, $inst.pos0());
    };
}

/// What the handler was handed, call by call.
#[derive(Copy, Clone)]
struct Rec {
    calls: usize,
    off: [i32; NC],
    len: [i32; NC],
    toff: [i32; NC],
    tid: [i32; NC],
    sid: [i32; NC],
    flen: [i32; NC],
    flags: [u8; NC],
    rsv: [i64; NC],
    b0: [u8; NC],
    ctr: [i64; NC], // subscriber position counter as visible to the handler during the call
    same_buf: bool,
    init_tid_ok: bool,
}

impl Rec {
    fn new() -> Rec {
        Rec { calls: 0, off: [0; NC], len: [0; NC], toff: [0; NC], tid: [0; NC], sid: [0; NC], flen: [0; NC], flags: [0; NC], rsv: [0; NC],
              b0: [0; NC], ctr: [0; NC], same_buf: true, init_tid_ok: true }
    }
    /// R1 regime (term length T)
    fn note(&mut self, term: &AtomicBuffer, ctr: &AtomicBuffer, init_tid: i32, b: &AtomicBuffer, off: Index, len: Index, h: &Header) {
        self.note_t(T, term, ctr, init_tid, b, off, len, h)
    }
    /// R2 regime (term length ST)
    fn note_sym(&mut self, term: &AtomicBuffer, ctr: &AtomicBuffer, init_tid: i32, b: &AtomicBuffer, off: Index, len: Index, h: &Header) {
        self.note_t(ST, term, ctr, init_tid, b, off, len, h)
    }
    fn note_t(&mut self, tl: i32, term: &AtomicBuffer, ctr: &AtomicBuffer, init_tid: i32, b: &AtomicBuffer, off: Index, len: Index, h: &Header) {
        let k = self.calls;
        if k < NC {
            self.off[k] = off;
            self.len[k] = len;
            self.toff[k] = h.term_offset();
            self.tid[k] = h.term_id();
            self.sid[k] = h.session_id();
            self.flen[k] = h.frame_length();
            self.flags[k] = h.flags();
            self.rsv[k] = h.reserved_value();
            self.b0[k] = if len > 0 && off >= 0 && off < tl { b.get::<u8>(off) } else { 0 };
            self.ctr[k] = ctr.get::<i64>(0);
        }
        self.same_buf = self.same_buf && b.buffer() == term.buffer() && b.capacity() == tl && h.buffer().buffer() == term.buffer();
        self.init_tid_ok = self.init_tid_ok && h.initial_term_id() == init_tid;
        self.calls += 1;
    }
}

const ABORT: u8 = 0;
const BREAK: u8 = 1;
const COMMIT: u8 = 2;
const CONTINUE: u8 = 3;

fn action(acts: &[u8; NC], k: usize) -> Result<ControlledPollAction, AeronError> {
    let a = if k < NC { acts[k] } else { CONTINUE };
    Ok(match a {
        ABORT => ControlledPollAction::Abort,
        BREAK => ControlledPollAction::Break,
        COMMIT => ControlledPollAction::Commit,
        _ => ControlledPollAction::Continue,
    })
}

fn any_actions() -> [u8; NC] {
    let a: [u8; NC] = kani::any();
    kani::assume(a[0] < 4 && a[1] < 4 && a[2] < 4 && a[3] < 4);
    a
}

/// Expected outcome of one poll call.
#[derive(Copy, Clone)]
struct Exp {
    calls: usize,      // handler invocations (including one that answered Abort)
    counted: i32,      // fragments the call reports as read
    slot: [usize; NC], // frame table index handed over by call k
    vis: [i64; NC],    // position the counter shows while call k runs
    end_pos: i64,      // subscriber position after the call (peek: position returned)
    out: Out,
}

/// Which interesting branches a run went through (feeds the `[must]` reachability covers of the harness).
#[derive(Copy, Clone)]
struct Out {
    pad: bool,    // padding skipped and a fragment delivered
    unc: bool,    // stopped at an uncommitted frame after delivering
    lim: bool,    // fragment limit (block limit) stopped the call in front of a committed frame
    bound: bool,  // position bound strictly inside the term stopped the call in front of a committed frame
    all: bool,    // every frame of the table consumed
    end: bool,    // position reached the end of the term exactly
    abort: bool,
    brk: bool,
    commit: bool,
    cont: bool,
    lag: bool,    // peek: result lags behind a delivered fragment without END flag
    hi: bool,     // R2: three frames with padding among them, term count above 2^24, mid-term start
    far: bool,    // R2: bound more than 2^32 behind a position above 2^33
    unl: bool,    // R2 block: block length limit i32::MAX with a mid-term start
    padlim: bool, // R2 block: leading padding handed over although longer than the limit
}

impl Out {
    fn none() -> Out {
        Out { pad: false, unc: false, lim: false, bound: false, all: false, end: false, abort: false, brk: false, commit: false, cont: false, lag: false, hi: false, far: false, unl: false, padlim: false }
    }
    fn or(self, o: Out) -> Out {
        Out { pad: self.pad || o.pad, unc: self.unc || o.unc, lim: self.lim || o.lim, bound: self.bound || o.bound, all: self.all || o.all,
              end: self.end || o.end, abort: self.abort || o.abort, brk: self.brk || o.brk, commit: self.commit || o.commit,
              cont: self.cont || o.cont, lag: self.lag || o.lag, hi: self.hi || o.hi, far: self.far || o.far, unl: self.unl || o.unl,
              padlim: self.padlim || o.padlim }
    }
}

/// Reference walker (property statement + Aeron reader protocol): from the subscriber position take frames in order
/// while the fragment limit is not reached, the frame starts below the position bound, the term has not ended and
/// the frame is committed; padding is skipped (position moves over it), a data frame is handed to the handler exactly
/// once with (offset + 32, length - 32); Abort stops before the fragment, Break after it, Commit publishes the
/// position reached, Continue defers publication to the end of the call.
fn walk(inst: &Inst, f: &Frames, fragment_limit: i32, bound: Option<i64>, acts: Option<&[u8; NC]>) -> Exp {
    let mut e = Exp { calls: 0, counted: 0, slot: [0; NC], vis: [0; NC], end_pos: 0, out: Out::none() };
    let mut pos: i64 = inst.pos0();
    let mut vis: i64 = pos;
    let mut padded = false;
    let mut i = 0;
    loop {
        if e.counted as i64 >= fragment_limit as i64 {
            e.out.lim = i < inst.n && inst.committed(i) && e.counted > 0;
            break;
        }
        if pos >= inst.term_end() {
            break;
        }
        if let Some(b) = bound {
            if pos >= b {
                e.out.bound = i < inst.n && inst.committed(i) && b > inst.pos0();
                break;
            }
        }
        if i >= inst.n {
            break; // next length word is zero: nothing published there yet
        }
        if !inst.committed(i) {
            e.out.unc = e.counted > 0;
            break;
        }
        let next = pos + align32(inst.lens[i] as i64);
        if f.pad[i] {
            padded = true;
            pos = next;
            i += 1;
            continue;
        }
        e.slot[e.calls] = i;
        e.vis[e.calls] = vis;
        let a = match acts {
            Some(a) => a[e.calls],
            None => CONTINUE,
        };
        e.calls += 1;
        if a == ABORT {
            e.out.abort = true;
            break;
        }
        e.counted += 1;
        pos = next;
        i += 1;
        if a == BREAK {
            e.out.brk = true;
            break;
        }
        if a == COMMIT {
            e.out.commit = true;
            vis = pos;
        } else {
            e.out.cont = true;
        }
    }
    e.end_pos = pos;
    e.out.pad = padded && e.counted > 0;
    e.out.all = i == inst.n && inst.n > 0;
    e.out.end = pos == inst.term_end();
    e
}

/// The handler saw exactly the expected frames: offset, length, header fields, payload, buffer.
fn check_deliveries(r: &Rec, e: &Exp, inst: &Inst, f: &Frames) {
    assert!(r.calls == e.calls, "C05: the handler is handed exactly the committed data frames between old and new position (count)");
    assert!(r.same_buf, "C05: fragment delivered from a buffer other than the active term buffer");
    assert!(r.init_tid_ok, "C05: header carries the image's initial term id");
    let mut k = 0;
    while k < NF {
        if k < e.calls {
            let i = e.slot[k];
            let o = inst.off(i);
            assert!(r.off[k] == o + 32, "C05: fragment delivered with the wrong data offset");
            assert!(r.len[k] == inst.lens[i] - 32, "C05: fragment delivered with the wrong data length");
            assert!(r.toff[k] == o && r.flen[k] == inst.lens[i], "C05: header term offset / frame length are those of the delivered frame");
            assert!(r.tid[k] == f.tid && r.sid[k] == f.sid[i], "C05: header term id / session id are those of the delivered frame");
            assert!(r.flags[k] == f.flags[i] && r.rsv[k] == f.rsv[i], "C05: header flags / reserved value are those of the delivered frame");
            assert!(inst.lens[i] == 32 || r.b0[k] == f.byte0[i], "C05: delivered payload is the frame's payload");
        }
        k += 1;
    }
}

/// Position bookkeeping shared by every moving variant.
fn check_position(w: &World, expected: i64, inst: &Inst) {
    let after = w.ctr.get::<i64>(0);
    assert!(after == expected, "C05: subscriber position moved by exactly the delivered frames plus skipped padding");
    assert!(w.image.position() == after, "C05: Image::position reports the subscriber position counter");
    assert!(after >= inst.pos0(), "C05: subscriber position moved backwards");
    assert!(after <= inst.term_end(), "C05: subscriber position moved past the end of the current term");
    assert!(after % 32 == 0, "C05: subscriber position left on a frame boundary");
    let p = inst.prefix();
    if p < inst.n {
        assert!(after <= inst.term_begin() + inst.off(p) as i64, "C05: subscriber position moved past an uncommitted frame");
    } else {
        assert!(after <= inst.term_begin() + inst.end() as i64, "C05: subscriber position moved past the last published frame");
    }
}

/// Commit publishes the position reached so far, Continue defers: what the handler sees in the counter while it runs.
fn check_visible(r: &Rec, e: &Exp) {
    let mut k = 0;
    while k < NF {
        assert!(k >= e.calls || r.ctr[k] == e.vis[k], "C05: position visible during a handler call is the last committed one (Commit publishes, Continue defers)");
        k += 1;
    }
}

/// No fragment starts at or after the caller's position bound (stated directly, not through the walker).
fn check_bound(r: &Rec, inst: &Inst, bound: i64) {
    let mut k = 0;
    while k < NC {
        assert!(k >= r.calls || inst.term_begin() + (r.off[k] as i64 - 32) < bound, "C05: fragment delivered that starts at or after the position bound");
        k += 1;
    }
}

// ------------------------------------------------------------------------------------------------ poll variants

fn run_poll(inst: Inst) -> Out {
    setup!(inst, f, log, ctr, w);
    let limit: i32 = kani::any();
    let e = walk(&inst, &f, limit, None, None);
    let mut r = Rec::new();
    let (term, cb) = (w.term, w.ctr);
    let got = w.image.poll(&mut |b: &AtomicBuffer, o: Index, l: Index, h: &Header| r.note(&term, &cb, f.init_tid, b, o, l, h), limit);
    assert!(got == e.counted, "C05: poll returns the number of fragments delivered");
    assert!(got == 0 || got <= limit, "C05: poll delivered more fragments than the fragment limit");
    check_deliveries(&r, &e, &inst, &f);
    check_position(&w, e.end_pos, &inst);
    check_visible(&r, &e);
    std::mem::forget(w);
    e.out
}

fn run_bounded(inst: Inst) -> Out {
    setup!(inst, f, log, ctr, w);
    let limit: i32 = kani::any();
    let bound: i64 = kani::any();
    let e = walk(&inst, &f, limit, Some(bound), None);
    let mut r = Rec::new();
    let (term, cb) = (w.term, w.ctr);
    let got = w.image.bounded_poll(|b: &AtomicBuffer, o: Index, l: Index, h: &Header| r.note(&term, &cb, f.init_tid, b, o, l, h), bound, limit);
    check_bound(&r, &inst, bound);
    assert!(got == e.counted, "C05: bounded_poll returns the number of fragments delivered");
    assert!(got == 0 || got <= limit, "C05: bounded_poll delivered more fragments than the fragment limit");
    check_deliveries(&r, &e, &inst, &f);
    check_position(&w, e.end_pos, &inst);
    check_visible(&r, &e);
    std::mem::forget(w);
    e.out
}

fn run_controlled(inst: Inst) -> Out {
    setup!(inst, f, log, ctr, w);
    let limit: i32 = kani::any();
    let acts = any_actions();
    let e = walk(&inst, &f, limit, None, Some(&acts));
    let mut r = Rec::new();
    let (term, cb) = (w.term, w.ctr);
    let got = w.image.controlled_poll(
        |b: &AtomicBuffer, o: Index, l: Index, h: &Header| {
            let k = r.calls;
            r.note(&term, &cb, f.init_tid, b, o, l, h);
            action(&acts, k)
        },
        limit,
    );
    assert!(got == e.counted, "C05: controlled_poll returns the number of fragments consumed (an aborted one is not counted)");
    assert!(got == 0 || got <= limit, "C05: controlled_poll delivered more fragments than the fragment limit");
    check_deliveries(&r, &e, &inst, &f);
    check_position(&w, e.end_pos, &inst);
    check_visible(&r, &e);
    if e.out.abort {
        let aborted = inst.off(e.slot[e.calls - 1]);
        assert!(cb.get::<i64>(0) == inst.term_begin() + aborted as i64 || r.calls == 0, "C05: Abort leaves the position just before the aborted fragment");
    }
    std::mem::forget(w);
    e.out
}

fn run_bounded_controlled(inst: Inst) -> Out {
    setup!(inst, f, log, ctr, w);
    let limit: i32 = kani::any();
    let bound: i64 = kani::any();
    let acts = any_actions();
    let e = walk(&inst, &f, limit, Some(bound), Some(&acts));
    let mut r = Rec::new();
    let (term, cb) = (w.term, w.ctr);
    let got = w.image.bounded_controlled_poll(
        |b: &AtomicBuffer, o: Index, l: Index, h: &Header| {
            let k = r.calls;
            r.note(&term, &cb, f.init_tid, b, o, l, h);
            action(&acts, k)
        },
        bound,
        limit,
    );
    check_bound(&r, &inst, bound);
    assert!(got == e.counted, "C05: bounded_controlled_poll returns the number of fragments consumed");
    assert!(got == 0 || got <= limit, "C05: bounded_controlled_poll delivered more fragments than the fragment limit");
    check_deliveries(&r, &e, &inst, &f);
    check_position(&w, e.end_pos, &inst);
    check_visible(&r, &e);
    std::mem::forget(w);
    e.out
}

/// Abort => the fragment is handed over again by the next poll (and nothing before it is).
fn run_controlled_redelivery(inst: Inst) -> Out {
    setup!(inst, f, log, ctr, w);
    let acts = any_actions();
    let e = walk(&inst, &f, i32::MAX, None, Some(&acts));
    let mut r = Rec::new();
    let (term, cb) = (w.term, w.ctr);
    let _ = w.image.controlled_poll(
        |b: &AtomicBuffer, o: Index, l: Index, h: &Header| {
            let k = r.calls;
            r.note(&term, &cb, f.init_tid, b, o, l, h);
            action(&acts, k)
        },
        i32::MAX,
    );
    kani::assume(e.out.abort);
    let mut r2 = Rec::new();
    let got2 = w.image.controlled_poll(
        |b: &AtomicBuffer, o: Index, l: Index, h: &Header| {
            r2.note(&term, &cb, f.init_tid, b, o, l, h);
            Ok(ControlledPollAction::Continue)
        },
        1,
    );
    let s = e.slot[e.calls - 1];
    assert!(got2 == 1 && r2.calls == 1, "C05: the aborted fragment is delivered again by the next poll");
    assert!(r2.off[0] == inst.off(s) + 32 && r2.len[0] == inst.lens[s] - 32 && r2.sid[0] == f.sid[s], "C05: the fragment redelivered after Abort is the aborted one");
    assert!(cb.get::<i64>(0) == inst.term_begin() + inst.off(s) as i64 + align32(inst.lens[s] as i64), "C05: position after the redelivery is just past the fragment");
    std::mem::forget(w);
    e.out
}

// ------------------------------------------------------------------------------------------------ controlled_peek

/// Reference for controlled_peek: scan from `initial` while below the limit position; padding and fragments carrying
/// the END flag move the result (a position after a complete message), Abort stops before, Break after the fragment.
fn walk_peek(inst: &Inst, f: &Frames, limit_position: i64, acts: &[u8; NC]) -> Exp {
    let mut e = Exp { calls: 0, counted: 0, slot: [0; NC], vis: [0; NC], end_pos: 0, out: Out::none() };
    let mut i = inst.from;
    let mut pos: i64 = inst.term_begin() + inst.off(i) as i64;
    let mut result = pos;
    let mut padded = false;
    loop {
        if pos >= limit_position {
            e.out.bound = i < inst.n && inst.committed(i) && limit_position > inst.term_begin() + inst.off(inst.from) as i64;
            break;
        }
        if pos >= inst.term_end() {
            break;
        }
        if i >= inst.n {
            break;
        }
        if !inst.committed(i) {
            e.out.unc = e.counted > 0;
            break;
        }
        let next = pos + align32(inst.lens[i] as i64);
        if f.pad[i] {
            padded = true;
            pos = next;
            result = pos;
            i += 1;
            continue;
        }
        e.slot[e.calls] = i;
        e.vis[e.calls] = inst.pos0();
        let a = acts[e.calls];
        e.calls += 1;
        if a == ABORT {
            e.out.abort = true;
            break;
        }
        e.counted += 1;
        pos = next;
        if f.flags[i] & fd::END_FRAG != 0 {
            result = pos;
        }
        i += 1;
        if a == BREAK {
            e.out.brk = true;
            break;
        }
        if a == COMMIT {
            e.out.commit = true;
        } else {
            e.out.cont = true;
        }
    }
    e.end_pos = result;
    e.out.pad = padded && e.counted > 0;
    e.out.all = i == inst.n && inst.n > 0;
    e.out.end = result == inst.term_end();
    e.out.lag = result < pos;
    e
}

fn run_peek(inst: Inst) -> Out {
    setup!(inst, f, log, ctr, w);
    let limit_position: i64 = kani::any();
    let acts = any_actions();
    let initial = inst.term_begin() + inst.off(inst.from) as i64;
    let e = walk_peek(&inst, &f, limit_position, &acts);
    let mut r = Rec::new();
    let (term, cb) = (w.term, w.ctr);
    let res = w.image.controlled_peek(
        initial,
        |b: &AtomicBuffer, o: Index, l: Index, h: &Header| {
            let k = r.calls;
            r.note(&term, &cb, f.init_tid, b, o, l, h);
            action(&acts, k)
        },
        limit_position,
    );
    let got = vok!(res, "C05: controlled_peek refused an aligned position between the subscriber position and the term end");
    check_bound(&r, &inst, limit_position);
    check_deliveries(&r, &e, &inst, &f);
    check_visible(&r, &e);
    assert!(got == e.end_pos, "C05: controlled_peek returns the position after the last complete message it scanned");
    assert!(got >= initial && got <= inst.term_end(), "C05: controlled_peek result is between the initial position and the term end");
    assert!(cb.get::<i64>(0) == inst.pos0() && w.image.position() == inst.pos0(), "C05: controlled_peek must not move the subscriber position");
    std::mem::forget(w);
    e.out
}

fn position_valid(inst: &Inst, p: i64) -> bool {
    p >= inst.pos0() && p <= inst.term_end() && p % 32 == 0
}

/// controlled_peek from a position that is not an aligned position in [subscriber position, term end]: refused,
/// nothing delivered, nothing moved.
fn run_peek_invalid(inst: Inst) -> Out {
    setup!(inst, f, log, ctr, w);
    let initial: i64 = kani::any();
    kani::assume(!position_valid(&inst, initial));
    let mut calls = 0;
    let res = w.image.controlled_peek(
        initial,
        |_b: &AtomicBuffer, _o: Index, _l: Index, _h: &Header| {
            calls += 1;
            Ok(ControlledPollAction::Continue)
        },
        i64::MAX,
    );
    match res {
        Ok(_) => assert!(false, "C05: controlled_peek accepted a position outside [subscriber position, term end] or off the frame alignment"),
        Err(e) => std::mem::forget(e),
    }
    assert!(calls == 0, "C05: a refused controlled_peek delivered a fragment");
    assert!(w.ctr.get::<i64>(0) == inst.pos0(), "C05: a refused controlled_peek moved the subscriber position");
    std::mem::forget(w);
    Out::none()
}

// ------------------------------------------------------------------------------------------------ block_poll

/// What the block handler (a plain `fn`, it cannot capture) was handed. The initial values are deliberately odd and
/// distinct: Kani 0.68 was observed to give a zero-initialised `static mut usize` the same storage as the constant
/// `RawVec` capacity 0 (a later `Vec::new()` then read the pointer stored here as its capacity).
struct Blk {
    calls: usize,
    ptr: usize,
    cap: i32,
    off: i32,
    len: i32,
    session: i32,
    term_id: i32,
}
static mut BLK: Blk = Blk { calls: 0x7700_0001, ptr: 0x7700_0002, cap: 0x7700_0003, off: 0x7700_0004, len: 0x7700_0005, session: 0x7700_0006, term_id: 0x7700_0007 };

fn block_handler(b: &AtomicBuffer, off: Index, len: Index, session: i32, term_id: i32) {
    unsafe {
        BLK.calls += 1;
        BLK.ptr = b.buffer() as usize;
        BLK.cap = b.capacity();
        BLK.off = off;
        BLK.len = len;
        BLK.session = session;
        BLK.term_id = term_id;
    }
}

/// Reference for block_poll (Aeron block scanner): whole committed frames from the subscriber position while they
/// fit below position + block_length_limit and the term end; padding ends a block and is handed over alone (its
/// header is all that has to be valid, so it may exceed the limit).
fn walk_block(inst: &Inst, f: &Frames, block_length_limit: i32) -> (i64, Out) {
    let mut out = Out::none();
    let start = inst.start as i64;
    let lim = core::cmp::min(start + block_length_limit as i64, T as i64);
    let mut off = start;
    let mut i = 0;
    while off < lim && i < inst.n {
        if !inst.committed(i) {
            out.unc = off > start;
            break;
        }
        let next = off + align32(inst.lens[i] as i64);
        if f.pad[i] {
            if off == start {
                off = next;
                out.pad = true;
            }
            break;
        }
        if next > lim {
            out.lim = true;
            break;
        }
        off = next;
        i += 1;
    }
    out.all = i == inst.n && inst.n > 0;
    out.end = off == T as i64;
    (off - start, out)
}

fn run_block(inst: Inst) -> Out {
    setup!(inst, f, log, ctr, w);
    let block_length_limit: i32 = kani::any();
    let (exp_len, out) = walk_block(&inst, &f, block_length_limit);
    unsafe { BLK.calls = 0 };
    let got = w.image.block_poll(block_handler, block_length_limit);
    assert!(got as i64 == exp_len, "C05: block_poll returns the length of the block of whole committed frames within the block length limit");
    unsafe {
        if exp_len > 0 {
            assert!(BLK.calls == 1, "C05: block_poll hands over exactly one block");
            assert!(BLK.ptr == w.term.buffer() as usize && BLK.cap == T, "C05: block delivered from a buffer other than the active term buffer");
            assert!(BLK.off == inst.start && BLK.len as i64 == exp_len, "C05: block is [subscriber offset, offset + length)");
            assert!(BLK.session == w.session && BLK.term_id == f.tid, "C05: block carries the image's session id and the term id of its first frame");
            assert!(exp_len <= block_length_limit as i64 || f.pad[0], "C05: block longer than the block length limit");
        } else {
            assert!(BLK.calls == 0, "C05: block handler called although no whole committed frame fits");
        }
    }
    check_position(&w, inst.pos0() + exp_len, &inst);
    std::mem::forget(w);
    out
}

// ------------------------------------------------------------------------------------------------ closed image, set_position

/// A closed image is inert: every poll flavour returns 0 / the position it was given, hands nothing over, moves nothing.
fn run_closed(inst: Inst) -> Out {
    setup!(inst, f, log, ctr, w);
    w.image.close();
    assert!(w.image.is_closed(), "C05: close closes");
    let (limit, blimit): (i32, i32) = (kani::any(), kani::any());
    let (bound, p): (i64, i64) = (kani::any(), kani::any());
    let mut calls = 0;
    let a = w.image.poll(&mut |_b: &AtomicBuffer, _o: Index, _l: Index, _h: &Header| calls += 1, limit);
    let b = w.image.bounded_poll(|_b: &AtomicBuffer, _o: Index, _l: Index, _h: &Header| calls += 1, bound, limit);
    let c = w.image.controlled_poll(|_b: &AtomicBuffer, _o: Index, _l: Index, _h: &Header| { calls += 1; Ok(ControlledPollAction::Continue) }, limit);
    let d = w.image.bounded_controlled_poll(|_b: &AtomicBuffer, _o: Index, _l: Index, _h: &Header| { calls += 1; Ok(ControlledPollAction::Continue) }, bound, limit);
    let e = vok!(w.image.controlled_peek(p, |_b: &AtomicBuffer, _o: Index, _l: Index, _h: &Header| { calls += 1; Ok(ControlledPollAction::Continue) }, bound),
        "C05: controlled_peek on a closed image reports no error");
    unsafe { BLK.calls = 0 };
    let g = w.image.block_poll(block_handler, blimit);
    assert!(a == 0 && b == 0 && c == 0 && d == 0 && g == 0, "C05: a closed image delivers nothing");
    assert!(e == p, "C05: controlled_peek on a closed image returns the initial position");
    assert!(calls == 0 && unsafe { BLK.calls } == 0, "C05: a closed image called a handler");
    vok!(w.image.set_position(p), "C05: set_position on a closed image is ignored without error");
    assert!(w.ctr.get::<i64>(0) == inst.pos0(), "C05: a closed image moved the subscriber position");
    assert!(w.image.position() == inst.pos0(), "C05: a closed image reports the position it was closed at");
    std::mem::forget(w);
    Out::none()
}

/// set_position accepts exactly the 32-aligned positions in [subscriber position, end of the current term] (Aeron
/// Image.validatePosition) and stores them; anything else is refused and leaves the position alone. No term bytes
/// are read, so the current position is fully symbolic: any term count below 2^31, any frame boundary.
// @verif tier=quick unwind=9 fs=4865
#[kani::proof]
fn c05_set_position_accepts_exactly_current_term() {
    let inst = lay_f();
    let f = Frames::any(&inst);
    let mut log = Mem::<LOG>::zeroed();
    let mut ctr = Mem::<64>::zeroed();
    let tc: i64 = kani::any();
    let slot: i64 = kani::any();
    kani::assume(tc >= 0 && tc <= i32::MAX as i64 && slot >= 0 && slot < 8);
    let cur = tc * T as i64 + slot * 32;
    let w = world(&mut log, &mut ctr, &inst, &f, 1, cur);
    let p: i64 = kani::any();
    let valid = p >= cur && p <= (tc + 1) * T as i64 && p % 32 == 0;
    match w.image.set_position(p) {
        Ok(()) => {
            assert!(valid, "C05: set_position accepted a position outside [subscriber position, term end] or off the frame alignment");
            assert!(w.ctr.get::<i64>(0) == p && w.image.position() == p, "C05: set_position stores the accepted position");
        }
        Err(e) => {
            assert!(!valid, "C05: set_position refused an aligned position between the subscriber position and the term end");
            assert!(w.ctr.get::<i64>(0) == cur, "C05: a refused set_position moved the subscriber position");
            std::mem::forget(e);
        }
    }
    kani::cover!(valid && p == (tc + 1) * T as i64 && tc == i32::MAX as i64, "[must] term end of the last term accepted");
    kani::cover!(valid && p == cur, "[must] current position accepted");
    kani::cover!(!valid && p % 32 == 0 && p == cur - 32, "[must] position behind the subscriber refused");
    std::mem::forget(w);
}

// ------------------------------------------------------------------------------------------------ C03 consumer side

/// Every variant on a term whose bytes beyond the committed frames are symbolic garbage (only the next length word
/// is known to be <= 0): the handlers see exactly the committed frames and the position stops in front of the garbage.
fn run_havoc_plain(inst: Inst) -> Out {
    let h = inst.havoc();
    run_poll(h).or(run_bounded(h)).or(run_block(h))
}

fn run_havoc_controlled(inst: Inst) -> Out {
    let h = inst.havoc();
    run_controlled(h).or(run_bounded_controlled(h)).or(run_peek(h))
}

/// Access trace of one poll over a havocked term: inside the term buffer nothing at or beyond the first
/// non-committed frame is loaded except its length word (by an acquire-class load), and nothing is stored.
fn run_havoc_poll_trace(inst: Inst) -> Out {
    let inst = inst.havoc();
    setup!(inst, f, log, ctr, w);
    let e = walk(&inst, &f, i32::MAX, None, None);
    let base = w.term.buffer() as usize;
    let boundary = base + inst.off(inst.prefix()) as usize;
    let mut calls = 0;
    hook::begin(u32::MAX, u32::MAX, None, true);
    let got = w.image.poll(&mut |_b: &AtomicBuffer, _o: Index, _l: Index, _h: &Header| calls += 1, i32::MAX);
    hook::end();
    assert!(got == e.counted && calls == e.calls, "C05: poll over a havocked tail delivers exactly the committed frames");
    check_position(&w, e.end_pos, &inst);
    kani::cover!(hook::trace_len() >= 7, "[must] access trace holds the loads of two delivered frames and the stopping length word");
    assert!(hook::trace_len() <= 12, "C05: harness trace bound (3 frames: 2 loads each, final length word, position load/store)");
    let mut k = 0;
    while k < 12 {
        if k < hook::trace_len() {
            let a = hook::trace_at(k);
            if a.addr >= base && a.addr < base + T as usize {
                assert!(!a.is_write, "C05: poll stored into the term buffer");
                assert!(a.addr + a.len <= boundary || (a.addr == boundary && a.len == 4 && a.kind == hook::ACQUIRE),
                    "C05: poll loaded bytes at or beyond a non-committed frame other than its length word (acquire)");
            }
        }
        k += 1;
    }
    std::mem::forget(w);
    e.out
}

/// Deliberately wrong expectation (vacuity witness): claims the position ignores the commit state.
fn run_twin(inst: Inst) -> Out {
    setup!(inst, f, log, ctr, w);
    let got = w.image.poll(&mut |_b: &AtomicBuffer, _o: Index, _l: Index, _h: &Header| {}, i32::MAX);
    assert!(w.ctr.get::<i64>(0) == inst.term_begin() + inst.end() as i64, "C05: TWIN position reaches the end of the table although a frame is not committed");
    std::mem::forget(w);
    Out::none()
}

// ------------------------------------------------------------------------------------------------ symbolic layout (regime R2)
//
// Second regime (HARNESS_GUIDE R2 / DESIGN 1): default field sensitivity, so the log object is one array-theory
// array and NOTHING about the layout is literal: any term count below 2^31 (hence any partition and any high bits of
// the position), any 32-aligned subscriber offset, up to three committed frames of ANY lengths and types, every other
// byte of the whole log (bytes behind the committed frames, other partitions, meta data) unconstrained. The glue
// predicate `wf` of DESIGN 3.2 is assumed on the memory by decoding it with the harness' own byte reader. The cost
// moves from symex to the solver (minutes per harness): thorough tier.

/// Term length and object size of the R2 harnesses: 3 terms of 128 bytes + the first 272 bytes of the meta data section
/// (all the Image reads of it; `LogBuffers::new` is told the regular 4096, any access beyond the 272 is a CBMC pointer
/// failure). 656 bytes keeps the object below CBMC's 1000-element limit for flattened (non array-theory) arrays.
const ST: i32 = 128;
const SLOG: usize = 3 * 128 + 272;

fn rd_i32(m: &[u8; SLOG], at: usize) -> i32 {
    i32::from_le_bytes([m[at], m[at + 1], m[at + 2], m[at + 3]])
}

/// Committed frames ahead of the subscriber position, decoded from the symbolic memory.
struct SymTable {
    n: usize,
    off: [i32; NF + 1],
    len: [i32; NF],
    pad: [bool; NF],
    flags: [u8; NF],
    sid: [i32; NF],
    tid: [i32; NF],
    rsv: [i64; NF],
    b0: [u8; NF],
}

fn sym_table(m: &[u8; SLOG], base: usize, start: i32, maxf: usize) -> SymTable {
    let mut t = SymTable { n: 0, off: [start; NF + 1], len: [0; NF], pad: [false; NF], flags: [0; NF], sid: [0; NF], tid: [0; NF], rsv: [0; NF], b0: [0; NF] };
    let mut off = start;
    let mut open = true;
    let mut i = 0;
    while i < NF {
        if i < maxf {
            if open && off < ST {
                let at = base + off as usize;
                let w = rd_i32(m, at);
                if w > 0 {
                    kani::assume(w >= 32 && off as i64 + align32(w as i64) <= ST as i64); // wf: frame lies inside the term
                    t.len[i] = w;
                    t.flags[i] = m[at + 5];
                    t.pad[i] = m[at + 6] == 0 && m[at + 7] == 0;
                    t.sid[i] = rd_i32(m, at + 12);
                    t.tid[i] = rd_i32(m, at + 20);
                    t.rsv[i] = ((rd_i32(m, at + 28) as i64) << 32) | (rd_i32(m, at + 24) as u32 as i64);
                    t.b0[i] = if w > 32 { m[at + 32] } else { 0 };
                    off += align32(w as i64) as i32;
                    t.n = i + 1;
                } else {
                    open = false;
                }
            } else {
                open = false;
            }
        }
        t.off[i + 1] = off;
        i += 1;
    }
    if open && off < ST {
        kani::assume(rd_i32(m, base + off as usize) <= 0); // bound of these harnesses: at most maxf committed frames ahead
    }
    t
}

#[derive(Copy, Clone, PartialEq, Eq)]
enum Variant {
    Poll,
    Bounded,
    Controlled,
    BoundedControlled,
    Peek,
    Block,
}

/// Reference for all fragment-wise variants over a decoded table (same rules as `walk` / `walk_peek`).
fn sym_walk(t: &SymTable, term_begin: i64, from: usize, fragment_limit: i32, bound: Option<i64>, acts: Option<&[u8; NC]>, peek: bool, vis0: i64) -> Exp {
    let mut e = Exp { calls: 0, counted: 0, slot: [0; NC], vis: [0; NC], end_pos: 0, out: Out::none() };
    let mut i = from;
    let mut pos: i64 = term_begin + t.off[i] as i64;
    let mut result = pos;
    let mut vis = vis0;
    let mut step = 0;
    while step <= NF {
        step += 1;
        if e.counted as i64 >= fragment_limit as i64 {
            e.out.lim = i < t.n && e.counted > 0;
            break;
        }
        if pos >= term_begin + ST as i64 {
            break;
        }
        if let Some(b) = bound {
            if pos >= b {
                e.out.bound = i < t.n && b > term_begin + t.off[from] as i64;
                break;
            }
        }
        if i >= t.n {
            e.out.unc = e.counted > 0;
            break;
        }
        let next = term_begin + t.off[i + 1] as i64;
        if t.pad[i] {
            e.out.pad = true;
            pos = next;
            result = pos;
            i += 1;
            continue;
        }
        e.slot[e.calls] = i;
        e.vis[e.calls] = vis;
        let a = match acts {
            Some(a) => a[e.calls],
            None => CONTINUE,
        };
        e.calls += 1;
        if a == ABORT {
            e.out.abort = true;
            break;
        }
        e.counted += 1;
        pos = next;
        if !peek || t.flags[i] & fd::END_FRAG != 0 {
            result = pos;
        }
        i += 1;
        if a == BREAK {
            e.out.brk = true;
            break;
        }
        if a == COMMIT {
            e.out.commit = true;
            if !peek {
                vis = pos;
            }
        } else {
            e.out.cont = true;
        }
    }
    e.end_pos = if peek { result } else { pos };
    e.out.lag = result < pos;
    e.out.all = i == t.n && t.n > 0;
    e.out.end = e.end_pos == term_begin + ST as i64;
    e
}

fn sym_run(v: Variant, maxf: usize) -> Out {
    pretouch();
    let mut log = Mem::<SLOG>::any();
    let mut ctr = Mem::<64>::zeroed();
    let tc: i64 = kani::any();
    let slot: i32 = kani::any();
    kani::assume(tc >= 0 && tc <= i32::MAX as i64 && slot >= 0 && slot < ST / 32);
    let start = slot * 32;
    let term_begin = tc * ST as i64;
    let pos0 = term_begin + start as i64;
    let base = ((tc % 3) * ST as i64) as usize;
    let t = sym_table(&log.0, base, start, maxf);
    let init_tid = rd_i32(&log.0, 3 * ST as usize + *lbd::LOG_INITIAL_TERM_ID_OFFSET as usize);
    let p0 = pos0.to_le_bytes();
    let mut i = 0;
    while i < 8 {
        ctr.0[i] = p0[i];
        i += 1;
    }
    let lb = unsafe { LogBuffers::new(log.0.as_mut_ptr(), 3 * ST as isize + 4096, ST) };
    let cb = ctr.buf();
    let sp = UnsafeBufferPosition::new(cb, 0);
    let session: i32 = kani::any();
    let mut image = Image::create(session, 7, 9, unsafe { CString::from_vec_unchecked(Vec::new()) }, &sp, Arc::new(lb), Box::new(err_handler as fn(AeronError)));
    let term = AtomicBuffer::new(unsafe { log.0.as_mut_ptr().add(base) }, ST);

    if v == Variant::Block {
        let limit: i32 = kani::any();
        // reference (Aeron block scanner): whole frames below min(start + limit, ST); padding ends the block, alone if first
        let lim = core::cmp::min(start as i64 + limit as i64, ST as i64);
        let mut end = start as i64;
        let mut k = 0;
        while k < NF {
            if k < t.n && end < lim {
                let next = t.off[k + 1] as i64;
                if t.pad[k] {
                    if k == 0 {
                        end = next;
                    }
                    break;
                }
                if next > lim {
                    break;
                }
                end = next;
            } else {
                break;
            }
            k += 1;
        }
        let exp_len = end - start as i64;
        unsafe { BLK.calls = 0 };
        let got = image.block_poll(block_handler, limit);
        assert!(got as i64 == exp_len, "C05: block_poll returns the length of the block of whole committed frames within the block length limit");
        unsafe {
            if exp_len > 0 {
                assert!(BLK.calls == 1 && BLK.ptr == term.buffer() as usize && BLK.cap == ST && BLK.off == start && BLK.len as i64 == exp_len,
                    "C05: block_poll hands over exactly one block [subscriber offset, offset + length) of the active term buffer");
                assert!(BLK.session == session && BLK.term_id == t.tid[0], "C05: block carries the image's session id and the term id of its first frame");
                assert!(exp_len <= limit as i64 || t.pad[0], "C05: block longer than the block length limit");
            } else {
                assert!(BLK.calls == 0, "C05: block handler called although no whole committed frame fits");
            }
        }
        let after = cb.get::<i64>(0);
        assert!(after == pos0 + exp_len, "C05: subscriber position moved by exactly the block length");
        assert!(after <= term_begin + t.off[t.n] as i64 && after <= term_begin + ST as i64, "C05: subscriber position moved past an uncommitted frame or the term end");
        let mut out = Out::none();
        out.lim = t.n == maxf && exp_len == (t.off[maxf - 1] - start) as i64 && !t.pad[maxf - 1] && tc > (1 << 24) && start > 0;
        out.padlim = t.n >= 1 && t.pad[0] && exp_len > limit as i64 && limit > 0;
        out.unl = limit == i32::MAX && start > 0 && exp_len > 0;
        out.unc = t.n == 1 && t.off[1] < ST && exp_len == (t.off[1] - start) as i64;
        out.end = exp_len > 0 && end == ST as i64;
        std::mem::forget(image);
        return out;
    }

    let peek = v == Variant::Peek;
    let limit: i32 = if peek { i32::MAX } else { kani::any() };
    let bound: i64 = kani::any();
    let use_bound = v == Variant::Bounded || v == Variant::BoundedControlled || peek;
    let acts = any_actions();
    let use_acts = v == Variant::Controlled || v == Variant::BoundedControlled || peek;
    let from: usize = if peek { kani::any() } else { 0 };
    // a peek from exactly the term end is a peek into the NEXT term (other partition, not described by the table): R1 instance `lay_b(..).from(3)`
    kani::assume(from <= t.n && t.off[from] < ST);
    let e = sym_walk(&t, term_begin, from, limit, if use_bound { Some(bound) } else { None }, if use_acts { Some(&acts) } else { None }, peek, pos0);

    let mut r = Rec::new();
    let got: i64 = match v {
        Variant::Poll => image.poll(&mut |b: &AtomicBuffer, o: Index, l: Index, h: &Header| r.note_sym(&term, &cb, init_tid, b, o, l, h), limit) as i64,
        Variant::Bounded => image.bounded_poll(|b: &AtomicBuffer, o: Index, l: Index, h: &Header| r.note_sym(&term, &cb, init_tid, b, o, l, h), bound, limit) as i64,
        Variant::Controlled => image.controlled_poll(
            |b: &AtomicBuffer, o: Index, l: Index, h: &Header| {
                let k = r.calls;
                r.note_sym(&term, &cb, init_tid, b, o, l, h);
                action(&acts, k)
            },
            limit,
        ) as i64,
        Variant::BoundedControlled => image.bounded_controlled_poll(
            |b: &AtomicBuffer, o: Index, l: Index, h: &Header| {
                let k = r.calls;
                r.note_sym(&term, &cb, init_tid, b, o, l, h);
                action(&acts, k)
            },
            bound,
            limit,
        ) as i64,
        _ => vok!(
            image.controlled_peek(
                term_begin + t.off[from] as i64,
                |b: &AtomicBuffer, o: Index, l: Index, h: &Header| {
                    let k = r.calls;
                    r.note_sym(&term, &cb, init_tid, b, o, l, h);
                    action(&acts, k)
                },
                bound,
            ),
            "C05: controlled_peek refused an aligned position between the subscriber position and the term end"
        ),
    };

    assert!(r.init_tid_ok, "C05: header carries the image's initial term id");
    assert!(r.calls == e.calls && r.same_buf, "C05: the handler is handed exactly the committed data frames between old and new position, from the active term buffer");
    let mut k = 0;
    while k < NF {
        if k < e.calls {
            let s = e.slot[k];
            assert!(r.off[k] == t.off[s] + 32 && r.len[k] == t.len[s] - 32, "C05: fragment delivered with the wrong data offset / length");
            assert!(r.toff[k] == t.off[s] && r.flen[k] == t.len[s] && r.tid[k] == t.tid[s] && r.sid[k] == t.sid[s] && r.flags[k] == t.flags[s] && r.rsv[k] == t.rsv[s],
                "C05: header term offset / frame length / term id / session id / flags / reserved value are those of the delivered frame");
            assert!(t.len[s] == 32 || r.b0[k] == t.b0[s], "C05: delivered payload is the frame's payload");
            assert!(r.ctr[k] == e.vis[k], "C05: position visible during a handler call is the last committed one (Commit publishes, Continue defers, peek never publishes)");
            assert!(!use_bound || term_begin + (r.off[k] as i64 - 32) < bound, "C05: fragment delivered that starts at or after the position bound");
        }
        k += 1;
    }
    let after = cb.get::<i64>(0);
    if peek {
        assert!(got == e.end_pos, "C05: controlled_peek returns the position after the last complete message it scanned");
        assert!(after == pos0 && image.position() == pos0, "C05: controlled_peek must not move the subscriber position");
    } else {
        assert!(got == e.counted as i64 && (got == 0 || got <= limit as i64), "C05: poll returns the number of fragments consumed, within the fragment limit");
        assert!(after == e.end_pos && image.position() == after, "C05: subscriber position moved by exactly the delivered frames plus skipped padding");
        assert!(after >= pos0 && after % 32 == 0, "C05: subscriber position moved backwards or off a frame boundary");
    }
    assert!(e.end_pos <= term_begin + t.off[t.n] as i64 && e.end_pos <= term_begin + ST as i64 && after <= term_begin + t.off[t.n] as i64,
        "C05: position moved past an uncommitted frame or the term end");
    let mut out = e.out;
    out.hi = t.n == maxf && e.out.pad && e.counted as usize == maxf - 1 && tc > (1 << 24) && start > 0;
    out.end = e.out.end && e.counted > 0;
    out.unc = e.out.unc && t.off[t.n] < ST;
    out.bound = e.out.bound && e.counted > 0;
    out.far = use_bound && bound < pos0 - (1i64 << 32) && t.n > 0 && pos0 > (1i64 << 33);
    out.abort = e.out.abort && e.counted > 0;
    out.commit = e.out.commit && e.out.cont;
    out.lag = e.out.lag && from > 0;
    std::mem::forget(image);
    out
}

// ------------------------------------------------------------------------------------------------ instances

macro_rules! must {
    ($o:ident, pad) => { kani::cover!($o.pad, "[must] padding skipped"); };
    ($o:ident, unc) => { kani::cover!($o.unc, "[must] stop at uncommitted frame"); };
    ($o:ident, lim) => { kani::cover!($o.lim, "[must] limit hit in front of a committed frame"); };
    ($o:ident, bound) => { kani::cover!($o.bound, "[must] bound inside the term hit in front of a committed frame"); };
    ($o:ident, all) => { kani::cover!($o.all, "[must] every frame of the table consumed"); };
    ($o:ident, end) => { kani::cover!($o.end, "[must] end of term reached exactly"); };
    ($o:ident, abort) => { kani::cover!($o.abort, "[must] Abort taken"); };
    ($o:ident, brk) => { kani::cover!($o.brk, "[must] Break taken"); };
    ($o:ident, commit) => { kani::cover!($o.commit, "[must] Commit taken"); };
    ($o:ident, cont) => { kani::cover!($o.cont, "[must] Continue taken"); };
    ($o:ident, lag) => { kani::cover!($o.lag, "[must] peek result lags behind a fragment without END flag"); };
    ($o:ident, hi) => { kani::cover!($o.hi, "[must] full table with padding in it, term count above 2^24, mid-term start"); };
    ($o:ident, far) => { kani::cover!($o.far, "[must] bound more than 2^32 behind the position"); };
    ($o:ident, unl) => { kani::cover!($o.unl, "[must] unlimited block length (i32::MAX) with a mid-term start delivers"); };
    ($o:ident, padlim) => { kani::cover!($o.padlim, "[must] leading padding handed over beyond the block length limit"); };
    ($o:ident, ran) => { kani::cover!(true, "[must] harness runs to its end"); };
}

/// One proof harness: the run function applied to each literal instance in turn.
macro_rules! instance {
    ($name:ident, $run:ident, [$($inst:expr),+] $(, $c:ident)*) => {
        #[kani::proof]
        fn $name() {
            let mut o = Out::none();
            $( o = o.or($run($inst)); )+
            $( must!(o, $c); )*
        }
    };
}

// Length words: n = committed, -n = claimed (in flight), 0 = untouched. Quick tier: layouts A-D with all frames committed
// and with the last frame of A in flight; the thorough tier adds the other commit states (gaps, first frame in flight,
// untouched tails), the last-slot layout E and the empty layout F.
// @verif tier=quick unwind=9 fs=4865
instance!(c05_poll, run_poll, [lay_a([32, 33, 49]), lay_a([32, 33, -49]), lay_b([49, 64, 64]), lay_c([64, 32, 0]), lay_d([96, 32, 128])], pad, unc, lim, all, end);
// C01's subscriber-side obligation (names c01_image_*): what an appender left committed in a term is handed to the handler
// once, in log order, and the position also passes a padding frame that is the only thing a poll finds (a reader that
// stays in front of the end-of-term padding never delivers the next term: seeded change C01-b). Same run function and
// reference as c05_poll, two literal layouts (term end reached exactly; last frame still in flight).
// @verif tier=quick unwind=9 fs=4865
instance!(c01_image_poll_hands_over_committed_frames_and_passes_padding, run_poll, [lay_b([49, 64, 64]), lay_a([32, 33, -49])], pad, unc, end);
// @verif tier=thorough unwind=9 fs=4865
instance!(c05_poll_more_states, run_poll, [lay_a([32, 0, 49]), lay_a([-32, 33, 49]), lay_a([32, -33, 0]), lay_b([49, 64, 0]), lay_b([49, -64, 64]), lay_c([64, -32, 0]), lay_d([96, 32, -128]), lay_e([32, 0, 0]), lay_e([0, 0, 0]), lay_f()], pad, unc, lim, all, end);

// @verif tier=quick unwind=9 fs=4865
instance!(c05_bounded_poll, run_bounded, [lay_a([32, 33, 49]), lay_a([32, 33, -49]), lay_b([49, 64, 64]), lay_c([64, 32, 0]), lay_d([96, 32, 128])], pad, unc, lim, all, end, bound);
// @verif tier=thorough unwind=9 fs=4865
instance!(c05_bounded_poll_more_states, run_bounded, [lay_a([32, 0, 49]), lay_a([-32, 33, 49]), lay_b([49, 64, 0]), lay_b([49, -64, 64]), lay_c([64, -32, 0]), lay_d([96, 32, -128]), lay_e([32, 0, 0]), lay_f()], pad, unc, lim, all, end, bound);

// @verif tier=quick unwind=9 fs=4865
instance!(c05_controlled_poll, run_controlled, [lay_a([32, 33, 49]), lay_a([32, 33, -49]), lay_b([49, 64, 64]), lay_c([64, 32, 0]), lay_d([96, 32, 128])], pad, unc, lim, all, end, abort, brk, commit, cont);
// @verif tier=thorough unwind=9 fs=4865
instance!(c05_controlled_poll_more_states, run_controlled, [lay_a([32, 0, 49]), lay_a([-32, 33, 49]), lay_b([49, 64, 0]), lay_b([49, -64, 64]), lay_c([64, -32, 0]), lay_d([96, 32, -128]), lay_e([32, 0, 0]), lay_f()], pad, unc, lim, all, end, abort, brk, commit, cont);
// @verif tier=quick unwind=9 fs=4865
instance!(c05_controlled_poll_abort_redelivers, run_controlled_redelivery, [lay_a([32, 33, 49])], abort);

// @verif tier=quick unwind=9 fs=4865
instance!(c05_bounded_controlled_poll, run_bounded_controlled, [lay_a([32, 33, 49]), lay_a([32, 33, -49]), lay_b([49, 64, 64]), lay_c([64, 32, 0]), lay_d([96, 32, 128])], pad, unc, lim, all, end, bound, abort, brk, commit, cont);
// @verif tier=thorough unwind=9 fs=4865
instance!(c05_bounded_controlled_poll_more_states, run_bounded_controlled, [lay_a([32, 0, 49]), lay_a([-32, 33, 49]), lay_b([49, 64, 0]), lay_b([49, -64, 64]), lay_c([64, -32, 0]), lay_d([96, 32, -128]), lay_e([32, 0, 0]), lay_f()], pad, unc, lim, all, end, bound, abort, brk, commit, cont);

// controlled_peek: `.from(j)` = the peek starts at frame j while the subscriber position stays at the layout's start.
// @verif tier=quick unwind=9 fs=4865
instance!(c05_controlled_peek, run_peek, [lay_a([32, 33, 49]), lay_a([32, 33, -49]), lay_b([49, 64, 64]).from(1), lay_c([64, 32, 0]), lay_d([96, 32, 128]).from(2)], pad, unc, all, end, bound, abort, brk, commit, cont, lag);
// @verif tier=thorough unwind=9 fs=4865
instance!(c05_controlled_peek_more_states, run_peek, [lay_a([32, 0, 49]), lay_a([-32, 33, 49]), lay_a([32, 33, 49]).from(3), lay_b([49, 64, 0]), lay_b([49, -64, 64]).from(2), lay_b([49, 64, 64]).from(3), lay_c([64, -32, 0]), lay_d([96, 32, -128]), lay_e([32, 0, 0]), lay_f()], pad, unc, all, end, bound, abort, brk, commit, cont, lag);
// @verif tier=quick unwind=9 fs=4865
instance!(c05_controlled_peek_invalid_position, run_peek_invalid, [lay_b([49, 64, 64])], ran);

// @verif tier=quick unwind=9 fs=4865
instance!(c05_block_poll, run_block, [lay_a([32, 33, 49]), lay_a([32, 33, -49]), lay_b([49, 64, 64]), lay_c([64, 32, 0]), lay_d([96, 32, 128])], pad, unc, lim, all, end);
// @verif tier=thorough unwind=9 fs=4865
instance!(c05_block_poll_more_states, run_block, [lay_a([32, 0, 49]), lay_a([-32, 33, 49]), lay_b([49, 64, 0]), lay_b([49, -64, 64]), lay_c([64, -32, 0]), lay_d([96, 32, -128]), lay_e([32, 0, 0]), lay_e([0, 0, 0]), lay_f()], pad, unc, lim, all, end);

// @verif tier=quick unwind=9 fs=4865
instance!(c05_closed_image_is_inert, run_closed, [lay_a([32, 33, 49])], ran);

// C03 consumer side (names c05_havoc_*): garbage behind the committed frames.
// @verif tier=quick unwind=9 unwindset=havoc_term:258 fs=4865
instance!(c05_havoc_plain_variants, run_havoc_plain, [lay_a([32, 33, -49]), lay_b([49, 0, 0])], pad, unc);
// @verif tier=quick unwind=9 unwindset=havoc_term:258 fs=4865
instance!(c05_havoc_controlled_variants, run_havoc_controlled, [lay_a([32, 33, -49]), lay_b([49, 0, 0])], pad, unc, abort, brk, commit, cont);
// @verif tier=thorough unwind=9 unwindset=havoc_term:258 fs=4865
instance!(c05_havoc_plain_variants_more, run_havoc_plain, [lay_a([32, 33, 49]), lay_a([32, -33, 49]), lay_a([0, 33, 49]), lay_c([64, -32, 0]), lay_d([96, 32, -128])], pad, unc, all);
// @verif tier=thorough unwind=9 unwindset=havoc_term:258 fs=4865
instance!(c05_havoc_controlled_variants_more, run_havoc_controlled, [lay_a([32, 33, 49]), lay_a([32, -33, 49]), lay_a([0, 33, 49]), lay_c([64, -32, 0]), lay_d([96, 32, -128])], pad, unc, all, abort, brk, commit, cont);
// @verif tier=quick unwind=14 unwindset=havoc_term:258 fs=4865
instance!(c05_havoc_poll_access_trace, run_havoc_poll_trace, [lay_a([32, 33, -49]), lay_a([32, 0, 0])], unc);

// @verif tier=thorough twin=1 unwind=9 fs=4865
instance!(c05_twin_position_ignores_commit_state, run_twin, [lay_a([32, -33, 49])]);

// Regime R2 (symbolic layout), one harness per variant.
macro_rules! sym_instance {
    ($name:ident, $v:expr, $maxf:expr $(, $c:ident)*) => {
        #[kani::proof]
        fn $name() {
            let o = sym_run($v, $maxf);
            $( must!(o, $c); )*
        }
    };
}

// @verif tier=thorough unwind=5 unwindset=sym_run:9 timeout=3400 mem=26
sym_instance!(c05_sym_poll, Variant::Poll, 3, hi, end, unc, lim);
// @verif tier=thorough unwind=5 unwindset=sym_run:9 timeout=3400 mem=26
sym_instance!(c05_sym_bounded_poll, Variant::Bounded, 3, hi, end, unc, lim, bound, far);
// @verif tier=thorough unwind=5 unwindset=sym_run:9 timeout=3400 mem=26
sym_instance!(c05_sym_controlled_poll, Variant::Controlled, 3, hi, end, unc, lim, abort, brk, commit);
// @verif tier=thorough unwind=5 unwindset=sym_run:9 timeout=3400 mem=26
sym_instance!(c05_sym_bounded_controlled_poll, Variant::BoundedControlled, 3, hi, end, unc, lim, bound, far, abort, brk, commit);
// @verif tier=thorough unwind=5 unwindset=sym_run:9 timeout=3400 mem=26
sym_instance!(c05_sym_controlled_peek, Variant::Peek, 3, hi, end, unc, bound, far, abort, brk, commit, lag);
// @verif tier=thorough unwind=5 unwindset=sym_run:9 timeout=3400 mem=26
sym_instance!(c05_sym_block_poll, Variant::Block, 3, lim, padlim, unl, unc, end);
