//! C18 harnesses.
