//! C18 — vectored offer equals offering the concatenation (differential: twin logs, identical symbolic initial state).
use super::util::*;
use crate::concurrent::atomic_buffer::AtomicBuffer;
use crate::concurrent::logbuffer::exclusive_term_appender::ExclusiveTermAppender;
use crate::concurrent::logbuffer::header::HeaderWriter;
use crate::concurrent::logbuffer::term_appender::{default_reserved_value_supplier, TermAppender};
use crate::utils::errors::AeronError;

const T: usize = 256;

/// reserved-value supplier that depends on the frame BODY (as a checksum supplier would): it must see the payload
pub fn supplier(b: AtomicBuffer, off: i32, len: i32) -> i64 {
    let body = if len > 32 { b.get::<u8>(off + 32) as i64 } else { 0 };
    0x0102_0304_0506_0708 ^ ((off as i64) << 8) ^ len as i64 ^ (body << 40)
}

pub struct Twin {
    pub term_a: Mem<T>,
    pub term_b: Mem<T>,
    pub meta_a: Mem<32>,
    pub meta_b: Mem<32>,
    pub hdr: Mem<32>,
    pub term_id: i32,
    pub tail: i32,
}

impl Twin {
    /// identical twin logs: symbolic term contents, session/stream ids, term id; tail offset given
    pub fn new(tail: i32) -> Twin {
        let content: [u8; T] = kani::any();
        let mut hdr = Mem::<32>::zeroed();
        let (session, stream): (i32, i32) = (kani::any(), kani::any());
        let term_id: i32 = kani::any();
        let mut t = Twin { term_a: Mem(content), term_b: Mem(content), meta_a: Mem::zeroed(), meta_b: Mem::zeroed(), hdr, term_id, tail };
        t.hdr.buf().put::<i32>(12, session);
        t.hdr.buf().put::<i32>(16, stream);
        t.meta_a.buf().put::<i64>(0, pack_tail(term_id, tail));
        t.meta_b.buf().put::<i64>(0, pack_tail(term_id, tail));
        t
    }
    pub fn same_everywhere(&self) -> bool {
        let i: usize = kani::any();
        kani::assume(i < T);
        let j: usize = kani::any();
        kani::assume(j < 8);
        self.term_a.0[i] == self.term_b.0[i] && self.meta_a.0[j] == self.meta_b.0[j]
    }
}

fn res_eq(a: &Result<i32, AeronError>, b: &Result<i32, AeronError>) -> bool {
    match (a, b) {
        (Ok(x), Ok(y)) => x == y,
        (Err(_), Err(_)) => true,
        _ => false,
    }
}

/// `len` bytes of `src` as k views cut at the split points s1 <= s2 (concrete per instance; bytes symbolic)
fn views(src: &mut [u8; 96], len: i32, k: usize, s1: i32, s2: i32) -> Vec<AtomicBuffer> {
    assert!(0 <= s1 && s1 <= s2 && s2 <= len);
    let p = src.as_mut_ptr();
    let at = |o: i32, l: i32| AtomicBuffer::new(unsafe { p.add(o as usize) }, l);
    match k {
        1 => vec![at(0, len)],
        2 => vec![at(0, s1), at(s1, len - s1)],
        _ => vec![at(0, s1), at(s1, s2 - s1), at(s2, len - s2)],
    }
}

// Instances: (tail offset, message length, number of buffers, split points) are concrete - a copy whose destination
// offset and size are both symbolic costs 15 M SAT variables on a 256-byte term (measured) - everything else (term id,
// session/stream ids, payload bytes, prior term contents, reserved value) is symbolic.
macro_rules! unfrag_bulk {
    ($name:ident, $tail:expr, $len:expr, $k:expr, $s1:expr, $s2:expr) => {
        #[kani::proof]
        fn $name() {
            pretouch();
            let mut tw = Twin::new($tail);
            let mut src: [u8; 96] = kani::any();
            let len: i32 = $len;
            let hw = HeaderWriter::new(tw.hdr.buf());
            let a = TermAppender::new(tw.term_a.buf(), tw.meta_a.buf(), 0);
            let b = TermAppender::new(tw.term_b.buf(), tw.meta_b.buf(), 0);
            let whole = AtomicBuffer::new(src.as_mut_ptr(), 96);
            let ra = a.append_unfragmented_message(&hw, &whole, 0, len, supplier, tw.term_id);
            let bufs = views(&mut src, len, $k, $s1, $s2);
            let rb = b.append_unfragmented_message_bulk(&hw, bufs, len, supplier, tw.term_id);
            assert!(res_eq(&ra, &rb), "C18: vectored unfragmented append returns the same resulting offset as the contiguous append");
            assert!(tw.same_everywhere(), "C18: vectored unfragmented append leaves the same term bytes and raw tail as the contiguous append");
            kani::cover!(ra.is_ok(), "[must] append returns");
            std::mem::forget(ra);
            std::mem::forget(rb);
        }
    };
}
// @verif tier=quick unwind=5
unfrag_bulk!(c18_unfragmented_bulk_one_buffer, 0, 17, 1, 0, 0);
// @verif tier=quick unwind=5
unfrag_bulk!(c18_unfragmented_bulk_two_buffers, 64, 40, 2, 13, 13);
// @verif tier=quick unwind=5
unfrag_bulk!(c18_unfragmented_bulk_three_buffers_max, 128, 64, 3, 1, 33);
// @verif tier=quick unwind=5
unfrag_bulk!(c18_unfragmented_bulk_empty_message, 32, 0, 2, 0, 0);
// @verif tier=thorough unwind=5
unfrag_bulk!(c18_unfragmented_bulk_empty_first_buffer, 0, 32, 3, 0, 31);
// @verif tier=thorough unwind=5
unfrag_bulk!(c18_unfragmented_bulk_empty_last_buffer, 96, 33, 3, 32, 33);
// @verif tier=quick unwind=5
unfrag_bulk!(c18_unfragmented_bulk_fills_term_exactly, 160, 64, 2, 32, 32);
// @verif tier=thorough unwind=5
unfrag_bulk!(c18_unfragmented_bulk_trips_term_end, 192, 64, 2, 63, 63);

macro_rules! excl_unfrag_bulk {
    ($name:ident, $tail:expr, $len:expr, $k:expr, $s1:expr, $s2:expr) => {
        #[kani::proof]
        fn $name() {
            pretouch();
            let mut tw = Twin::new($tail);
            let mut src: [u8; 96] = kani::any();
            let len: i32 = $len;
            let hw = HeaderWriter::new(tw.hdr.buf());
            let mut a = ExclusiveTermAppender::new(tw.term_a.buf(), tw.meta_a.buf(), 0);
            let mut b = ExclusiveTermAppender::new(tw.term_b.buf(), tw.meta_b.buf(), 0);
            let whole = AtomicBuffer::new(src.as_mut_ptr(), 96);
            let ra = a.append_unfragmented_message(tw.term_id, $tail, &hw, whole, 0, len, supplier);
            let bufs = views(&mut src, len, $k, $s1, $s2);
            let rb = b.append_unfragmented_message_bulk(tw.term_id, $tail, &hw, bufs, len, supplier);
            assert!(ra == rb, "C18: exclusive vectored append returns the same resulting offset as the contiguous append");
            assert!(tw.same_everywhere(), "C18: exclusive vectored append leaves the same term bytes and raw tail as the contiguous append");
        }
    };
}
// @verif tier=quick unwind=5
excl_unfrag_bulk!(c18_exclusive_unfragmented_bulk_two_buffers, 32, 33, 2, 32, 32);
// @verif tier=thorough unwind=5
excl_unfrag_bulk!(c18_exclusive_unfragmented_bulk_three_buffers, 160, 64, 3, 7, 40);
// @verif tier=thorough unwind=5
excl_unfrag_bulk!(c18_exclusive_unfragmented_bulk_trips_term_end, 224, 1, 1, 0, 0);

macro_rules! frag_bulk {
    ($name:ident, $tail:expr, $len:expr, $k:expr, $s1:expr, $s2:expr) => {
        #[kani::proof]
        fn $name() {
            pretouch();
            let mut tw = Twin::new($tail);
            let mut src: [u8; 96] = kani::any();
            let len: i32 = $len;
            let hw = HeaderWriter::new(tw.hdr.buf());
            let a = TermAppender::new(tw.term_a.buf(), tw.meta_a.buf(), 0);
            let mut b = TermAppender::new(tw.term_b.buf(), tw.meta_b.buf(), 0);
            let whole = AtomicBuffer::new(src.as_mut_ptr(), 96);
            let ra = a.append_fragmented_message(&hw, &whole, 0, len, 32, supplier, tw.term_id);
            let bufs = views(&mut src, len, $k, $s1, $s2);
            let rb = b.append_fragmented_message_bulk(&hw, bufs, len, 32, supplier, tw.term_id);
            assert!(res_eq(&ra, &rb), "C18: vectored fragmented append returns the same resulting offset as the contiguous append");
            assert!(tw.same_everywhere(), "C18: vectored fragmented append leaves the same frames, flags, payload bytes and raw tail as the contiguous append");
            kani::cover!(ra.is_ok(), "[must] append returns");
            std::mem::forget(ra);
            std::mem::forget(rb);
        }
    };
}
// MTU payload 32 B per fragment: 33..=64 -> 2 fragments, 65..=96 -> 3 fragments
// @verif tier=quick unwind=6
frag_bulk!(c18_fragmented_bulk_two_fragments_split_inside_first, 0, 40, 2, 13, 13);
// @verif tier=quick unwind=6
frag_bulk!(c18_fragmented_bulk_three_fragments_three_buffers, 0, 96, 3, 31, 65);
// @verif tier=quick unwind=6
frag_bulk!(c18_fragmented_bulk_split_on_fragment_boundary, 64, 64, 2, 32, 32);
// @verif tier=thorough unwind=6
frag_bulk!(c18_fragmented_bulk_one_buffer_three_fragments, 32, 70, 1, 0, 0);
// @verif tier=thorough unwind=6
frag_bulk!(c18_fragmented_bulk_tiny_buffers, 0, 33, 3, 1, 2);
// @verif tier=thorough unwind=6
frag_bulk!(c18_fragmented_bulk_empty_middle_buffer, 0, 65, 3, 33, 33);
// @verif tier=thorough unwind=6
frag_bulk!(c18_fragmented_bulk_trips_term_end, 160, 65, 3, 5, 64);

// ---- Publication::offer_bulk vs Publication::offer_opt on twin logs (regime R1, see publog.rs) ----------------------
use super::publog::{PubLog, TL};

fn code(r: Result<u64, AeronError>) -> i64 {
    match r {
        Ok(p) => p as i64,
        Err(e) => {
            let c = match &e {
                AeronError::AdminAction => -1,
                AeronError::IllegalArgument(_) => -3,
                AeronError::IllegalState(_) => -4,
                _ => -2,
            };
            std::mem::forget(e);
            c
        }
    }
}

/// every byte of the active term and the raw tails / term count agree between the twin logs (concrete indices)
fn logs_agree(a: &mut PubLog, b: &mut PubLog, part: usize) -> bool {
    let mut ok = a.raw_tail_of(0) == b.raw_tail_of(0) && a.raw_tail_of(1) == b.raw_tail_of(1) && a.raw_tail_of(2) == b.raw_tail_of(2) && a.active_count() == b.active_count();
    let mut i = 0;
    while i < TL {
        ok &= a.term_byte(part, i) == b.term_byte(part, i);
        i += 1;
    }
    ok
}

macro_rules! offer_bulk_twin {
    ($name:ident, $count:expr, $tail:expr, $len:expr, $s1:expr, $s2:expr) => {
        #[kani::proof]
        fn $name() {
            let (mut la, mut lb) = (PubLog::new($count, $tail), PubLog::new($count, $tail));
            lb.session = la.session;
            lb.stream = la.stream;
            let (session, stream) = (la.session, la.stream);
            lb.meta().put::<i32>(crate::concurrent::logbuffer::log_buffer_descriptor::LOG_DEFAULT_FRAME_HEADER_OFFSET + 12, session);
            lb.meta().put::<i32>(crate::concurrent::logbuffer::log_buffer_descriptor::LOG_DEFAULT_FRAME_HEADER_OFFSET + 16, stream);
            let limit: i64 = kani::any();
            la.set_limit(limit);
            lb.set_limit(limit);
            la.set_connected(1);
            lb.set_connected(1);
            let pa = la.publication();
            let mut pb = lb.publication();
            let mut src: [u8; 96] = kani::any();
            let len: i32 = $len;
            let ra = code(pa.offer_opt(AtomicBuffer::new(src.as_mut_ptr(), 96), 0, len, default_reserved_value_supplier));
            let bufs = views(&mut src, len, 3, $s1, $s2);
            let rb = code(pb.offer_bulk(bufs, default_reserved_value_supplier));
            assert!(ra == rb, "C18: offer_bulk returns the same position / refusal as offering the concatenation");
            let part = la.partition();
            assert!(logs_agree(&mut la, &mut lb, part), "C18: offer_bulk leaves the same frames, payload bytes, flags, tails and term count as offering the concatenation");
            kani::cover!(ra > 0, "accepted path");
            kani::cover!(true, "[must] instance reaches the end");
            std::mem::forget(pa);
            std::mem::forget(pb);
        }
    };
}
// term 512 B => max message length 64, MTU payload 32
// @verif tier=quick unwind=5 unwindset=logs_agree:514 fs=6000 timeout=1500
offer_bulk_twin!(c18_offer_bulk_max_message_length, 0, 64, 64, 10, 40);
// @verif tier=quick unwind=5 unwindset=logs_agree:514 fs=6000 timeout=1500
offer_bulk_twin!(c18_offer_bulk_unfragmented, 1, 0, 17, 0, 9);
// @verif tier=thorough unwind=5 unwindset=logs_agree:514 fs=6000 timeout=1500
offer_bulk_twin!(c18_offer_bulk_over_max_message_length, 0, 0, 65, 32, 64);
// @verif tier=thorough unwind=5 unwindset=logs_agree:514 fs=6000 timeout=1500
offer_bulk_twin!(c18_offer_bulk_max_payload_boundary, 2, 96, 32, 1, 31);
// @verif tier=thorough unwind=5 unwindset=logs_agree:514 fs=6000 timeout=1500
offer_bulk_twin!(c18_offer_bulk_trips_term_end, 0, 448, 40, 13, 13);
