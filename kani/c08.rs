//! C08 — driver-event broadcast: events arrive in order and intact; any loss is reported.
//! Real code: BroadcastTransmitter::transmit, BroadcastReceiver::{new,receive_next,validate,..},
//! CopyBroadcastReceiver::receive. Buffers: capacity 64 (or 128) data bytes + 128-byte trailer in a `Mem`.
//! Oracle: the record layout of the Aeron broadcast protocol written out here with i64 arithmetic (offset = counter
//! mod capacity, padding record when the aligned record does not fit before the end, 64-bit lap test
//! `cursor + capacity > tail_intent`), never the implementation's helpers.
//! Two regimes: harnesses on BroadcastReceiver alone keep tail / lengths symbolic (default field sensitivity);
//! harnesses through CopyBroadcastReceiver (and the quick in-order ones) use literal layouts with symbolic types and
//! bytes (`fs=257` + layout pinning, see below) and a trimmed scratch allocation (`small_alloc`).
//! `unwindset=receive_next:3`: the repaired receive_next re-reads the header when it was lapped while reading; with at
//! most one interference that loop runs twice (unwinding assertions are on).
use super::hook;
use super::util::*;
use crate::command::control_protocol_events::AeronCommand;
use crate::concurrent::atomic_buffer::AtomicBuffer;
use crate::concurrent::broadcast::broadcast_receiver::BroadcastReceiver;
use crate::concurrent::broadcast::broadcast_transmitter::BroadcastTransmitter;
use crate::concurrent::broadcast::copy_broadcast_receiver::CopyBroadcastReceiver;
use crate::concurrent::broadcast::BroadcastTransmitError;
use crate::utils::types::Index;
use std::sync::{Arc, Mutex};

const TRAILER: usize = 128;
const INTENT: usize = 0; // trailer offsets of the protocol: tail-intent, tail, latest
const TAIL: usize = 8;
const LATEST: usize = 16;

fn put_i64(m: &mut [u8], at: usize, v: i64) {
    let b = v.to_le_bytes();
    let mut i = 0;
    while i < 8 {
        m[at + i] = b[i];
        i += 1;
    }
}

fn get_i64(m: &[u8], at: usize) -> i64 {
    i64::from_le_bytes([m[at], m[at + 1], m[at + 2], m[at + 3], m[at + 4], m[at + 5], m[at + 6], m[at + 7]])
}

fn get_i32(m: &[u8], at: usize) -> i32 {
    i32::from_le_bytes([m[at], m[at + 1], m[at + 2], m[at + 3]])
}

/// An idle broadcast buffer whose three counters stand at `t` (nothing in flight, nothing unread).
fn set_counters(m: &mut [u8], cap: usize, t: i64) {
    put_i64(m, cap + INTENT, t);
    put_i64(m, cap + TAIL, t);
    put_i64(m, cap + LATEST, t);
}

fn align8(v: i64) -> i64 {
    (v + 7) & !7
}

/// Any event type the transmitter accepts.
fn any_type() -> i32 {
    let t: i32 = kani::any();
    kani::assume(t > 0);
    t
}

// ------------------------------------------------------------------------------------------------------------------
// 4. lap test at full counter width
// ------------------------------------------------------------------------------------------------------------------

/// validate() == (cursor + capacity > tail_intent) in 64-bit arithmetic for any counter values below 2^62, without
/// panic. The cursor is whatever `latest` counter a joining receiver finds.
macro_rules! lap_test {
    ($name:ident, $cap:expr) => {
        #[kani::proof]
        fn $name() {
            const CAP: usize = $cap;
            let mut m = Mem::<{ CAP + TRAILER }>::zeroed();
            let cursor: i64 = kani::any();
            let intent: i64 = kani::any();
            kani::assume(cursor >= 0 && cursor < (1i64 << 62) && intent >= 0 && intent < (1i64 << 62));
            put_i64(&mut m.0, CAP + LATEST, cursor);
            put_i64(&mut m.0, CAP + INTENT, intent);
            let rx = vok!(BroadcastReceiver::new(m.buf()), "C08: receiver accepts a power-of-two capacity");
            let got = rx.validate();
            assert!(got == (cursor + CAP as i64 > intent), "C08: lap test must equal cursor + capacity > tail_intent in 64 bits");
            kani::cover!(cursor >= (1i64 << 31) && got, "[must] counters beyond 2^31, not lapped");
            kani::cover!(cursor >= (1i64 << 31) && !got, "[must] counters beyond 2^31, lapped");
        }
    };
}
// @verif tier=quick
lap_test!(c08_validate_matches_64bit_lap_test_cap8, 8);
// @verif tier=quick
lap_test!(c08_validate_matches_64bit_lap_test_cap64, 64);
// @verif tier=quick
lap_test!(c08_validate_matches_64bit_lap_test_cap1024, 1024);

/// Vacuity witness: the lap test does NOT equal the comparison of the counters truncated to 32 bits (the formula the
/// code used before the repair); this harness must fail.
// @verif tier=quick twin=1
#[kani::proof]
fn c08_twin_lap_test_is_not_the_32bit_comparison() {
    let mut m = Mem::<{ 64 + TRAILER }>::zeroed();
    let cursor: i64 = kani::any();
    let intent: i64 = kani::any();
    kani::assume(cursor >= 0 && cursor < (1i64 << 62) && intent >= 0 && intent < (1i64 << 62));
    put_i64(&mut m.0, 64 + LATEST, cursor);
    put_i64(&mut m.0, 64 + INTENT, intent);
    let rx = vok!(BroadcastReceiver::new(m.buf()), "C08: receiver accepts a power-of-two capacity");
    assert!(rx.validate() == ((cursor as i32).wrapping_add(64) > intent as i32), "C08: TWIN lap test equals the truncated 32-bit comparison");
}

// ------------------------------------------------------------------------------------------------------------------
// 1. one transmit from any aligned tail below 2^40, receiver constructed before it
// ------------------------------------------------------------------------------------------------------------------

macro_rules! single_transmit {
    ($name:ident, $cap:expr) => {
        #[kani::proof]
        fn $name() {
            const CAP: usize = $cap;
            const MAXLEN: usize = CAP / 8;
            let mut m = Mem::<{ CAP + TRAILER }>::any();
            let t: i64 = kani::any();
            kani::assume(t >= 0 && t < (1i64 << 40) && t % 8 == 0);
            set_counters(&mut m.0, CAP, t);
            let mut src = Mem::<MAXLEN>::any();
            let ty = any_type();
            let len: usize = kani::any();
            kani::assume(len <= MAXLEN);
            let mut tx = vok!(BroadcastTransmitter::new(m.buf()), "C08: transmitter accepts the capacity");
            let mut rx = vok!(BroadcastReceiver::new(m.buf()), "C08: receiver accepts the capacity");
            assert!(!rx.receive_next(), "C08: nothing to receive before the transmit");
            vok!(tx.transmit(ty, &src.buf(), 0, len as Index), "C08: legal event refused by transmit");

            // protocol oracle
            let aligned = align8(len as i64 + 8);
            let off = t % CAP as i64;
            let wrapped = CAP as i64 - off < aligned;
            let start = if wrapped { t + (CAP as i64 - off) } else { t };
            let roff = (start % CAP as i64) as usize;
            assert!(get_i64(&m.0, CAP + TAIL) == start + aligned, "C08: tail counter advances by padding + aligned record");
            assert!(get_i64(&m.0, CAP + LATEST) == start, "C08: latest counter names the start of the new record");
            assert!(get_i64(&m.0, CAP + INTENT) == start + aligned, "C08: tail intent equals the final tail");

            assert!(rx.receive_next(), "C08: transmitted event not received");
            assert!(rx.type_id() == ty, "C08: received type differs from the transmitted type");
            assert!(rx.length() == len as i32, "C08: received length differs from the transmitted length");
            assert!(rx.offset() as usize == roff + 8, "C08: received message offset is not the record just written");
            let j: usize = kani::any();
            kani::assume(j < MAXLEN);
            assert!(j >= len || m.0[roff + 8 + j] == src.0[j], "C08: received bytes differ from the transmitted bytes");
            assert!(rx.validate(), "C08: loss reported although the backlog is below the capacity");
            assert!(rx.lapped_count() == 0, "C08: lapped count changed although the receiver kept up");
            assert!(!rx.receive_next(), "C08: an event was received that was never transmitted");
            kani::cover!(wrapped, "[must] wrap path taken (padding record skipped)");
            kani::cover!(!wrapped && t >= (1i64 << 31), "[must] counter beyond 2^31 bytes");
            kani::cover!(len == 0, "[must] empty event");
            kani::cover!(len == MAXLEN, "[must] maximal event");
        }
    };
}
// @verif tier=quick unwindset=receive_next:3
single_transmit!(c08_single_transmit_any_tail_cap64, 64);
// @verif tier=thorough unwindset=receive_next:3
single_transmit!(c08_single_transmit_any_tail_cap128, 128);

// ------------------------------------------------------------------------------------------------------------------
// 2. three transmits, received in order (the receiver joins after the first one and starts at `latest`)
// ------------------------------------------------------------------------------------------------------------------

/// what the protocol says the position of a record transmitted at tail `t` is: (record start, new tail)
fn place(t: i64, cap: i64, len: i64) -> (i64, i64) {
    let aligned = align8(len + 8);
    let off = t % cap;
    let start = if cap - off < aligned { t + (cap - off) } else { t };
    (start, start + aligned)
}

macro_rules! in_order {
    ($name:ident, $t:expr) => {
        #[kani::proof]
        fn $name() {
            const CAP: usize = 64;
            const T: i64 = $t;
            let mut m = Mem::<{ CAP + TRAILER }>::any();
            set_counters(&mut m.0, CAP, T);
            let mut src = [Mem::<8>::any(), Mem::<8>::any(), Mem::<8>::any()];
            let ty = [any_type(), any_type(), any_type()];
            let len: [usize; 3] = kani::any();
            kani::assume(len[0] <= 8 && len[1] <= 8 && len[2] <= 8);
            let mut tx = vok!(BroadcastTransmitter::new(m.buf()), "C08: transmitter accepts the capacity");
            vok!(tx.transmit(ty[0], &src[0].buf(), 0, len[0] as Index), "C08: legal event refused by transmit");
            let mut rx = vok!(BroadcastReceiver::new(m.buf()), "C08: receiver accepts the capacity");
            vok!(tx.transmit(ty[1], &src[1].buf(), 0, len[1] as Index), "C08: legal event refused by transmit");
            vok!(tx.transmit(ty[2], &src[2].buf(), 0, len[2] as Index), "C08: legal event refused by transmit");
            let (s0, e0) = place(T, CAP as i64, len[0] as i64);
            let (s1, e1) = place(e0, CAP as i64, len[1] as i64);
            let (s2, e2) = place(e1, CAP as i64, len[2] as i64);
            assert!(get_i64(&m.0, CAP + TAIL) == e2 && get_i64(&m.0, CAP + LATEST) == s2, "C08: counters after three transmits");
            assert!(e2 - s0 < CAP as i64, "C08: harness: backlog stays below the capacity");
            let starts = [s0, s1, s2];
            let j: usize = kani::any();
            kani::assume(j < 8);
            let mut i = 0;
            while i < 3 {
                assert!(rx.receive_next(), "C08: transmitted event not received although the backlog is below capacity");
                let roff = (starts[i] % CAP as i64) as usize;
                assert!(rx.type_id() == ty[i], "C08: events out of order or type altered");
                assert!(rx.length() == len[i] as i32, "C08: events out of order or length altered");
                assert!(rx.offset() as usize == roff + 8, "C08: received message is not the i-th transmitted record");
                if j < len[i] {
                    assert!(m.0[roff + 8 + j] == src[i].0[j], "C08: received bytes differ from the transmitted bytes");
                }
                assert!(rx.validate(), "C08: loss reported although the backlog is below the capacity");
                i += 1;
            }
            assert!(!rx.receive_next(), "C08: an event was received that was never transmitted");
            assert!(rx.lapped_count() == 0, "C08: lapped count changed although the receiver kept up");
            kani::cover!(T % 64 == 0 || s1 != e0 || s2 != e1, "[must] wrap path taken between the events (tails not at offset 0)");
            kani::cover!(s1 == e0 && s2 == e1 && len[0] == 0 && len[2] == 8, "[must] contiguous path taken, empty and maximal event");
        }
    };
}
// @verif tier=thorough unwindset=receive_next:3
in_order!(c08_three_in_order_tail_0, 0);
// @verif tier=thorough unwindset=receive_next:3
in_order!(c08_three_in_order_tail_near_wrap, 40);
// @verif tier=thorough unwindset=receive_next:3
in_order!(c08_three_in_order_tail_2p31_minus_64, (1i64 << 31) - 64);
// @verif tier=thorough unwindset=receive_next:3
in_order!(c08_three_in_order_tail_crossing_2p31, (1i64 << 31) - 24);
// @verif tier=thorough unwindset=receive_next:3
in_order!(c08_three_in_order_tail_2p32, 1i64 << 32);
// @verif tier=thorough unwindset=receive_next:3
in_order!(c08_three_in_order_tail_crossing_2p32, (1i64 << 32) - 24);
// @verif tier=thorough unwindset=receive_next:3
in_order!(c08_three_in_order_tail_2p40, (1i64 << 40) + 40);

// ------------------------------------------------------------------------------------------------------------------
// Layout pinning (regime R1). With `fs=257` CBMC tracks every byte of the 192-byte buffer separately and folds
// constants, so record offsets and lengths read back by the code under test are literals - as long as the layout is
// literal. `put::<i32>(type_offset, <symbolic type>)` inside transmit defeats the folding for the whole array, so
// after every transmit the harness (1) ASSERTS that the layout words (record length, padding header, the three
// counters) equal the protocol oracle and (2) stores those very values again byte by byte. (2) is a no-op whenever
// (1) holds, and (1) is checked by the solver, so nothing is assumed; event types and payload bytes stay symbolic.
// ------------------------------------------------------------------------------------------------------------------

fn pin_i32(m: &mut [u8], at: usize, v: i32) {
    assert!(get_i32(m, at) == v, "C08: record length / padding header differs from the protocol layout");
    let b = v.to_le_bytes();
    m[at] = b[0];
    m[at + 1] = b[1];
    m[at + 2] = b[2];
    m[at + 3] = b[3];
}

fn pin_i64(m: &mut [u8], at: usize, v: i64) {
    assert!(get_i64(m, at) == v, "C08: broadcast counter differs from the protocol value");
    put_i64(m, at, v);
}

/// Oracle for the state after transmitting events of lengths lens[..n] from the idle state at `t0`: pins the header
/// words of every record/padding not yet overwritten and the three counters. Returns (start of the last record,
/// final tail).
fn pin_layout(m: &mut [u8], cap: usize, t0: i64, lens: &[usize], n: usize) -> (i64, i64) {
    let c = cap as i64;
    let mut end = t0;
    let mut i = 0;
    while i < n {
        end = place(end, c, lens[i] as i64).1;
        i += 1;
    }
    let mut t = t0;
    let mut latest = t0;
    let mut i = 0;
    while i < n {
        let (s, e) = place(t, c, lens[i] as i64);
        if s != t && t >= end - c {
            pin_i32(m, (t % c) as usize, (s - t) as i32);
            pin_i32(m, (t % c) as usize + 4, -1);
        }
        if s >= end - c {
            pin_i32(m, (s % c) as usize, lens[i] as i32 + 8);
        }
        latest = s;
        t = e;
        i += 1;
    }
    pin_i64(m, cap + INTENT, end);
    pin_i64(m, cap + TAIL, end);
    pin_i64(m, cap + LATEST, latest);
    (latest, end)
}

/// start of the i-th record (0-based) of that history
fn start_of(cap: usize, t0: i64, lens: &[usize], i: usize) -> i64 {
    let mut t = t0;
    let mut k = 0;
    while k < i {
        t = place(t, cap as i64, lens[k] as i64).1;
        k += 1;
    }
    place(t, cap as i64, lens[i] as i64).0
}

// ------------------------------------------------------------------------------------------------------------------
// 2b. literal layouts (quick): three transmits of given lengths, received in order
// ------------------------------------------------------------------------------------------------------------------

macro_rules! in_order_fixed {
    ($name:ident, $t:expr, $lens:expr) => {
        #[kani::proof]
        fn $name() {
            const CAP: usize = 64;
            const T: i64 = $t;
            const LENS: [usize; 3] = $lens;
            let mut m = Mem::<{ CAP + TRAILER }>::any();
            set_counters(&mut m.0, CAP, T);
            let mut src = [Mem::<8>::any(), Mem::<8>::any(), Mem::<8>::any()];
            let ty = [any_type(), any_type(), any_type()];
            let mut tx = vok!(BroadcastTransmitter::new(m.buf()), "C08: transmitter accepts the capacity");
            vok!(tx.transmit(ty[0], &src[0].buf(), 0, LENS[0] as Index), "C08: legal event refused by transmit");
            pin_layout(&mut m.0, CAP, T, &LENS, 1);
            let mut rx = vok!(BroadcastReceiver::new(m.buf()), "C08: receiver accepts the capacity");
            vok!(tx.transmit(ty[1], &src[1].buf(), 0, LENS[1] as Index), "C08: legal event refused by transmit");
            pin_layout(&mut m.0, CAP, T, &LENS, 2);
            vok!(tx.transmit(ty[2], &src[2].buf(), 0, LENS[2] as Index), "C08: legal event refused by transmit");
            let (_, end) = pin_layout(&mut m.0, CAP, T, &LENS, 3);
            assert!(end - start_of(CAP, T, &LENS, 0) < CAP as i64, "C08: harness: backlog stays below the capacity");
            let j: usize = kani::any();
            kani::assume(j < 8);
            let mut i = 0;
            while i < 3 {
                assert!(rx.receive_next(), "C08: transmitted event not received although the backlog is below capacity");
                let roff = (start_of(CAP, T, &LENS, i) % CAP as i64) as usize;
                assert!(rx.type_id() == ty[i], "C08: events out of order or type altered");
                assert!(rx.length() == LENS[i] as i32, "C08: events out of order or length altered");
                assert!(rx.offset() as usize == roff + 8, "C08: received message is not the i-th transmitted record");
                assert!(j >= LENS[i] || m.0[roff + 8 + j] == src[i].0[j], "C08: received bytes differ from the transmitted bytes");
                assert!(rx.validate(), "C08: loss reported although the backlog is below the capacity");
                i += 1;
            }
            assert!(!rx.receive_next(), "C08: an event was received that was never transmitted");
            assert!(rx.lapped_count() == 0, "C08: lapped count changed although the receiver kept up");
            let wrapped = start_of(CAP, T, &LENS, 2) / CAP as i64 != T / CAP as i64;
            kani::cover!(wrapped || T % 64 == 0, "[must] wrap path taken between the events (tails not at offset 0)");
        }
    };
}
// @verif tier=quick unwindset=receive_next:3 fs=257
in_order_fixed!(c08_in_order_fixed_tail_0, 0, [8, 0, 5]);
// @verif tier=quick unwindset=receive_next:3 fs=257
in_order_fixed!(c08_in_order_fixed_padding_wrap, 40, [8, 8, 1]);
// @verif tier=quick unwindset=receive_next:3 fs=257
in_order_fixed!(c08_in_order_fixed_exact_wrap, 40, [0, 8, 8]);
// @verif tier=quick unwindset=receive_next:3 fs=257
in_order_fixed!(c08_in_order_fixed_2p31_minus_64, (1i64 << 31) - 64, [8, 3, 0]);
// @verif tier=quick unwindset=receive_next:3 fs=257
in_order_fixed!(c08_in_order_fixed_crossing_2p31, (1i64 << 31) - 24, [8, 8, 8]);
// @verif tier=quick unwindset=receive_next:3 fs=257
in_order_fixed!(c08_in_order_fixed_crossing_2p32, (1i64 << 32) - 24, [2, 8, 8]);
// @verif tier=quick unwindset=receive_next:3 fs=257
in_order_fixed!(c08_in_order_fixed_2p40, (1i64 << 40) + 40, [8, 8, 7]);

// ------------------------------------------------------------------------------------------------------------------
// 3. overrun of a copying receiver (sequential)
// ------------------------------------------------------------------------------------------------------------------

/// The 4096-byte scratch allocation of CopyBroadcastReceiver is trimmed to 256 bytes of real memory (its nominal
/// capacity stays 4096). The broadcast buffers here are 192 bytes, so no copy that passes the source bounds check can
/// be longer; CBMC's pointer checks flag any access beyond the 256 bytes, so behaviour is unchanged.
pub fn small_alloc(size: Index) -> *mut u8 {
    let n = if size > 256 { 256 } else { size as usize };
    unsafe { std::alloc::alloc_zeroed(std::alloc::Layout::from_size_align_unchecked(n, 64)) }
}

/// Any event type a CopyBroadcastReceiver can hand to its handler (ids defined by the control protocol).
fn any_protocol_type() -> i32 {
    let t: i32 = kani::any();
    kani::assume((t >= 0x01 && t <= 0x0E) || (t >= 0xF01 && t <= 0xF0A));
    t
}

struct Seen {
    calls: u32,
    ty: i32,
    len: i32,
    byte: u8,
}

/// one CopyBroadcastReceiver::receive; the handler records type, length and the byte at index `probe`
fn copy_receive(copy: &mut CopyBroadcastReceiver, probe: usize, seen: &mut Seen) -> Result<usize, BroadcastTransmitError> {
    copy.receive(|msg, buf, off, len| {
        seen.calls += 1;
        seen.ty = msg as i32;
        seen.len = len;
        if (probe as i32) < len {
            seen.byte = buf.get::<u8>(off + probe as i32);
        }
    })
}

fn is_unable_to_keep_up(e: BroadcastTransmitError) -> bool {
    let r = matches!(e, BroadcastTransmitError::UnableToKeepUpWithBroadcastBuffer);
    std::mem::forget(e);
    r
}

/// The receiver stands idle at T; five events of the given lengths are transmitted; it receives; a sixth event is
/// transmitted; it receives again. Whether the five lap it is decided by the 64-bit protocol rule.
macro_rules! overrun {
    ($name:ident, $t:expr, $lens:expr) => {
        #[kani::proof]
        #[kani::stub(crate::utils::misc::alloc_buffer_aligned, small_alloc)]
        fn $name() {
            const CAP: usize = 64;
            const T: i64 = $t;
            const LENS: [usize; 6] = $lens;
            let mut m = Mem::<{ CAP + TRAILER }>::any();
            set_counters(&mut m.0, CAP, T);
            let mut src = [Mem::<8>::any(), Mem::<8>::any(), Mem::<8>::any(), Mem::<8>::any(), Mem::<8>::any(), Mem::<8>::any()];
            let ty = [any_protocol_type(), any_protocol_type(), any_protocol_type(), any_protocol_type(), any_protocol_type(), any_protocol_type()];
            let mut tx = vok!(BroadcastTransmitter::new(m.buf()), "C08: transmitter accepts the capacity");
            let rx = Arc::new(Mutex::new(vok!(BroadcastReceiver::new(m.buf()), "C08: receiver accepts the capacity")));
            let mut copy = CopyBroadcastReceiver::new(rx.clone());
            let mut tail = T;
            let mut i = 0;
            while i < 5 {
                vok!(tx.transmit(ty[i], &src[i].buf(), 0, LENS[i] as Index), "C08: legal event refused by transmit");
                tail = pin_layout(&mut m.0, CAP, T, &LENS, i + 1).1;
                i += 1;
            }
            let lapped = T + CAP as i64 <= tail; // the receiver stands at T: backlog >= capacity
            let probe: usize = kani::any();
            kani::assume(probe < 8);
            let mut seen = Seen { calls: 0, ty: 0, len: 0, byte: 0 };
            let r = copy_receive(&mut copy, probe, &mut seen);
            let lc = match rx.lock() {
                Ok(g) => g.lapped_count(),
                Err(_) => 99,
            };
            if lapped {
                match r {
                    Ok(_) => assert!(false, "C08: overrun receiver did not report that it could not keep up"),
                    Err(e) => assert!(is_unable_to_keep_up(e), "C08: overrun reported as a different error"),
                }
                assert!(seen.calls == 0, "C08: a newer message was delivered before the loss was reported");
                assert!(lc == 1, "C08: lapped count must increase on overrun");
                // everything up to the tail is covered by the report; the receiver resumes with the next event
                match copy_receive(&mut copy, probe, &mut seen) {
                    Ok(n) => assert!(n == 0 && seen.calls == 0, "C08: delivery after the loss report without a new event"),
                    Err(e) => {
                        std::mem::forget(e);
                        assert!(false, "C08: second loss report without further traffic");
                    }
                }
                vok!(tx.transmit(ty[5], &src[5].buf(), 0, LENS[5] as Index), "C08: legal event refused by transmit");
                pin_layout(&mut m.0, CAP, T, &LENS, 6);
                match copy_receive(&mut copy, probe, &mut seen) {
                    Ok(n) => {
                        assert!(n == 1 && seen.calls == 1, "C08: receiver does not resume after an overrun");
                        assert!(seen.ty == ty[5] && seen.len == LENS[5] as i32, "C08: resumed at something that is not a transmitted event");
                        assert!(probe >= LENS[5] || seen.byte == src[5].0[probe], "C08: resumed event has altered bytes");
                    }
                    Err(e) => {
                        std::mem::forget(e);
                        assert!(false, "C08: receiver does not resume after an overrun");
                    }
                }
            } else {
                match r {
                    Ok(n) => assert!(n == 1 && seen.calls == 1, "C08: event not delivered although the backlog is below the capacity"),
                    Err(e) => {
                        std::mem::forget(e);
                        assert!(false, "C08: error although the backlog is below the capacity");
                    }
                }
                assert!(seen.ty == ty[0] && seen.len == LENS[0] as i32, "C08: first event delivered with altered type or length");
                assert!(probe >= LENS[0] || seen.byte == src[0].0[probe], "C08: first event delivered with altered bytes");
                assert!(lc == 0, "C08: lapped count changed although the receiver kept up");
            }
            kani::cover!(seen.calls == 1, "[must] an event is delivered (first one, or the one after the loss report)");
            std::mem::forget(copy);
        }
    };
}
// @verif tier=quick unwindset=lock_contended:2,receive_next:3 fs=257
overrun!(c08_overrun_lapped_tail_0, 0, [8, 8, 8, 8, 8, 5]);
// @verif tier=quick unwindset=lock_contended:2,receive_next:3 fs=257
overrun!(c08_overrun_backlog_equals_capacity, 0, [8, 8, 8, 0, 0, 8]);
// @verif tier=quick unwindset=lock_contended:2,receive_next:3 fs=257
overrun!(c08_overrun_not_lapped_backlog_56, 0, [8, 8, 0, 0, 0, 8]);
// @verif tier=thorough unwindset=lock_contended:2,receive_next:3 fs=257
overrun!(c08_overrun_lapped_with_padding, 40, [8, 8, 8, 8, 8, 3]);
// @verif tier=quick unwindset=lock_contended:2,receive_next:3 fs=257
overrun!(c08_overrun_lapped_crossing_2p31, (1i64 << 31) - 64, [8, 8, 8, 8, 8, 8]);
// @verif tier=thorough unwindset=lock_contended:2,receive_next:3 fs=257
overrun!(c08_overrun_not_lapped_crossing_2p31, (1i64 << 31) - 24, [8, 0, 0, 8, 0, 8]);
// @verif tier=thorough unwindset=lock_contended:2,receive_next:3 fs=257
overrun!(c08_overrun_lapped_crossing_2p32, (1i64 << 32) - 64, [8, 8, 8, 8, 8, 8]);
// @verif tier=thorough unwindset=lock_contended:2,receive_next:3 fs=257
overrun!(c08_overrun_lapped_tail_2p40, (1i64 << 40) + 8, [8, 1, 8, 8, 8, 8]);

// ------------------------------------------------------------------------------------------------------------------
// 5. one transmitter against one copying receiver at shared-memory-access granularity (access hook)
// ------------------------------------------------------------------------------------------------------------------

/// What the env function (a plain `fn()`, no captures) works on. Kani merges all-zero `static mut`s with same-content
/// constant allocations (see HARNESS_GUIDE), so every static has a distinctive non-zero initialiser. The buffers stay
/// top-level arrays (inside a struct CBMC no longer folds their bytes and the harness runs out of memory).
static mut SHARED: Mem<192> = Mem([0xC8u8; 192]); // the broadcast buffer (capacity 64 + trailer)
static mut ENV_SRC0: Mem<8> = Mem([0xC9u8; 8]); // payloads of the injected events
static mut ENV_SRC1: Mem<8> = Mem([0xCAu8; 8]);

struct Env {
    magic: u64,
    ty: [i32; 2],     // types of the injected events
    t0: i64,          // tail the history started from
    lens: [usize; 5], // lengths of the pending events followed by those of the injected ones
    pre: usize,       // number of pending events
    n: usize,         // number of injected events
    ran: bool,
}

static mut ENV: Env = Env { magic: 0x4330_385f_656e_7601, ty: [0; 2], t0: 0, lens: [0; 5], pre: 0, n: 0, ran: false };

fn env() -> &'static mut Env {
    unsafe { &mut *std::ptr::addr_of_mut!(ENV) }
}

fn shared() -> &'static mut Mem<192> {
    unsafe { &mut *std::ptr::addr_of_mut!(SHARED) }
}

fn env_src(i: usize) -> &'static mut Mem<8> {
    unsafe {
        if i == 0 {
            &mut *std::ptr::addr_of_mut!(ENV_SRC0)
        } else {
            &mut *std::ptr::addr_of_mut!(ENV_SRC1)
        }
    }
}

/// The other party: `n` complete transmits on the shared buffer (layout pinned after each, see above).
fn env_transmit() {
    let e = env();
    e.ran = true;
    let lens = e.lens;
    let mut tx = vok!(BroadcastTransmitter::new(shared().buf()), "C08: transmitter accepts the capacity");
    if e.n >= 1 {
        vok!(tx.transmit(e.ty[0], &env_src(0).buf(), 0, lens[e.pre] as Index), "C08: legal event refused by transmit");
        pin_layout(&mut shared().0, 64, e.t0, &lens, e.pre + 1);
    }
    if e.n >= 2 {
        vok!(tx.transmit(e.ty[1], &env_src(1).buf(), 0, lens[e.pre + 1] as Index), "C08: legal event refused by transmit");
        pin_layout(&mut shared().0, 64, e.t0, &lens, e.pre + 2);
    }
}

/// (a) PRE events are pending for a copying receiver; while it executes `receive`, N complete transmits of the driver
/// run just before its j-th shared-memory access (j symbolic; j >= number of accesses: no interference).
/// Accesses of the (repaired) receive on the plain path: 0 tail, 1 intent, 2 length, 3 type, 4 intent (receive_next);
/// 5 length, 6 type, 7 intent, 8 copy, 9 intent.
macro_rules! interference {
    ($name:ident, $t:expr, $lens:expr, $pre:expr, $n:expr) => {
        #[kani::proof]
        #[kani::stub(crate::utils::misc::alloc_buffer_aligned, small_alloc)]
        fn $name() {
            const CAP: usize = 64;
            const T: i64 = $t;
            const LENS: [usize; 5] = $lens;
            const PRE: usize = $pre;
            const N: usize = $n;
            let m = shared();
            *m = Mem::any();
            set_counters(&mut m.0, CAP, T);
            let mut src = [Mem::<8>::any(), Mem::<8>::any(), Mem::<8>::any()];
            let ty = [any_protocol_type(), any_protocol_type(), any_protocol_type()];
            {
                let e = env();
                e.n = N;
                e.pre = PRE;
                e.t0 = T;
                e.lens = LENS;
                e.ty = [any_protocol_type(), any_protocol_type()];
                *env_src(0) = Mem::any();
                *env_src(1) = Mem::any();
                e.ran = false;
            }
            let mut tx = vok!(BroadcastTransmitter::new(m.buf()), "C08: transmitter accepts the capacity");
            let rx = Arc::new(Mutex::new(vok!(BroadcastReceiver::new(m.buf()), "C08: receiver accepts the capacity")));
            let mut copy = CopyBroadcastReceiver::new(rx.clone());
            let mut i = 0;
            while i < PRE {
                vok!(tx.transmit(ty[i], &src[i].buf(), 0, LENS[i] as Index), "C08: legal event refused by transmit");
                pin_layout(&mut m.0, CAP, T, &LENS, i + 1);
                i += 1;
            }
            let s0 = start_of(CAP, T, &LENS, 0);
            let mut end = T;
            let mut i = 0;
            while i < PRE + N {
                end = place(end, CAP as i64, LENS[i] as i64).1;
                i += 1;
            }
            let lapped = s0 + CAP as i64 <= end; // after the injected transmits

            let j: u32 = kani::any();
            kani::assume(j <= 12);
            let probe: usize = kani::any();
            kani::assume(probe < 8);
            let mut seen = Seen { calls: 0, ty: 0, len: 0, byte: 0 };
            hook::begin(u32::MAX, j, Some(env_transmit as fn()), false);
            let r = copy_receive(&mut copy, probe, &mut seen);
            let n_acc = hook::end();
            let ran = env().ran;
            assert!(ran == (j < n_acc), "C08: harness: the interference point lies inside the operation");
            let failed = r.is_err();
            match r {
                Ok(n) => {
                    assert!(n == 1 && seen.calls == 1, "C08: pending event neither delivered nor reported lost");
                    assert!(seen.ty == ty[0] && seen.len == LENS[0] as i32, "C08: delivered event is not the one transmitted (type/length torn)");
                    assert!(probe >= LENS[0] || seen.byte == src[0].0[probe], "C08: delivered bytes differ from the bytes transmitted (torn copy)");
                }
                Err(e) => {
                    assert!(is_unable_to_keep_up(e), "C08: overrun reported as a different error");
                    assert!(seen.calls == 0, "C08: message delivered although the loss was reported");
                    assert!(ran && lapped, "C08: loss reported although the backlog stayed below the capacity");
                }
            }
            kani::cover!(ran && j <= 2 && failed == lapped, "[must] interference before the record read");
            kani::cover!(ran && j >= 3 && j <= 7 && failed == lapped, "[must] interference between the reads of the record header");
            kani::cover!(ran && j >= 8 && failed == lapped, "[must] interference after the record header was read (around the copy)");
            kani::cover!(!ran && !failed, "[must] no interference inside the operation: delivered");
            std::mem::forget(copy);
        }
    };
}
// the injected event wraps to offset 0 and its PAYLOAD covers the header of the oldest pending record (offset 8)
// @verif tier=quick unwindset=lock_contended:2,receive_next:3 fs=257
interference!(c08_interference_lapping_payload_over_header, 8, [8, 3, 8, 8, 0], 3, 1);
// @verif tier=thorough unwindset=lock_contended:2,receive_next:3 fs=257
interference!(c08_interference_not_lapping, 8, [8, 3, 8, 0, 0], 2, 1);
// two injected events; the second one's HEADER lands exactly on the oldest pending record's header
// @verif tier=thorough unwindset=lock_contended:2,receive_next:3 fs=257
interference!(c08_interference_lapping_header_over_header, 0, [8, 8, 8, 8, 5], 3, 2);
// @verif tier=thorough unwindset=lock_contended:2,receive_next:3 fs=257
interference!(c08_interference_two_transmits_payload_over_header, 8, [8, 3, 8, 8, 0], 2, 2);
// @verif tier=thorough unwindset=lock_contended:2,receive_next:3 fs=257
interference!(c08_interference_lapping_crossing_2p31, (1i64 << 31) - 56, [8, 3, 8, 8, 0], 3, 1);
// @verif tier=thorough unwindset=lock_contended:2,receive_next:3 fs=257
interference!(c08_interference_lapping_crossing_2p32, (1i64 << 32) - 56, [5, 8, 1, 8, 0], 3, 1);

/// (b) the transmitter stops forever after its k-th shared-memory access inside `transmit` (k symbolic); a copying
/// receiver standing PENDING events behind then receives PENDING + 1 times: every delivered event is a completely
/// transmitted one, in order; the unfinished event is delivered only if its tail update (the last access) happened;
/// every complete event is delivered or covered by a loss report.
macro_rules! crash_prefix {
    ($name:ident, $t:expr, $lens:expr, $pending:expr) => {
        #[kani::proof]
        #[kani::stub(crate::utils::misc::alloc_buffer_aligned, small_alloc)]
        fn $name() {
            const CAP: usize = 64;
            const T: i64 = $t;
            const LENS: [usize; 4] = $lens;
            const PENDING: usize = $pending; // index of the event whose transmit is cut short
            let mut m = Mem::<{ CAP + TRAILER }>::any();
            set_counters(&mut m.0, CAP, T);
            let mut src = [Mem::<8>::any(), Mem::<8>::any(), Mem::<8>::any(), Mem::<8>::any()];
            let ty = [any_protocol_type(), any_protocol_type(), any_protocol_type(), any_protocol_type()];
            let mut tx = vok!(BroadcastTransmitter::new(m.buf()), "C08: transmitter accepts the capacity");
            let rx = Arc::new(Mutex::new(vok!(BroadcastReceiver::new(m.buf()), "C08: receiver accepts the capacity")));
            let mut copy = CopyBroadcastReceiver::new(rx.clone());
            let mut i = 0;
            while i < PENDING {
                vok!(tx.transmit(ty[i], &src[i].buf(), 0, LENS[i] as Index), "C08: legal event refused by transmit");
                pin_layout(&mut m.0, CAP, T, &LENS, i + 1);
                i += 1;
            }
            let k: u32 = kani::any();
            kani::assume(k <= 10);
            hook::begin(k, u32::MAX, None, false);
            vok!(tx.transmit(ty[PENDING], &src[PENDING].buf(), 0, LENS[PENDING] as Index), "C08: legal event refused by transmit");
            let n_acc = hook::end();
            let complete = k >= n_acc;
            let probe: usize = kani::any();
            kani::assume(probe < 8);
            let mut next = 0usize; // index of the next event the receiver may deliver
            let mut reported = false;
            let mut r = 0;
            while r < PENDING + 1 {
                let mut seen = Seen { calls: 0, ty: 0, len: 0, byte: 0 };
                match copy_receive(&mut copy, probe, &mut seen) {
                    Ok(n) => {
                        assert!(n as u32 == seen.calls && n <= 1, "C08: result does not match the deliveries");
                        if n == 1 {
                            assert!(next <= PENDING, "C08: an event was delivered that was never transmitted");
                            assert!(next < PENDING || complete, "C08: a half-written event was delivered");
                            assert!(seen.ty == ty[next] && seen.len == LENS[next] as i32, "C08: delivered event out of order or torn (type/length)");
                            assert!(probe >= LENS[next] || seen.byte == src[next].0[probe], "C08: delivered event has torn bytes");
                            next += 1;
                        }
                    }
                    Err(e) => {
                        assert!(is_unable_to_keep_up(e), "C08: overrun reported as a different error");
                        assert!(seen.calls == 0, "C08: message delivered although the loss was reported");
                        assert!(!reported, "C08: loss reported twice without traffic");
                        reported = true;
                        next = PENDING + 1; // everything up to the published tail is covered by the report
                    }
                }
                r += 1;
            }
            if !reported {
                assert!(next == if complete { PENDING + 1 } else { PENDING }, "C08: a completely transmitted event was neither delivered nor reported lost");
            }
            kani::cover!(!complete && k >= 3, "[must] transmit cut short after it started writing");
            kani::cover!(complete, "[must] transmit completed");
            kani::cover!(reported || PENDING < 3, "[must] lapped path: the unfinished transmit already announced its intent");
            std::mem::forget(copy);
        }
    };
}
// unfinished third event, receiver not lapped: delivers the two complete ones, the third only if its tail was published
// @verif tier=quick unwindset=lock_contended:2,receive_next:3 fs=257
crash_prefix!(c08_crash_prefix_unfinished_event_not_delivered, 8, [8, 5, 8, 0], 2);
// unfinished fourth event wraps (padding) and overwrites the first pending record
// @verif tier=thorough unwindset=lock_contended:2,receive_next:3 fs=257
crash_prefix!(c08_crash_prefix_unfinished_event_laps_receiver, 8, [8, 5, 8, 8], 3);
// @verif tier=thorough unwindset=lock_contended:2,receive_next:3 fs=257
crash_prefix!(c08_crash_prefix_unfinished_event_crossing_2p31, (1i64 << 31) - 40, [8, 5, 8, 0], 2);
// @verif tier=thorough unwindset=lock_contended:2,receive_next:3 fs=257
crash_prefix!(c08_crash_prefix_laps_receiver_crossing_2p31, (1i64 << 31) - 56, [8, 8, 1, 8], 3);
