//! C08 harnesses.
