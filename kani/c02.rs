//! C02 harnesses.
