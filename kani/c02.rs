//! C02 — concurrent publishers never overlap, lose or reorder each other's messages (context-bounded: 2 publishers,
//! ONE preemption of publisher A's offer by COMPLETE offers of publisher B at a symbolic shared-memory access point).
//! Regime R1 (publog.rs): real Publication objects over one real LogBuffers, concrete layout, symbolic payload / ids /
//! preemption point.
use super::c01::rd_i32;
use super::hook;
use super::publog::*;
use super::util::*;
use crate::concurrent::atomic_buffer::AtomicBuffer;
use crate::concurrent::logbuffer::term_appender::default_reserved_value_supplier;
use crate::publication::Publication;
use crate::utils::errors::AeronError;

/// What publisher B (the environment) does and what it got back. One static with a distinctive non-zero field.
struct EnvB {
    magic: u64,
    publication: *const Publication,
    src: *mut u8,
    len1: i32,
    len2: i32, // second offer of B, -1 = none
    res1: i64, // position, or -1 AdminAction, -2 other error, -9 not run
    res2: i64,
    ran: u32,
}
static mut B: EnvB = EnvB { magic: 0x5a5a_c02e_0b00_0001, publication: std::ptr::null(), src: std::ptr::null_mut(), len1: 0, len2: -1, res1: -9, res2: -9, ran: 0 };

fn code(r: Result<u64, AeronError>) -> i64 {
    match r {
        Ok(p) => p as i64,
        Err(e) => {
            let c = if matches!(e, AeronError::AdminAction) { -1 } else { -2 };
            std::mem::forget(e);
            c
        }
    }
}

fn env_b() {
    unsafe {
        let p = &*B.publication;
        B.ran += 1;
        B.res1 = code(p.offer_opt(AtomicBuffer::new(B.src, 96), 0, B.len1, default_reserved_value_supplier));
        if B.len2 >= 0 {
            B.res2 = code(p.offer_opt(AtomicBuffer::new(B.src, 96), 0, B.len2, default_reserved_value_supplier));
        }
    }
}

fn frame_len(l: &PubLog, part: usize, off: usize) -> i32 {
    rd_i32(&l.mem.0, part * TL + off)
}
fn frame_type(l: &PubLog, part: usize, off: usize) -> u16 {
    u16::from_le_bytes([l.mem.0[part * TL + off + 6], l.mem.0[part * TL + off + 7]])
}
/// bytes a message of `len` occupies in the log (MTU payload 32: 33..=64 bytes take two frames)
fn need(len: i32) -> i32 {
    if len <= 32 { align32(32 + len as i64) as i32 } else { 64 + align32(32 + (len - 32) as i64) as i32 }
}
/// the message `src[..len]` sits at `off` of partition `part` as one or two committed frames
fn message_at(l: &PubLog, part: usize, off: usize, src: &[u8; 96], len: i32) -> bool {
    if len <= 32 {
        frame_len(l, part, off) == 32 + len && payload_eq(l, part, off, src, 0, len as usize)
    } else {
        frame_len(l, part, off) == 64 && frame_len(l, part, off + 64) == 32 + (len - 32)
            && payload_eq(l, part, off, src, 0, 32) && payload_eq(l, part, off + 64, src, 32, (len - 32) as usize)
    }
}
fn payload_eq(l: &PubLog, part: usize, off: usize, src: &[u8; 96], from: usize, len: usize) -> bool {
    let mut ok = true;
    let mut j = 0;
    while j < len {
        ok &= l.mem.0[part * TL + off + 32 + j] == src[from + j];
        j += 1;
    }
    ok
}

/// Scenario: log at (count 1, tail $tail); A offers $la bytes, B offers $lb bytes (then optionally $lb2) and B's
/// COMPLETE offers run just before A's access number $j (0 = before A reads the limit, 1 = before the term count read,
/// 2 = before the tail read, 3 = before A's fetch-add, 4 = right after it / before A's header store, 5.. = header fields,
/// payload copy, reserved value, commit). j is concrete per instance (a symbolic j multiplies the cost of B's offer by
/// the number of access points and did not finish in 25 minutes); payloads and ids are symbolic.
macro_rules! preempt {
    ($name:ident, $tail:expr, $la:expr, $lb:expr, $lb2:expr, $j:expr) => {
        #[kani::proof]
        fn $name() {
            let tail: i32 = $tail;
            let mut l = PubLog::new(1, tail);
            l.set_limit(i64::MAX);
            l.set_connected(1);
            let pa = l.publication();
            let pb = l.publication();
            let mut src_a: [u8; 96] = kani::any();
            let mut src_b: [u8; 96] = kani::any();
            let (la, lb, lb2): (i32, i32, i32) = ($la, $lb, $lb2);
            unsafe {
                B.publication = &pb;
                B.src = src_b.as_mut_ptr();
                B.len1 = lb;
                B.len2 = lb2;
                B.res1 = -9;
                B.res2 = -9;
                B.ran = 0;
            }
            hook::begin(u32::MAX, $j, Some(env_b), false);
            let ra = code(pa.offer_opt(AtomicBuffer::new(src_a.as_mut_ptr(), 96), 0, la, default_reserved_value_supplier));
            let n = hook::end();
            assert!(unsafe { B.ran } == 1, "C02: harness: the preemption point lies inside A's offer");
            let (rb, rb2) = unsafe { (B.res1, B.res2) };
            let part = l.partition(); // 1
            let next = (part + 1) % 3;
            let t = l.term_id();
            let (need_a, need_b) = (need(la), need(lb));
            let fits_both = tail + need_a + need_b <= TL as i32;
            if fits_both {
                // both accepted, positions distinct and equal to their frame ends; frames disjoint, intact, gap-free
                assert!(ra > 0 && rb > 0 && ra != rb, "C02: both offers accepted with distinct positions");
                let a_first = ra < rb;
                let off_a = if a_first { tail } else { tail + need_b };
                let off_b = if a_first { tail + need_a } else { tail };
                assert!(ra == TL as i64 + (off_a + need_a) as i64 && rb == TL as i64 + (off_b + need_b) as i64, "C02: returned positions are consistent with frame placement");
                assert!(message_at(&l, part, off_a as usize, &src_a, la) && message_at(&l, part, off_b as usize, &src_b, lb), "C02: each message occupies its own committed frame(s) with intact bytes, no overlap");
                assert!(l.raw_tail_of(part) == pack_tail(t, tail + need_a + need_b), "C02: the tail covers exactly both frames (gap-free)");
                assert!(l.active_count() == 1, "C02: no rotation while the term has room");
                kani::cover!(a_first, "A frame placed first");
                kani::cover!(!a_first, "B frame placed first");
            } else {
                // the term end is tripped by at least one of them: exactly one padding frame, exactly one rotation,
                // nobody silently dropped or duplicated: each offer is either placed (position = its frame end) or told to retry
                assert!(ra > 0 || ra == -1, "C02: A is accepted or told to retry (AdminAction), nothing else");
                assert!(rb > 0 || rb == -1, "C02: B is accepted or told to retry (AdminAction), nothing else");
                assert!(l.active_count() == 2, "C02: the log rotates exactly once for the filled term");
                // find where the padding starts: the first claim that did not fit
                let pad_at = if tail + need_a > TL as i32 && tail + need_b > TL as i32 {
                    tail
                } else if ra > 0 && ra <= (2 * TL) as i64 {
                    tail + need_a
                } else if rb > 0 && rb <= (2 * TL) as i64 {
                    tail + need_b
                } else {
                    tail
                };
                if pad_at < TL as i32 {
                    assert!(frame_len(&l, part, pad_at as usize) == TL as i32 - pad_at && frame_type(&l, part, pad_at as usize) == 0, "C02: exactly one padding frame fills the remainder of the term");
                }
                // whoever was accepted has an intact frame where its position says
                if ra > 0 {
                    let (p, off) = if ra <= (2 * TL) as i64 { (part, ra - TL as i64 - need_a as i64) } else { (next, ra - 2 * TL as i64 - need_a as i64) };
                    assert!(off >= 0 && message_at(&l, p, off as usize, &src_a, la), "C02: A's accepted message is intact at the position reported");
                }
                if rb > 0 {
                    let (p, off) = if rb <= (2 * TL) as i64 { (part, rb - TL as i64 - need_b as i64) } else { (next, rb - 2 * TL as i64 - need_b as i64) };
                    assert!(off >= 0 && message_at(&l, p, off as usize, &src_b, lb), "C02: B's accepted message is intact at the position reported");
                }
                let mut in_next: i64 = 0; // bytes accepted into the next term
                if ra > (2 * TL) as i64 {
                    in_next += need_a as i64;
                }
                if rb > (2 * TL) as i64 {
                    in_next += need_b as i64;
                }
                if rb2 != -9 {
                    assert!(rb2 > 0 || rb2 == -1, "C02: B's retry is accepted or told to retry again");
                    if rb2 > 0 && ra > 0 {
                        assert!(rb2 != ra, "C02: positions of different messages are distinct");
                    }
                    if rb2 > 0 {
                        let need_b2 = need(lb2) as i64;
                        let (p, off) = if rb2 <= (2 * TL) as i64 { (part, rb2 - TL as i64 - need_b2) } else { (next, rb2 - 2 * TL as i64 - need_b2) };
                        assert!(off >= 0 && message_at(&l, p, off as usize, &src_b, lb2), "C02: B's retried message is intact at the position reported");
                        if rb2 > (2 * TL) as i64 {
                            in_next += need_b2;
                        }
                    }
                }
                assert!(l.raw_tail_of(next) == pack_tail(t.wrapping_add(1), in_next as i32), "C02: the next term's tail covers exactly the messages accepted into it (a late rotation must not reset it)");
                kani::cover!(ra == -1, "A told to retry");
            }
            kani::cover!(true, "[must] instance reaches the end");
            std::mem::forget(pa);
            std::mem::forget(pb);
        }
    };
}
// same term, room for both
// @verif tier=quick unwind=4 unwindset=payload_eq:34 fs=6000 timeout=1500
preempt!(c02_same_term_b_before_a_claims, 64, 17, 20, -1, 3);
// @verif tier=quick unwind=4 unwindset=payload_eq:34 fs=6000 timeout=1500
preempt!(c02_same_term_b_after_a_claims, 64, 17, 20, -1, 4);
// @verif tier=thorough unwind=4 unwindset=payload_eq:34 fs=6000 timeout=1500
preempt!(c02_same_term_b_before_a_commits, 64, 17, 20, -1, 8);
// @verif tier=thorough unwind=4 unwindset=payload_eq:34 fs=6000 timeout=1500
preempt!(c02_same_term_b_before_a_reads_limit, 64, 17, 20, -1, 0);
// A's message is fragmented and an exact multiple of the MTU payload: the claim must not be larger than what is written (gap-free)
// @verif tier=quick unwind=4 unwindset=payload_eq:34 fs=6000 timeout=1500
preempt!(c02_same_term_fragmented_exact_multiple, 64, 64, 20, -1, 4);
// B trips the term end and rotates (then retries in the new term) while A holds a stale view of the term
// @verif tier=quick unwind=4 unwindset=payload_eq:34 fs=6000 timeout=1500
preempt!(c02_b_rotates_before_a_claims, 448, 17, 40, 40, 3);
// @verif tier=thorough unwind=4 unwindset=payload_eq:34 fs=6000 timeout=1500
preempt!(c02_b_rotates_before_a_reads_tail, 448, 17, 40, 40, 2);
// @verif tier=thorough unwind=4 unwindset=payload_eq:34 fs=6000 timeout=1500
preempt!(c02_b_rotates_after_a_claims, 448, 17, 40, 40, 4);
// both trip the same term end
// @verif tier=quick unwind=4 unwindset=payload_eq:34 fs=6000 timeout=1500
preempt!(c02_both_trip_term_end_b_first, 480, 17, 20, -1, 3);
// @verif tier=thorough unwind=4 unwindset=payload_eq:34 fs=6000 timeout=1500
preempt!(c02_both_trip_term_end_a_first, 480, 17, 20, -1, 4);

/// Non-interference of claims: an append performs exactly one access to shared meta data - the fetch-add on the tail -
/// and afterwards touches only bytes inside the range that fetch-add handed to it. Other publishers can therefore
/// influence this one only through the value the fetch-add returns, which is fully symbolic here (any tail offset,
/// including tails that already overshot the term).
// @verif tier=quick unwind=26
#[kani::proof]
fn c02_append_touches_only_its_claimed_range() {
    use super::c01::{supplier, Log, T};
    use crate::concurrent::logbuffer::header::HeaderWriter;
    use crate::concurrent::logbuffer::term_appender::TermAppender;
    pretouch();
    let slot: i32 = kani::any();
    kani::assume((0..=10).contains(&slot));
    let tail = slot * 32;
    let mut l = Log::new(tail);
    let mut src: [u8; 64] = kani::any();
    let len: i32 = 17;
    let hw = HeaderWriter::new(l.hdr.buf());
    let a = TermAppender::new(l.term.buf(), l.meta.buf(), 0);
    let term_base = l.term.0.as_ptr() as usize;
    let meta_base = l.meta.0.as_ptr() as usize;
    hook::begin(u32::MAX, u32::MAX, None, true);
    let r = a.append_unfragmented_message(&hw, &AtomicBuffer::new(src.as_mut_ptr(), 64), 0, len, supplier, l.term_id);
    let _n = hook::end();
    std::mem::forget(r);
    let n = hook::trace_len();
    assert!(n >= 1 && n < hook::TR, "C02: harness: trace fits");
    let first = hook::trace_at(0);
    assert!(first.kind == hook::RMW && first.addr == meta_base && first.len == 8, "C02: the first shared access of an append is the atomic fetch-add on the tail counter");
    let aligned = 64usize;
    let mut k = 1;
    while k < n {
        let acc = hook::trace_at(k);
        let in_meta = acc.addr >= meta_base && acc.addr < meta_base + 32;
        assert!(!in_meta, "C02: after claiming, an append never touches the shared meta data again");
        let in_term = acc.addr >= term_base && acc.addr < term_base + T;
        if in_term {
            let off = acc.addr - term_base;
            let lo = tail as usize;
            let hi = if lo + aligned <= T { lo + aligned } else { T };
            assert!(off >= lo && off + acc.len <= hi, "C02: every term access of an append lies inside the byte range its fetch-add claimed");
        }
        k += 1;
    }
    kani::cover!(n > 3, "[must] a frame was written");
}
