//! C02 — concurrent publishers never overlap, lose or reorder each other's messages (context-bounded: 2 publishers,
//! ONE preemption of publisher A's offer by COMPLETE offers of publisher B at a symbolic shared-memory access point).
//! Regime R1 (publog.rs): real Publication objects over one real LogBuffers, concrete layout, symbolic payload / ids /
//! preemption point.
use super::c01::rd_i32;
use super::hook;
use super::publog::*;
use super::util::*;
use crate::concurrent::atomic_buffer::AtomicBuffer;
use crate::concurrent::logbuffer::term_appender::default_reserved_value_supplier;
use crate::publication::Publication;
use crate::utils::errors::AeronError;

/// What publisher B (the environment) does and what it got back. One static with a distinctive non-zero field.
struct EnvB {
    magic: u64,
    publication: *const Publication,
    src: *mut u8,
    len1: i32,
    len2: i32, // second offer of B, -1 = none
    res1: i64, // position, or -1 AdminAction, -2 other error, -9 not run
    res2: i64,
    ran: u32,
}
static mut B: EnvB = EnvB { magic: 0x5a5a_c02e_0b00_0001, publication: std::ptr::null(), src: std::ptr::null_mut(), len1: 0, len2: -1, res1: -9, res2: -9, ran: 0 };

fn code(r: Result<u64, AeronError>) -> i64 {
    match r {
        Ok(p) => p as i64,
        Err(e) => {
            let c = if matches!(e, AeronError::AdminAction) { -1 } else { -2 };
            std::mem::forget(e);
            c
        }
    }
}

fn env_b() {
    unsafe {
        let p = &*B.publication;
        B.ran += 1;
        B.res1 = code(p.offer_opt(AtomicBuffer::new(B.src, 96), 0, B.len1, default_reserved_value_supplier));
        if B.len2 >= 0 {
            B.res2 = code(p.offer_opt(AtomicBuffer::new(B.src, 96), 0, B.len2, default_reserved_value_supplier));
        }
    }
}

fn frame_len(l: &PubLog, part: usize, off: usize) -> i32 {
    rd_i32(&l.mem.0, part * TL + off)
}
fn frame_type(l: &PubLog, part: usize, off: usize) -> u16 {
    u16::from_le_bytes([l.mem.0[part * TL + off + 6], l.mem.0[part * TL + off + 7]])
}
fn payload_eq(l: &PubLog, part: usize, off: usize, src: &[u8; 96], len: usize) -> bool {
    let mut ok = true;
    let mut j = 0;
    while j < len {
        ok &= l.mem.0[part * TL + off + 32 + j] == src[j];
        j += 1;
    }
    ok
}

/// Both publishers append unfragmented messages into the same term; B's complete offer runs before A's j-th access.
// @verif tier=quick unwind=4 unwindset=payload_eq:34 fs=6000 timeout=1500
#[kani::proof]
fn c02_two_publishers_same_term() {
    let mut l = PubLog::new(1, 64);
    l.set_limit(i64::MAX);
    l.set_connected(1);
    let pa = l.publication();
    let pb = l.publication();
    let mut src_a: [u8; 96] = kani::any();
    let mut src_b: [u8; 96] = kani::any();
    let (la, lb): (i32, i32) = (17, 20);
    unsafe {
        B.publication = &pb;
        B.src = src_b.as_mut_ptr();
        B.len1 = lb;
        B.len2 = -1;
        B.res1 = -9;
        B.ran = 0;
    }
    let j: u32 = kani::any();
    kani::assume(j <= 12);
    hook::begin(u32::MAX, j, Some(env_b), false);
    let ra = code(pa.offer_opt(AtomicBuffer::new(src_a.as_mut_ptr(), 96), 0, la, default_reserved_value_supplier));
    let n = hook::end();
    let ran = unsafe { B.ran };
    kani::assume(ran == 1); // j within A's access sequence: B really ran (j >= n means no preemption happened)
    let rb = unsafe { B.res1 };
    let part = l.partition();
    let base = l.position(); // 1 * TL + 64
    // both accepted, positions distinct and equal to their frame ends; frames disjoint, intact, gap-free
    assert!(ra > 0 && rb > 0 && ra != rb, "C02: both offers accepted with distinct positions");
    let a_first = ra < rb;
    let (off_a, off_b) = if a_first { (64usize, 128usize) } else { (128usize, 64usize) };
    assert!(ra == base - 64 + off_a as i64 + 64 && rb == base - 64 + off_b as i64 + 64, "C02: returned positions are consistent with frame placement");
    assert!(frame_len(&l, part, off_a) == 32 + la && frame_len(&l, part, off_b) == 32 + lb, "C02: each message occupies its own committed frame");
    assert!(payload_eq(&l, part, off_a, &src_a, la as usize) && payload_eq(&l, part, off_b, &src_b, lb as usize), "C02: both payloads intact");
    assert!(l.raw_tail_of(part) == pack_tail(l.term_id(), 192), "C02: the tail covers exactly both frames (gap-free)");
    assert!(frame_len(&l, part, 192) == 0 && l.active_count() == 1, "C02: nothing beyond the two frames, no rotation");
    kani::cover!(a_first, "[must] A's frame first");
    kani::cover!(!a_first, "[must] B's frame first");
    kani::cover!(j == 0, "[must] preemption before A's first access");
    std::mem::forget(pa);
    std::mem::forget(pb);
}
