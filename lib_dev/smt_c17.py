"""C17 (E2): position / term-id arithmetic of log_buffer_descriptor at full 32/64-bit width, dev and release profile.
Specs are written over 128-bit bit-vectors (sx32/zx32/sx64/zx64 widen first), so the SPEC side cannot wrap."""
import mirsmt

B32, B64 = 32, 64
# domains use unsigned comparisons on purpose (offset <=u 2^bits already implies offset >= 0 as i32): cvc5's integer
# translation, which is what makes the remainder obligations cheap, drowns in signed comparisons of symbolic values
DOM = ["(bvule count #x7fffffff)", "(bvuge bits #x00000010)", "(bvule bits #x0000001e)", "(bvule (zx32 offset) (pow2 bits))"]
DOM_LT = DOM[:3] + ["(bvult (zx32 offset) (pow2 bits))"]
ACTIVE = "(bvadd initial count)"                      # initial (+wrapping) count
POS128 = "(bvadd (bvshl (zx32 count) (zx32 bits)) (zx32 offset))"   # count * 2^bits + offset, exact
BEGIN128 = "(bvshl (zx32 count) (zx32 bits))"
POS64 = "((_ extract 63 0) %s)" % POS128              # < 2^62 on the domain, so the truncation is exact
# count mod 3 by its Euclidean witness: count = 3*q + r, 0 <= r <= 2 (q, r universally quantified like every other variable;
# a 128-bit bvurem in the spec costs the solvers minutes, the witness form milliseconds)
EUCLID = ["(bvule r #x00000002)", "(bvule q #x2aaaaaaa)", "(= (zx32 count) (bvadd (bvmul (zx32 q) (_ bv3 128)) (zx32 r)))"]
QR = [("q", 32), ("r", 32)]
BOUNDS = {"initial": "any i32", "count": "[0, 2^31)", "bits": "[16, 30]", "offset": "[0, 2^bits] ([0, 2^bits) for index_by_position)",
          "raw tail": "id any i32, off in [0, 2^32), term_len = 2^bits", "partition index": "{0,1,2}", "width": "full 32/64 bit, no unrolling"}


def run(tier, known):
    s = mirsmt.Session("C17", tier)
    fns = ["compute_position", "compute_term_begin_position", "index_by_term", "index_by_term_count", "index_by_position",
           "term_id", "term_offset", "next_partition_index", "previous_partition_index"]
    for f in fns:
        s.function(f)
    v4 = [("initial", B32), ("count", B32), ("bits", B32), ("offset", B32)]

    s.check("compute_position == count*2^bits + offset, >= 0, no panic", v4, DOM,
            "(and (not {f[panics]}) (= (sx64 {f[ret]}) %s) (bvsge {f[ret]} (_ bv0 64)))" % POS128,
            {"f": ("compute_position", {"active_term_id": ACTIVE, "term_offset": "offset", "position_bits_to_shift": "bits",
                                        "initial_term_id": "initial"})})
    s.check("compute_term_begin_position == count*2^bits, >= 0, no panic", v4[:3], DOM[:3],
            "(and (not {f[panics]}) (= (sx64 {f[ret]}) %s) (bvsge {f[ret]} (_ bv0 64)))" % BEGIN128,
            {"f": ("compute_term_begin_position", {"active_term_id": ACTIVE, "position_bits_to_shift": "bits", "initial_term_id": "initial"})})
    s.check("index_by_term == index_by_term_count == count mod 3, no panic", v4[:2] + QR, DOM[:1] + EUCLID,
            "(and (not {a[panics]}) (not {b[panics]}) (= {a[ret]} r) (= {b[ret]} r))",
            {"a": ("index_by_term", {"initial_term_id": "initial", "active_term_id": ACTIVE}),
             "b": ("index_by_term_count", {"term_count": "((_ sign_extend 32) count)"})})
    s.check("index_by_position(count*2^bits + offset) == count mod 3, no panic", v4[1:] + QR, DOM_LT + EUCLID,
            "(and (not {f[panics]}) (= {f[ret]} r))",
            {"f": ("index_by_position", {"position": POS64, "position_bits_to_shift": "bits"})}, split=("bits", range(16, 31)))
    raw = [("id", B32), ("off", B64), ("bits", B32)]
    rdom = ["(bvule off #x00000000ffffffff)", "(bvuge bits #x00000010)", "(bvule bits #x0000001e)"]
    RAW = "(bvor (bvshl ((_ sign_extend 32) id) (_ bv32 64)) off)"
    TLEN = "((_ extract 63 0) (pow2 bits))"
    s.check("term_id(id<<32 | off) == id, no panic", raw[:2], rdom[:1], "(and (not {f[panics]}) (= {f[ret]} id))",
            {"f": ("term_id", {"raw_tail": RAW})})
    s.check("term_offset(id<<32 | off, 2^bits) == min(off, 2^bits), no panic", raw, rdom,
            "(and (not {f[panics]}) (= (sx32 {f[ret]}) (ite (bvule (zx64 off) (pow2 bits)) (zx64 off) (pow2 bits))))",
            {"f": ("term_offset", {"raw_tail": RAW, "term_length": TLEN})})

    part = [("i", B32), ("n", B32), ("p", B32)]
    pdom = ["(bvule i #x00000002)", "(= n {nx[ret]})", "(= p {pv[ret]})"]
    s.check("next/previous_partition_index are inverse rotations of {0,1,2}, no panic", part, pdom,
            "(and (not {nx[panics]}) (not {pv[panics]}) (not {pn[panics]}) (not {np[panics]}) "
            "(= n (ite (= i #x00000002) #x00000000 (bvadd i #x00000001))) (= p (ite (= i #x00000000) #x00000002 (bvsub i #x00000001))) "
            "(= {pn[ret]} i) (= {np[ret]} i))",
            {"nx": ("next_partition_index", {"current_index": "i"}), "pv": ("previous_partition_index", {"current_index": "i"}),
             "pn": ("previous_partition_index", {"current_index": "n"}), "np": ("next_partition_index", {"current_index": "p"})})
    return s.finish(bounds=BOUNDS, known=known)
