"""C05 (E2): offset arithmetic of the Image poll family.

bounded_poll / bounded_controlled_poll / controlled_peek carry their `limit_offset` / `end_offset` computations inside the
frame loop; the translator takes loop-free functions whole or not at all, so these are reported as NOT TRANSLATED (by
design) and are covered by the Kani harnesses only.  block_poll is loop-free and is decided here, with its callees
(`is_closed`, `subscriber_position.get`, the `Vec` index, `capacity`, `scan`, the lazy_static field offset) as free values
constrained only by the stated contracts."""
import mirsmt

LOOPY = ["Image::bounded_poll", "Image::bounded_controlled_poll", "Image::controlled_peek"]
BOUNDS = {"position": "[0, 2^62)", "bits": "[16, 30], term_length_mask = 2^bits - 1, term capacity = 2^bits",
          "block_length_limit": "[0, i32::MAX] (any i32 for the no-panic obligation)",
          "assumed contracts": "scan(buf, off, lim) in [off, capacity] and == off when lim <= off; TERM_ID_FIELD_OFFSET in [0, 64]; "
                               "index_by_position in 0..3 (decided in C17); image open"}


def run(tier, known):
    s = mirsmt.Session("C05", tier)
    for key in LOOPY:
        s.function(key, by_design=True)
    key = "Image::block_poll"
    ms = s.function(key, havoc=("Image::is_closed", "ReadablePosition>::get", "contains", "Index<usize>>::index", "AtomicBuffer::capacity",
                                "term_scan::scan", "Deref>::deref"),
                    ignore=("<fn pointer>", "ReadablePosition>::set_ordered"))
    if ms:
        decls = [("limit", 32), ("pos", 64), ("bits", 32), ("mask", 32), ("cap", 32), ("scan", 32), ("fo", 32), ("tid", 32), ("sid", 32)]
        uses = {"f": (key, {"block_length_limit": "limit", "call.is_closed": "false", "call.get": "pos", "self.term_length_mask": "mask",
                            "self.position_bits_to_shift": "bits", "call.contains": "true", "call.capacity": "cap", "call.scan": "scan",
                            "mem.deref": "fo", "mem.read": "tid", "self.session_id": "sid"})}
        OFF = "(bvand (zx64 pos) (zx32 mask))"       # term offset, exact
        LIM = "{f[callarg.scan.2]}"                  # the limit_offset handed to scan
        dom = ["(bvule pos #x3fffffffffffffff)", "(bvuge bits #x00000010)", "(bvule bits #x0000001e)", "(= (zx32 cap) (pow2 bits))",
               "(= mask (bvsub cap #x00000001))", "(bvule fo #x00000040)",
               # contract of term_scan::scan on a well-formed term
               "(bvsle (sx32 {f[callarg.scan.1]}) (sx32 scan))", "(bvsle scan cap)", "(=> (bvsle %s {f[callarg.scan.1]}) (= scan {f[callarg.scan.1]}))" % LIM]
        s.check("block_poll: limit_offset == min(term_offset + block_length_limit, capacity) exactly, for limit >= 0", decls,
                dom + ["(bvsge limit #x00000000)"],
                "(and (= (sx32 {f[callarg.scan.1]}) %s) (= (sx32 %s) (ite (bvsle (bvadd %s (sx32 limit)) (sx32 cap)) (bvadd %s (sx32 limit)) (sx32 cap))))"
                % (OFF, LIM, OFF, OFF), uses, what="Image::block_poll computes a wrong limit offset")
        s.check("block_poll: no panic; returns scan - term_offset in [0, capacity - term_offset]; position advances by exactly that, within the term",
                decls, dom,
                "(and (not {f[panics]}) (= (sx32 {f[ret]}) (bvsub (sx32 scan) %s)) (bvsge {f[ret]} #x00000000) "
                "(bvsle (bvadd %s (sx32 {f[ret]})) (sx32 cap)) (= {f[calls.set_ordered]} (bvsgt {f[ret]} #x00000000)) "
                "(=> {f[calls.set_ordered]} (= (sx64 {f[callarg.set_ordered.1]}) (bvadd (sx64 pos) (sx32 {f[ret]})))) "
                "(=> {f[calls.<fn pointer>]} (and (= {f[callarg.<fn pointer>.2]} {f[ret]}) (= (sx32 {f[callarg.<fn pointer>.1]}) %s))))" % (OFF, OFF, OFF),
                uses, what="Image::block_poll panics or mis-accounts the consumed block")
    r = s.finish(bounds=BOUNDS, known=known)
    r["report"].insert(1, "E2 C05: %d of %d poll functions are not translated by design (frame loops); their offset arithmetic is NOT decided by E2" % (
        len([k for k in LOOPY if k in r["evidence"]["not_translated"]]), len(LOOPY)))
    return r
