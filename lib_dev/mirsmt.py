"""E2 engine: MIR -> SMT-LIB2 translation of loop-free integer functions of /repo, decided by z3 and
cross-checked by cvc5, in two arithmetic profiles derived from the SAME MIR text.

  checked  : what rustc emits with -C overflow-checks=on (dev builds): `AddWithOverflow` & co. produce
             (value, flag) and `assert(!flag, "attempt to compute ... overflow")` can fail => outcome `panics`.
  wrapping : release semantics.  Derived from the checked MIR by treating every *overflow-check* assert
             (add/sub/mul/neg/shift "which would overflow" messages) as always passing; the value component
             of the checked op is the wrapped bit-vector result already, and MIR `Shl`/`Shr` mask the shift
             amount, which is exactly what rustc generates with -C overflow-checks=off.  Division/remainder
             asserts (zero divisor, MIN / -1) stay in both profiles because rustc keeps them in release.
             Differences that only exist under `debug_assert!` are out of scope (dump uses debug-assertions=off).

Anything the translator does not understand raises Unsupported and is reported INCONCLUSIVE by the caller.
See /verif/docs/MIRSMT.md."""
import fcntl
import glob
import hashlib
import os
import random
import re
import select
import shutil
import subprocess
import threading
import time

VERIF = os.path.dirname(os.path.dirname(os.path.abspath(__file__)))
REPO = os.environ.get("VERIF_REPO", "/repo")
TARGET_ROOT = os.path.join(VERIF, "target")
_TAG = "" if os.path.realpath(REPO) == "/repo" else "-" + hashlib.sha1(os.path.realpath(REPO).encode()).hexdigest()[:8]
_TAG += os.environ.get("VERIF_E2_TAG", "")   # e.g. "-dev": private cache directories for a development copy of this library
MIR_DIR = os.path.join(TARGET_ROOT, "mir" + _TAG)
NATIVE_DIR = os.path.join(TARGET_ROOT, "mirsmt_native" + _TAG)
QUERY_TIMEOUT_MS = 60000
PROFILES = ("checked", "wrapping")
CARGO_JOBS = "2"


class Unsupported(Exception):
    pass


class Inconclusive(Exception):
    pass


# =====================================================================================================
# terms: hash-consed DAG, width 0 = Bool, otherwise bit-vector of that width
# =====================================================================================================
class T:
    __slots__ = ("op", "args", "w", "par", "key")
    _tab = {}

    @staticmethod
    def make(op, args, w, par=None):
        key = (op, tuple(id(a) for a in args), w, par)
        t = T._tab.get(key)
        if t is None:
            t = T()
            t.op, t.args, t.w, t.par, t.key = op, tuple(args), w, par, key
            T._tab[key] = t
        return t

    def is_const(self):
        return self.op in ("const", "true", "false")

    def value(self):
        return self.par if self.op == "const" else (self.op == "true")


TRUE = T.make("true", (), 0)
FALSE = T.make("false", (), 0)


def bv(v, w):
    return T.make("const", (), w, v & ((1 << w) - 1))


def boolc(b):
    return TRUE if b else FALSE


def var(name, w):
    return T.make("var", (), w, name)


def _s(v, w):
    return v - (1 << w) if v >> (w - 1) else v


BOOL_OPS = {"=", "bvult", "bvule", "bvslt", "bvsle", "and", "or", "not", "xor"}


def _fold(op, par, w, a, ws):
    """value of op on constant python arguments a (unsigned ints / bools); ws = argument widths"""
    m = (1 << w) - 1 if w else 0
    if op == "bvadd":
        return (a[0] + a[1]) & m
    if op == "bvsub":
        return (a[0] - a[1]) & m
    if op == "bvmul":
        return (a[0] * a[1]) & m
    if op == "bvand":
        return a[0] & a[1]
    if op == "bvor":
        return a[0] | a[1]
    if op == "bvxor":
        return a[0] ^ a[1]
    if op == "bvnot":
        return ~a[0] & m
    if op == "bvneg":
        return -a[0] & m
    if op == "bvshl":
        return (a[0] << a[1]) & m if a[1] < w else 0
    if op == "bvlshr":
        return a[0] >> a[1] if a[1] < w else 0
    if op == "bvashr":
        return (_s(a[0], w) >> min(a[1], w - 1)) & m
    if op == "bvudiv":
        return m if a[1] == 0 else a[0] // a[1]
    if op == "bvurem":
        return a[0] if a[1] == 0 else a[0] % a[1]
    if op == "bvsdiv":
        x, y = _s(a[0], w), _s(a[1], w)
        if y == 0:
            return (1 if x < 0 else m)
        q = abs(x) // abs(y)
        return (q if (x < 0) == (y < 0) else -q) & m
    if op == "bvsrem":
        x, y = _s(a[0], w), _s(a[1], w)
        if y == 0:
            return a[0]
        r = abs(x) % abs(y)
        return (-r if x < 0 else r) & m
    if op == "=":
        return a[0] == a[1]
    if op == "bvult":
        return a[0] < a[1]
    if op == "bvule":
        return a[0] <= a[1]
    if op == "bvslt":
        return _s(a[0], ws[0]) < _s(a[1], ws[0])
    if op == "bvsle":
        return _s(a[0], ws[0]) <= _s(a[1], ws[0])
    if op == "and":
        return all(a)
    if op == "or":
        return any(a)
    if op == "not":
        return not a[0]
    if op == "xor":
        return a[0] != a[1]
    if op == "ite":
        return a[1] if a[0] else a[2]
    if op == "extract":
        hi, lo = par
        return (a[0] >> lo) & ((1 << (hi - lo + 1)) - 1)
    if op == "zero_extend":
        return a[0]
    if op == "sign_extend":
        return _s(a[0], ws[0]) & m
    raise Unsupported("fold " + op)


def mk(op, *args, par=None):
    """term constructor with constant folding and a few boolean simplifications"""
    if op in BOOL_OPS:
        w = 0
    elif op == "ite":
        w = args[1].w
    elif op == "extract":
        w = par[0] - par[1] + 1
    elif op in ("zero_extend", "sign_extend"):
        w = args[0].w + par
        if par == 0:
            return args[0]
    else:
        w = args[0].w
    if op == "and":
        flat = []
        for a in args:
            if a is FALSE:
                return FALSE
            if a is TRUE or a in flat:
                continue
            flat.append(a)
        if not flat:
            return TRUE
        if len(flat) == 1:
            return flat[0]
        args = flat
    elif op == "or":
        flat = []
        for a in args:
            if a is TRUE:
                return TRUE
            if a is FALSE or a in flat:
                continue
            flat.append(a)
        if not flat:
            return FALSE
        if len(flat) == 1:
            return flat[0]
        args = flat
    elif op == "not":
        if args[0].op == "not":
            return args[0].args[0]
    elif op == "ite":
        if args[0] is TRUE:
            return args[1]
        if args[0] is FALSE:
            return args[2]
        if args[1] is args[2]:
            return args[1]
        if w == 0 and args[1] is TRUE and args[2] is FALSE:
            return args[0]
        if w == 0 and args[1] is FALSE and args[2] is TRUE:
            return mk("not", args[0])
    elif op == "=" and args[0] is args[1]:
        return TRUE
    if all(a.is_const() for a in args):
        v = _fold(op, par, w, [a.value() for a in args], [a.w for a in args])
        return boolc(v) if w == 0 else bv(v, w)
    return T.make(op, args, w, par)


def evaluate(t, env, memo=None):
    """python evaluation of a term under env {var name: unsigned int / bool} (used for constant items and self-tests)"""
    memo = {} if memo is None else memo
    if t in memo:
        return memo[t]
    if t.op == "var":
        r = env[t.par]
    elif t.is_const():
        r = t.value()
    else:
        r = _fold(t.op, t.par, t.w, [evaluate(a, env, memo) for a in t.args], [a.w for a in t.args])
    memo[t] = r
    return r


def sort_of(w):
    return "Bool" if w == 0 else "(_ BitVec %d)" % w


def sym(name):
    return name if re.match(r"^[A-Za-z_.][A-Za-z0-9_.]*$", name) else "|%s|" % name


def to_smt(t, rename=None):
    """SMT-LIB2 text of a term; shared sub-terms are let-bound so the text stays linear in the DAG size"""
    rename = rename or {}
    refs, order = {}, []

    def visit(x):
        refs[x] = refs.get(x, 0) + 1
        if refs[x] > 1:
            return
        for a in x.args:
            visit(a)
        order.append(x)
    visit(t)
    names = {}

    def txt(x, top=False):
        if not top and x in names:
            return names[x]
        if x.op == "var":
            return rename.get(x.par, sym(x.par))
        if x.op == "const":
            return "#x%0*x" % (x.w // 4, x.par) if x.w % 4 == 0 else "#b" + format(x.par, "0%db" % x.w)
        if x.op in ("true", "false"):
            return x.op
        a = " ".join(txt(y) for y in x.args)
        if x.op == "extract":
            return "((_ extract %d %d) %s)" % (x.par[0], x.par[1], a)
        if x.op in ("zero_extend", "sign_extend"):
            return "((_ %s %d) %s)" % (x.op, x.par, a)
        return "(%s %s)" % (x.op, a)
    binds = []
    for x in order:
        if refs[x] > 1 and x.args and x is not t:
            s = txt(x, top=True)
            names[x] = "?t%d" % len(names)
            binds.append((names[x], s))
    body = txt(t, top=True)
    for n, s in reversed(binds):
        body = "(let ((%s %s)) %s)" % (n, s, body)
    return body


# =====================================================================================================
# MIR dump (cached by a hash of the sources)
# =====================================================================================================
def source_hash():
    h = hashlib.sha256()
    files = sorted(glob.glob(os.path.join(REPO, "src", "**", "*.rs"), recursive=True))
    files += [os.path.join(REPO, f) for f in ("Cargo.toml", "Cargo.lock", "build.rs") if os.path.exists(os.path.join(REPO, f))]
    for f in files:
        h.update(os.path.relpath(f, REPO).encode() + b"\0")
        h.update(open(f, "rb").read())
        h.update(b"\0")
    return h.hexdigest()


def _flock(path):
    os.makedirs(os.path.dirname(path), exist_ok=True)
    f = open(path, "w")
    fcntl.flock(f, fcntl.LOCK_EX)
    return f


def dump_mir():
    """MIR text of the aeron-rs lib built with overflow checks on, debug assertions off.  Returns (text, info)."""
    os.makedirs(MIR_DIR, exist_ok=True)
    cache = os.path.join(MIR_DIR, "aeron_rs.mir")
    lock = _flock(os.path.join(MIR_DIR, ".mirsmt.lock"))
    try:
        want = source_hash()
        if os.path.exists(cache):
            with open(cache) as f:
                head = f.readline()
                if head.strip() == "// srchash=" + want:
                    return f.read(), {"cached": True, "srchash": want, "seconds": 0.0}
        t0 = time.time()
        env = dict(os.environ, CARGO_NET_OFFLINE="true", CARGO_TERM_COLOR="never", CARGO_TARGET_DIR=MIR_DIR)
        cmd = ["cargo", "+nightly", "rustc", "--offline", "--lib", "-j", CARGO_JOBS, "--", "-Zunpretty=mir",
               "-C", "debug-assertions=off", "-C", "overflow-checks=on"]
        text, err = "", ""
        for attempt in range(2):
            # rustc -Zunpretty stops before codegen, so cargo normally re-runs it every time; should a fingerprint
            # ever make cargo think the lib is fresh (no stdout), drop the lib's own fingerprint and run again.
            for d in glob.glob(os.path.join(MIR_DIR, "debug", ".fingerprint", "aeron-rs-*")):
                if any(n.startswith("lib-") for n in os.listdir(d)):
                    shutil.rmtree(d, ignore_errors=True)
            p = subprocess.run(cmd, cwd=REPO, env=env, stdout=subprocess.PIPE, stderr=subprocess.PIPE, text=True)
            text, err = p.stdout, p.stderr
            if p.returncode != 0:
                raise Inconclusive("MIR dump failed (cargo exit %d): %s" % (p.returncode, err[-600:]))
            if len(re.findall(r"^fn ", text, re.M)) > 100:
                break
        else:
            raise Inconclusive("MIR dump produced no MIR text: " + err[-300:])
        if source_hash() != want:
            raise Inconclusive("sources changed while the MIR was being dumped; run again")
        tmp = cache + ".tmp%d" % os.getpid()
        with open(tmp, "w") as f:
            f.write("// srchash=%s\n" % want)
            f.write(text)
        os.replace(tmp, cache)
        return text, {"cached": False, "srchash": want, "seconds": round(time.time() - t0, 1)}
    finally:
        lock.close()


# =====================================================================================================
# MIR text -> functions
# =====================================================================================================
INT_TY = re.compile(r"^([iu])(8|16|32|64|128|size)$")
HEADER_RE = re.compile(r"^fn (.*?)\(((?:_\d+: .*)?)\) -> (.*) \{$")
CONST_RE = re.compile(r"^const (\S+): ([^=]+) = (.*)$")


def ty_info(ty):
    """(width, signed) of an integer / bool type, else None"""
    ty = ty.strip()
    if ty == "bool":
        return (0, False)
    m = INT_TY.match(ty)
    if not m:
        return None
    return (64 if m.group(2) == "size" else int(m.group(2)), m.group(1) == "i")


def split_top(s, sep=","):
    """split at top-level separators (outside any bracket nesting and string literal)"""
    out, depth, cur, i, instr = [], 0, [], 0, False
    while i < len(s):
        c = s[i]
        if instr:
            cur.append(c)
            if c == "\\":
                i += 1
                cur.append(s[i] if i < len(s) else "")
            elif c == '"':
                instr = False
        elif c == '"':
            instr = True
            cur.append(c)
        elif c in "([{<" and not (c == "<" and s[i - 1:i] == " "):
            depth += 1
            cur.append(c)
        elif c in ")]}>" and not (c == ">" and s[i - 1:i] in ("-", "=", " ")):
            depth -= 1
            cur.append(c)
        elif c == sep and depth == 0:
            out.append("".join(cur).strip())
            cur = []
        else:
            cur.append(c)
        i += 1
    last = "".join(cur).strip()
    if last:
        out.append(last)
    return out


class Fn:
    def __init__(self, name, params, ret):
        self.name, self.params, self.ret = name, params, ret
        self.locals, self.debug, self.blocks = {}, {}, {}
        m = re.search(r"<impl at (\S+?):(\d+):\d+: \d+:\d+>", name)
        self.impl_at = (m.group(1), int(m.group(2))) if m else None
        self.last = re.sub(r"::<.*>$", "", name).rsplit("::", 1)[-1]


class Program:
    def __init__(self, text):
        self.lines = text.split("\n")
        self.fn_at, self.const_at = {}, {}
        for i, l in enumerate(self.lines):
            if l.startswith("fn "):
                m = HEADER_RE.match(l)
                if m:
                    self.fn_at[m.group(1)] = i
            elif l.startswith("const "):
                m = CONST_RE.match(l)
                if m:
                    self.const_at[m.group(1)] = i
        self._fns = {}
        self.by_last = {}
        for n in self.fn_at:
            self.by_last.setdefault(re.sub(r"::<.*>$", "", n).rsplit("::", 1)[-1], []).append(n)
        self._impl_ty = {}
        self._structs = None

    def fn(self, name):
        if name in self._fns:
            return self._fns[name]
        i = self.fn_at[name]
        m = HEADER_RE.match(self.lines[i])
        params = []
        for p in split_top(m.group(2)):
            loc, ty = p.split(": ", 1)
            params.append((loc, ty))
        f = Fn(name, params, m.group(3))
        for loc, ty in params:
            f.locals[loc] = ty
        i += 1
        cur = None
        while not self.lines[i].startswith("}"):
            l = self.lines[i].strip()
            i += 1
            if not l or l.startswith("//"):
                continue
            if cur is None:
                d = re.match(r"^debug (\S+) => (_\d+);$", l)
                if d:
                    f.debug.setdefault(d.group(2), d.group(1))
                    continue
                d = re.match(r"^let (?:mut )?(_\d+): (.*);$", l)
                if d:
                    f.locals[d.group(1)] = d.group(2)
                    continue
                d = re.match(r"^(bb\d+)( \(cleanup\))?: \{$", l)
                if d:
                    cur = d.group(1)
                    f.blocks[cur] = {"stmts": [], "cleanup": bool(d.group(2))}
                    continue
                if l.startswith("scope ") or l == "}" or l.startswith("debug "):
                    continue
                raise Unsupported("%s: unrecognised MIR line %r" % (name, l))
            if l == "}":
                cur = None
                continue
            f.blocks[cur]["stmts"].append(l)
        self._fns[name] = f
        return f

    # ---- name resolution ------------------------------------------------------------------------
    def impl_type(self, f):
        """type name of the impl block a method lives in, read from the source line the MIR header points at"""
        if f.impl_at is None:
            return None
        if f.impl_at not in self._impl_ty:
            ty = None
            try:
                line = open(os.path.join(REPO, f.impl_at[0])).read().split("\n")[f.impl_at[1] - 1]
                m = re.match(r"^\s*(?:unsafe\s+)?impl(?:<[^>]*>)?\s+(?:[\w:<>, ']+?\s+for\s+)?([\w:]+)", line)
                if m:
                    ty = m.group(1).rsplit("::", 1)[-1]
            except (OSError, IndexError):
                pass
            self._impl_ty[f.impl_at] = ty
        return self._impl_ty[f.impl_at]

    def resolve(self, path):
        """`Type::method`, `module::function` or `function` -> MIR function name (rustc prints shortest unique paths)"""
        path = re.sub(r"::<[^>]*>", "", path)
        if path in self.fn_at:
            return path
        segs = path.split("::")
        last = segs[-1]
        cands = self.by_last.get(last, [])
        if len(segs) >= 2 and segs[-2][:1].isupper():
            hit = [n for n in cands if "<impl at" in n and self.impl_type(self.fn(n)) == segs[-2]]
        else:
            hit = [n for n in cands if "<impl at" not in n and (path.endswith("::" + n) or n.endswith("::" + path) or n == path)]
        if len(hit) == 1:
            return hit[0]
        if not hit:
            return None
        raise Unsupported("ambiguous function %r: %s" % (path, hit))

    def const_item(self, path):
        """(type, rhs text or Fn-like body lines) of a named constant referenced as `const some::path::NAME`"""
        hit = [n for n in self.const_at if path == n or path.endswith("::" + n)]
        if len(hit) != 1:
            raise Unsupported("constant %r not found or ambiguous (%s)" % (path, hit))
        i = self.const_at[hit[0]]
        m = CONST_RE.match(self.lines[i])
        ty, rhs = m.group(2).strip(), m.group(3).strip()
        if rhs != "{":
            return ty, rhs.rstrip(";"), None
        f = Fn("const " + hit[0], [], ty)
        f.locals["_0"] = ty
        i += 1
        cur = None
        while not self.lines[i].startswith("}"):
            l = self.lines[i].strip()
            i += 1
            d = re.match(r"^let (?:mut )?(_\d+): (.*);$", l)
            if d and cur is None:
                f.locals[d.group(1)] = d.group(2)
                continue
            d = re.match(r"^(bb\d+)( \(cleanup\))?: \{$", l)
            if d:
                cur = d.group(1)
                f.blocks[cur] = {"stmts": [], "cleanup": bool(d.group(2))}
                continue
            if l == "}":
                cur = None
                continue
            if cur and l:
                f.blocks[cur]["stmts"].append(l)
        return ty, None, f

    def enum_discriminants(self, tyname):
        """{variant: discriminant} of a field-less enum, from the sources (explicit `= literal` or the implicit previous + 1);
        None if the enum is not found exactly once or has a variant with fields / a non-literal discriminant"""
        if not hasattr(self, "_enums"):
            self._enums = {}
            for path in sorted(glob.glob(os.path.join(REPO, "src", "**", "*.rs"), recursive=True)):
                src = re.sub(r"//[^\n]*", "", open(path).read())
                src = re.sub(r"/\*.*?\*/", "", src, flags=re.S)
                for m in re.finditer(r"^\s*(?:pub(?:\([^)]*\))?\s+)?enum\s+(\w+)\s*\{", src, re.M):
                    depth, j, body = 1, m.end(), []
                    while j < len(src) and depth:
                        c = src[j]
                        depth += c == "{"
                        depth -= c == "}"
                        body.append(c)
                        j += 1
                    table, nxt = {}, 0
                    for part in split_top("".join(body[:-1])):
                        part = re.sub(r"#\[[^\]]*\]", "", part).strip()
                        if not part:
                            continue
                        vm = re.match(r"^(\w+)(?:\s*=\s*(-?\s*(?:0x[0-9a-fA-F_]+|[0-9_]+))(?:_?[iu](?:8|16|32|64|size))?)?$", part)
                        if not vm:
                            table = None
                            break
                        if vm.group(2) is not None:
                            nxt = int(vm.group(2).replace("_", "").replace(" ", ""), 0)
                        table[vm.group(1)] = nxt
                        nxt += 1
                    self._enums.setdefault(m.group(1), []).append(table)
        defs = self._enums.get(tyname, [])
        return defs[0] if len(defs) == 1 else None

    def struct_fields(self, tyname):
        """field names of a struct in declaration order (= MIR field index), from the sources; None if not determinable"""
        if self._structs is None:
            self._structs = {}
            for path in sorted(glob.glob(os.path.join(REPO, "src", "**", "*.rs"), recursive=True)):
                src = open(path).read()
                for m in re.finditer(r"^\s*(?:pub(?:\([^)]*\))?\s+)?struct\s+(\w+)(?:<[^>{]*>)?\s*(?:where[^{]*)?\{", src, re.M):
                    depth, j, body = 1, m.end(), []
                    while j < len(src) and depth:
                        c = src[j]
                        depth += c == "{"
                        depth -= c == "}"
                        body.append(c)
                        j += 1
                    body = "".join(body[:-1])
                    fields, ok = [], "#[cfg" not in body
                    body = re.sub(r"//[^\n]*", "", body)
                    for part in split_top(body):
                        part = re.sub(r"#\[[^\]]*\]", "", part).strip()
                        fm = re.match(r"^(?:pub(?:\([^)]*\))?\s+)?(\w+)\s*:", part)
                        if fm:
                            fields.append(fm.group(1))
                        elif part:
                            ok = False
                    self._structs.setdefault(m.group(1), []).append(fields if ok else None)
        defs = self._structs.get(tyname, [])
        return defs[0] if len(defs) == 1 else None


# =====================================================================================================
# symbolic values
# =====================================================================================================
class Val:  # scalar: term + rust type
    def __init__(self, t, ty):
        self.t, self.ty = t, ty


class TupleVal:
    def __init__(self, items):
        self.items = list(items)


class Obj:  # a struct living behind a reference (self, or a struct-typed field of it); fields are state
    _n = 0

    def __init__(self, name, ty):
        Obj._n += 1
        self.id, self.name, self.ty, self.children = Obj._n, name, ty, {}


class RefVal:
    def __init__(self, obj):
        self.obj = obj


class EnumVal:  # variants: {ctor: (cond term, [payload values])}
    def __init__(self, variants):
        self.variants = variants


class Opaque:
    def __init__(self, why):
        self.why = why


UNIT = Opaque("unit")

OVERFLOW_MSG = re.compile(r'^"attempt to (compute `\{\} [-+*] \{\}`|negate `\{\}`|shift (left|right) by `\{\}`), which would overflow"')
BINOPS = {"Add": "bvadd", "Sub": "bvsub", "Mul": "bvmul", "BitAnd": "bvand", "BitOr": "bvor", "BitXor": "bvxor"}
CMPOPS = {"Eq", "Ne", "Lt", "Le", "Gt", "Ge"}
IGNORED_STMT = re.compile(r"^(StorageLive|StorageDead|FakeRead|PlaceMention|AscribeUserType|Retag|Coverage|nop|ConstEvalCounter)\b")
PANIC_FN = re.compile(r"(^|::)(panic|panic_fmt|panic_display|panic_str|panic_nounwind|assert_failed|unreachable_display|begin_panic|panic_explicit|panic_const::\w+)$")


def resize(t, w, signed):
    if t.w == w:
        return t
    if t.w > w:
        return mk("extract", t, par=(w - 1, 0))
    return mk("sign_extend" if signed else "zero_extend", t, par=w - t.w)


def overflow_flag_wide(op, a, b, signed):
    """true arithmetic overflow of a op b at a.w bits, computed exactly in a wider bit-vector (the reference definition)"""
    w = a.w
    ww = 2 * w if op == "bvmul" else w + 1
    ea, eb = resize(a, ww, signed), resize(b, ww, signed)
    wide = mk(op, ea, eb)
    return mk("not", mk("=", wide, resize(mk(op, a, b), ww, signed)))


def overflow_flag(op, a, b, signed):
    """true arithmetic overflow of a op b at a.w bits.  Add/Sub use the textbook sign / carry characterisation over the SAME narrow
    result term the value uses (a second, wider adder per check made the dev-profile path conditions needlessly hard for the SAT
    back-ends: 5 s instead of 0.03 s for one `cap - x` check); Mul keeps the double-width product.  _selftest_overflow() compares
    both definitions exhaustively at a small width whenever a Session starts."""
    if op == "bvmul":
        return overflow_flag_wide(op, a, b, signed)
    w = a.w
    r = mk(op, a, b)
    if not signed:
        return mk("bvult", r, a) if op == "bvadd" else mk("bvult", a, b)
    sign = lambda t: mk("=", mk("extract", t, par=(w - 1, w - 1)), bv(1, 1))
    sa, sb, sr = sign(a), sign(b), sign(r)
    same = mk("=", sa, sb)
    return mk("and", same if op == "bvadd" else mk("not", same), mk("not", mk("=", sr, sa)))


def _selftest_overflow(w=5):
    """overflow_flag == overflow_flag_wide for every pair of w-bit operands, add and sub, signed and unsigned"""
    a, b = var("a", w), var("b", w)
    for op in ("bvadd", "bvsub"):
        for signed in (False, True):
            f1, f2 = overflow_flag(op, a, b, signed), overflow_flag_wide(op, a, b, signed)
            for x in range(1 << w):
                for y in range(1 << w):
                    if bool(evaluate(f1, {"a": x, "b": y})) != bool(evaluate(f2, {"a": x, "b": y})):
                        raise Inconclusive("overflow flag self-test failed: %s %s %d %d" % (op, "signed" if signed else "unsigned", x, y))
    return True


def _names(callee, pat):
    """does the havoc/ignore pattern name this callee?  (whole trailing path segments: `get` matches `X::get`, not `X::forget`)"""
    return callee == pat or (callee.endswith(pat) and not re.match(r"\w", callee[-len(pat) - 1]))


class Result:
    def __init__(self):
        self.ret, self.panic, self.ub, self.heap, self.calls = None, FALSE, FALSE, {}, []
        self.retry, self.retry_vals = None, {}   # cut_back_edges mode: condition of reaching a cut back-edge, carried locals there


class _Flow(dict):
    """incoming (condition, environment) pairs per block; an edge in `cut` (a back-edge) is not followed but collected"""

    def __init__(self, order, cut):
        dict.__init__(self, {b: [] for b in order})
        self.cut, self.retries, self.cur = set(cut), [], None

    def to(self, dst, cond, env):
        if (self.cur, dst) in self.cut:
            self.retries.append((cond, env))
        else:
            self[dst].append((cond, env))


class Translator:
    """symbolic execution of one loop-free MIR function over its DAG, merging state at joins with ite.
    cut_back_edges=True: the top-level function may contain loops; a back-edge is not followed, reaching it is the outcome
    `retry`, so a loop is analysed as ONE iteration: the first one, entered from the function entry (see docs/MIRSMT.md)."""

    def __init__(self, prog, profile, havoc=(), ignore=(), cut_back_edges=False, loop_carried=()):
        self.prog, self.profile = prog, profile
        self.havoc, self.ignore = list(havoc), list(ignore)
        self.cut_back_edges, self.loop_carried = bool(cut_back_edges), tuple(loop_carried)
        self.loops = []           # [{"head", "back_edges", "body", "carried"}] of the top-level function (cut mode)
        self.inputs = []          # [(name, width)] in creation order
        self._in = {}
        self.init_fields = {}     # (obj id, k) -> initial value
        self.obj_names = {}       # obj id -> Obj
        self.inlined, self.havoced, self.effects, self.notes = [], [], [], []
        self.field_names = {}     # (obj id, k) -> display name

    # ---- inputs ----------------------------------------------------------------------------------
    def input(self, name, ty, fresh=False):
        info = ty_info(ty)
        if info is None:
            raise Unsupported("free input %s of non-integer type %s" % (name, ty))
        if fresh:
            base, n = name, 1
            while name in self._in:
                n += 1
                name = "%s.%d" % (base, n)
        if name in self._in:
            if self._in[name].ty != ty:
                raise Unsupported("input %s used at two types" % name)
            return self._in[name]
        v = Val(var(name, info[0]), ty)
        self._in[name] = v
        self.inputs.append((name, info[0], ty))
        return v

    # ---- top level -------------------------------------------------------------------------------
    def translate(self, fname):
        f = self.prog.fn(fname)
        args = []
        for loc, ty in f.params:
            dbg = f.debug.get(loc, loc)
            if ty_info(ty) is not None:
                args.append(self.input(dbg, ty))
            elif ty.startswith("&"):
                o = Obj(dbg, re.sub(r"^&(?:'\w+ )?(?:mut )?", "", ty))
                self.obj_names[o.id] = o
                args.append(RefVal(o))
            else:
                args.append(Opaque("argument %s: %s" % (dbg, ty)))
        return self.exec_fn(f, args, {}, 0)

    # ---- places / operands -------------------------------------------------------------------------
    def parse_place(self, s):
        s = s.strip()
        m = re.match(r"^_\d+$", s)
        if m:
            return ("local", s)
        if s.startswith("(*") and s.endswith(")"):
            return ("deref", self.parse_place(s[2:-1]))
        if s.startswith("(") and s.endswith(")"):
            inner = s[1:-1]
            if inner.startswith("("):
                depth = 0
                for j, c in enumerate(inner):
                    depth += c == "("
                    depth -= c == ")"
                    if depth == 0:
                        break
                base, rest = inner[:j + 1], inner[j + 1:]
            else:
                m = re.match(r"^(_\d+)(.*)$", inner)
                if not m:
                    raise Unsupported("place %r" % s)
                base, rest = m.group(1), m.group(2)
            m = re.match(r"^\.(\d+): (.*)$", rest)
            if not m:
                raise Unsupported("place projection %r" % s)
            return ("field", self.parse_place(base), int(m.group(1)), m.group(2))
        raise Unsupported("place %r" % s)

    def field_name(self, obj, k):
        names = self.prog.struct_fields(obj.ty.rsplit("::", 1)[-1].split("<")[0])
        fld = names[k] if names and k < len(names) else "field%d" % k
        return "%s.%s" % (obj.name, fld)

    def read_field(self, env, obj, k, ty):
        key = (obj.id, k)
        if key in env:
            return env[key]
        if key not in self.init_fields:
            name = self.field_name(obj, k)
            if ty_info(ty) is not None:
                self.init_fields[key] = self.input(name, ty)
            else:
                o = Obj(name, ty)
                self.obj_names[o.id] = o
                self.init_fields[key] = o
            self.field_names[key] = name
        return self.init_fields[key]

    def read_place(self, env, f, p):
        if p[0] == "local":
            v = env.get(p[1])
            if v is None:
                if f.locals.get(p[1], "").strip() == "()":
                    return UNIT
                raise Unsupported("read of unassigned local %s in %s" % (p[1], f.name))
            return v
        if p[0] == "deref":
            v = self.read_place(env, f, p[1])
            if isinstance(v, RefVal):
                return v.obj
            if isinstance(v, Opaque):
                return Opaque("deref of " + v.why)
            raise Unsupported("deref of a non-struct reference in %s" % f.name)
        base = self.read_place(env, f, p[1])
        if isinstance(base, TupleVal):
            return base.items[p[2]]
        if isinstance(base, Obj):
            return self.read_field(env, base, p[2], p[3])
        raise Unsupported("field projection on %s in %s" % (type(base).__name__, f.name))

    def write_place(self, env, f, p, v):
        if p[0] == "local":
            env[p[1]] = v
            return
        if p[0] == "field":
            base = self.read_place(env, f, p[1]) if p[1][0] != "local" else env.get(p[1][1])
            if isinstance(base, TupleVal):
                items = list(base.items)
                items[p[2]] = v
                self.write_place(env, f, p[1], TupleVal(items))
                return
            if isinstance(base, Obj):
                self.read_field(env, base, p[2], p[3])  # registers the field name
                env[(base.id, p[2])] = v
                return
        raise Unsupported("assignment to place %r in %s" % (p, f.name))

    def const(self, s):
        s = s.strip()
        if s in ("true", "false"):
            return Val(boolc(s == "true"), "bool")
        m = re.match(r"^(-?\d+)_([iu](?:8|16|32|64|128|size))$", s)
        if m:
            return Val(bv(int(m.group(1)), ty_info(m.group(2))[0]), m.group(2))
        m = re.match(r"^([iu](?:8|16|32|64|128|size))::(MIN|MAX)$", s)
        if m:
            w, sg = ty_info(m.group(1))
            v = (-(1 << (w - 1)) if sg else 0) if m.group(2) == "MIN" else ((1 << (w - 1)) - 1 if sg else (1 << w) - 1)
            return Val(bv(v, w), m.group(1))
        if s == "()":
            return UNIT
        if re.match(r"^[A-Za-z_][\w:]*$", s):
            ty, rhs, body = self.prog.const_item(s)
            if ty_info(ty) is None:
                raise Unsupported("constant %s of type %s" % (s, ty))
            if rhs is not None:
                if not rhs.startswith("const "):
                    raise Unsupported("constant item %s = %s" % (s, rhs))
                return self.const(rhs[6:])
            sub = Translator(self.prog, "checked")
            r = sub.exec_fn(body, [], {}, 0)
            if not (isinstance(r.ret, Val) and r.ret.t.is_const() and r.panic is FALSE and r.ub is FALSE):
                raise Unsupported("constant item %s does not fold to a literal" % s)
            return Val(r.ret.t, ty)
        raise Unsupported("constant %r" % s)

    def operand(self, env, f, s):
        s = s.strip()
        if s.startswith("copy ") or s.startswith("move "):
            return self.read_place(env, f, self.parse_place(s[5:]))
        if s.startswith("const "):
            return self.const(s[6:])
        raise Unsupported("operand %r" % s)

    def scalar(self, env, f, s):
        v = self.operand(env, f, s)
        if not isinstance(v, Val):
            raise Unsupported("operand %r is not an integer/bool value (%s)" % (s, getattr(v, "why", type(v).__name__)))
        return v

    # ---- rvalues -----------------------------------------------------------------------------------
    def binop(self, op, a, b, dest_ty):
        wa, sa = ty_info(a.ty)
        if op in ("Shl", "Shr"):
            if wa == 0:
                raise Unsupported("shift of bool")
            amt = mk("bvand", resize(b.t, wa, False), bv(wa - 1, wa))  # MIR Shl/Shr mask the shift amount
            return Val(mk("bvshl" if op == "Shl" else ("bvashr" if sa else "bvlshr"), a.t, amt), a.ty)
        if a.t.w != b.t.w:
            raise Unsupported("%s on operands of different width (%s, %s)" % (op, a.ty, b.ty))
        if op in BINOPS:
            if wa == 0:
                return Val(mk({"BitAnd": "and", "BitOr": "or", "BitXor": "xor"}[op], a.t, b.t), "bool")
            return Val(mk(BINOPS[op], a.t, b.t), a.ty)
        if op in ("Div", "Rem"):
            o = ("bvsdiv" if sa else "bvudiv") if op == "Div" else ("bvsrem" if sa else "bvurem")
            return Val(mk(o, a.t, b.t), a.ty)
        if op in CMPOPS:
            if op in ("Eq", "Ne"):
                t = mk("=", a.t, b.t)
                return Val(mk("not", t) if op == "Ne" else t, "bool")
            if wa == 0:
                raise Unsupported("ordering comparison of bool")
            lt, le = ("bvslt", "bvsle") if sa else ("bvult", "bvule")
            t = {"Lt": lambda: mk(lt, a.t, b.t), "Le": lambda: mk(le, a.t, b.t),
                 "Gt": lambda: mk(lt, b.t, a.t), "Ge": lambda: mk(le, b.t, a.t)}[op]()
            return Val(t, "bool")
        m = re.match(r"^(Add|Sub|Mul)WithOverflow$", op)
        if m:
            o = BINOPS[m.group(1)]
            return TupleVal([Val(mk(o, a.t, b.t), a.ty), Val(overflow_flag(o, a.t, b.t, sa), "bool")])
        raise Unsupported("binary operator " + op)

    def rvalue(self, env, f, s, dest_ty):
        s = s.strip()
        m = re.match(r"^(.*) as (\S+) \((\w+)\)$", s)
        if m and (s.startswith("copy ") or s.startswith("move ") or s.startswith("const ")):
            if m.group(3) != "IntToInt":
                raise Unsupported("cast kind %s" % m.group(3))
            v = self.scalar(env, f, m.group(1))
            to = ty_info(m.group(2))
            fr = ty_info(v.ty)
            if to is None or to[0] == 0:
                raise Unsupported("cast to %s" % m.group(2))
            if fr[0] == 0:
                return Val(mk("ite", v.t, bv(1, to[0]), bv(0, to[0])), m.group(2))
            return Val(resize(v.t, to[0], fr[1]), m.group(2))
        if s.startswith("copy ") or s.startswith("move "):
            v = self.operand(env, f, s)
            if isinstance(v, Opaque) and v.why.startswith("deref of") and ty_info(dest_ty) is not None:
                # a scalar loaded through a pointer we do not model (lazy_static cell, element of a Vec): free input
                v = self.input("mem.deref", dest_ty, fresh=True)
                self.havoced.append("load through unmodelled pointer %s (fresh symbolic %s)" % (s, v.t.par))
            return v
        if s.startswith("const "):
            try:
                return self.operand(env, f, s)
            except Unsupported:
                if ty_info(dest_ty) is None:
                    return Opaque("constant " + s[6:40])
                raise
        m = re.match(r"^([A-Z]\w*)\((.*)\)$", s)
        if m and (m.group(1) in BINOPS or m.group(1) in CMPOPS or m.group(1) in ("Shl", "Shr", "Div", "Rem", "Not", "Neg")
                  or m.group(1).endswith("WithOverflow")):
            ops = split_top(m.group(2))
            if m.group(1) == "Not":
                v = self.scalar(env, f, ops[0])
                return Val(mk("not" if v.t.w == 0 else "bvnot", v.t), v.ty)
            if m.group(1) == "Neg":
                v = self.scalar(env, f, ops[0])
                return Val(mk("bvneg", v.t), v.ty)
            return self.binop(m.group(1), self.scalar(env, f, ops[0]), self.scalar(env, f, ops[1]), dest_ty)
        m = re.match(r"^discriminant\((.*)\)$", s)
        if m:
            # discriminant of a field-less enum value whose constructor(s) are known; numbers come from the enum's definition
            p = self.parse_place(m.group(1))
            v = self.read_place(env, f, p)
            ety = f.locals.get(p[1], "") if p[0] == "local" else ""
            table = self.prog.enum_discriminants(re.sub(r"<.*$", "", ety).rsplit("::", 1)[-1]) if ety else None
            info = ty_info(dest_ty)
            if not isinstance(v, EnumVal) or table is None or info is None or info[0] == 0:
                raise Unsupported("discriminant read of %s: %s in %s" % (m.group(1), ety or type(v).__name__, f.name))
            alts = []
            for ctor, (c, pay) in v.variants.items():
                if pay or ctor not in table:
                    raise Unsupported("discriminant of %s::%s is not known from the sources" % (ety, ctor))
                alts.append((c, Val(bv(table[ctor], info[0]), dest_ty)))
            return self.merge(alts)
        m = re.match(r"^&(?:mut |raw const |raw mut )?(.*)$", s)
        if m:
            p = self.parse_place(m.group(1))
            if p[0] == "deref":
                v = self.read_place(env, f, p[1])
                if isinstance(v, RefVal):
                    return v
            else:
                try:
                    v = self.read_place(env, f, p)
                except Unsupported as e:
                    return Opaque("reference to %s (%s)" % (m.group(1), e))
                if isinstance(v, Obj):
                    return RefVal(v)
            return Opaque("reference to " + m.group(1))
        if s.startswith("(") and ty_info(dest_ty) is None and dest_ty.startswith("("):
            return TupleVal([self.operand(env, f, o) for o in split_top(s[1:-1])])
        # aggregate: enum variant / struct literal; kept symbolic by constructor name
        m = re.match(r"^([A-Za-z_][\w:]*?)(?:::<.*?>)?(?:::(\w+))?\s*(\((.*)\)|\{(.*)\})?$", s)
        if m and ty_info(dest_ty) is None and not re.match(r"^(discriminant|Len|CopyForDeref|ShallowInitBox|NullaryOp|UnaryOp)\b", s):
            ctor = s.split("(")[0].split("{")[0].strip()
            ctor = re.sub(r"::<[^()]*>", "", ctor).rsplit("::", 1)[-1]
            pay = []
            if m.group(4) is not None:
                pay = [self.operand(env, f, o) for o in split_top(m.group(4))]
            elif m.group(5) is not None:
                pay = [self.operand(env, f, o.split(": ", 1)[1]) for o in split_top(m.group(5))]
            return EnumVal({ctor: (TRUE, pay)})
        raise Unsupported("rvalue %r in %s" % (s, f.name))

    # ---- merging -----------------------------------------------------------------------------------
    def merge(self, alts):
        """alts: [(cond, value)] with mutually exclusive conds covering the reachable cases -> one value"""
        alts = [(c, v) for c, v in alts if v is not None and c is not FALSE]
        if not alts:
            return None
        first = alts[0][1]
        if all(v is first for _, v in alts):
            return first
        if all(isinstance(v, Val) for _, v in alts):
            t = alts[-1][1].t
            for c, v in reversed(alts[:-1]):
                t = mk("ite", c, v.t, t)
            return Val(t, first.ty)
        if all(isinstance(v, TupleVal) and len(v.items) == len(first.items) for _, v in alts):
            return TupleVal([self.merge([(c, v.items[i]) for c, v in alts]) for i in range(len(first.items))])
        if all(isinstance(v, EnumVal) for _, v in alts):
            names = []
            for _, v in alts:
                names += [n for n in v.variants if n not in names]
            out = {}
            for n in names:
                have = [(mk("and", c, v.variants[n][0]), v.variants[n][1]) for c, v in alts if n in v.variants]
                cond = mk("or", *[c for c, _ in have])
                k = len(have[0][1])
                pay = [self.merge([(c, p[i]) for c, p in have]) for i in range(k)]
                out[n] = (cond, pay)
            return EnumVal(out)
        if all(isinstance(v, RefVal) for _, v in alts) and all(v.obj is first.obj for _, v in alts):
            return first
        if all(isinstance(v, (Opaque,)) for _, v in alts):
            return Opaque("merge of opaque values")
        raise Unsupported("cannot merge values of kinds %s" % sorted(set(type(v).__name__ for _, v in alts)))

    def merge_envs(self, incoming):
        reach = mk("or", *[c for c, _ in incoming])
        if len(incoming) == 1:
            return reach, dict(incoming[0][1])
        keys = []
        for _, e in incoming:
            keys += [k for k in e if k not in keys]
        env = {}
        for k in keys:
            alts = []
            for c, e in incoming:
                v = e.get(k)
                if v is None and isinstance(k, tuple):
                    v = self.init_fields.get(k)
                alts.append((c, v))
            try:
                env[k] = self.merge(alts)
            except Unsupported:
                env[k] = None  # becomes an error only if the local is read afterwards
        return reach, {k: v for k, v in env.items() if v is not None}

    # ---- control flow ------------------------------------------------------------------------------
    @staticmethod
    def split_terminator(s):
        """-> (head, targets dict) of a terminator line like `X -> [return: bb1, unwind continue];`"""
        s = s.rstrip(";")
        depth, instr, cut = 0, False, None
        i = 0
        while i < len(s):
            c = s[i]
            if instr:
                if c == "\\":
                    i += 1
                elif c == '"':
                    instr = False
            elif c == '"':
                instr = True
            elif c in "([{":
                depth += 1
            elif c in ")]}":
                depth -= 1
            elif depth == 0 and s.startswith(" -> ", i):
                cut = i
            i += 1
        if cut is None:
            return s, {}
        head, tail = s[:cut], s[cut + 4:].strip()
        tg = {}
        if tail.startswith("["):
            for part in split_top(tail[1:-1]):
                k, v = part.split(": ", 1) if ": " in part else (part.split(" ")[0], part)
                tg[k.strip()] = v.strip()
        elif tail.startswith("bb"):
            tg["goto"] = tail
        else:
            tg["diverges"] = tail
        return head, tg

    def successors(self, f, b):
        term = f.blocks[b]["stmts"][-1]
        head, tg = self.split_terminator(term)
        return [v for k, v in tg.items() if k not in ("unwind", "diverges") and re.match(r"^bb\d+$", v)]

    def topo(self, f, cut=None):
        """reverse post-order of the CFG.  A back-edge raises Unsupported unless `cut` is a set: then it is recorded there as
        (source block, loop head) and not followed."""
        order, color = [], {}
        stack = [("bb0", iter(self.successors(f, "bb0")))]
        color["bb0"] = 1
        while stack:
            b, it = stack[-1]
            for s in it:
                if color.get(s) == 1:
                    if cut is None:
                        raise Unsupported("contains loop (back-edge %s -> %s in %s)" % (b, s, f.name))
                    cut.add((b, s))
                    continue
                if s not in color:
                    color[s] = 1
                    stack.append((s, iter(self.successors(f, s))))
                    break
            else:
                color[b] = 2
                order.append(b)
                stack.pop()
        return list(reversed(order))

    _LOCAL = re.compile(r"(?<![A-Za-z0-9_])_\d+\b")

    def _use_def(self, text):
        """(locals read, local defined or None, is a write to a field of *_1) of one statement / terminator head"""
        text = re.sub(r'"(?:[^"\\]|\\.)*"', '""', text)
        if " = " in text and not text.startswith(("switchInt(", "assert(", "drop(")):
            lhs, rhs = text.split(" = ", 1)
            lhs = lhs.strip()
            if re.match(r"^_\d+$", lhs):
                return set(self._LOCAL.findall(rhs)), lhs, None
            return set(self._LOCAL.findall(lhs)) | set(self._LOCAL.findall(rhs)), None, lhs
        return set(self._LOCAL.findall(text)), None, None

    def loop_analysis(self, f, order, cut):
        """natural loop of every cut back-edge and its loop-carried state: locals that are live at the loop head AND assigned
        inside the loop (plus every place written through a reference inside the loop).  Their value at the head of a later
        iteration differs from the entry value the one-iteration model uses, so each must be acknowledged by name."""
        succ = {b: self.successors(f, b) for b in order}
        pred = {b: [] for b in order}
        for b, ss in succ.items():
            for x in ss:
                if x in pred:
                    pred[x].append(b)
        # per block: upward-exposed uses and defs (statement order matters inside a block)
        gen, kill, places = {}, {}, {}
        for b in order:
            g, k, pl = set(), set(), []
            stmts = f.blocks[b]["stmts"]
            for st in stmts[:-1] + [self.split_terminator(stmts[-1])[0]]:
                if IGNORED_STMT.match(st):
                    continue
                u, d, place = self._use_def(st.rstrip(";"))
                g |= (u - k)
                if d:
                    k.add(d)
                if place:
                    pl.append(place)
            gen[b], kill[b], places[b] = g, k, pl
        live_in = {b: set() for b in order}
        changed = True
        while changed:
            changed = False
            for b in reversed(order):
                out = set()
                for x in succ[b]:
                    out |= live_in.get(x, set())
                new = gen[b] | (out - kill[b])
                if new != live_in[b]:
                    live_in[b], changed = new, True
        loops = {}
        for src, head in sorted(cut):
            # the head must dominate the source, else this is not a natural loop (irreducible flow): refuse
            seen, todo = {"bb0"}, ["bb0"]
            while todo and head != "bb0":
                n = todo.pop()
                for x in succ[n]:
                    if x != head and x not in seen:
                        seen.add(x)
                        todo.append(x)
            if head != "bb0" and src in seen:
                raise Unsupported("irreducible loop (back-edge %s -> %s, head does not dominate) in %s" % (src, head, f.name))
            body, todo = {head}, [src]
            while todo:
                n = todo.pop()
                if n not in body:
                    body.add(n)
                    todo += pred[n]
            lp = loops.setdefault(head, {"head": head, "back_edges": [], "body": set()})
            lp["back_edges"].append("%s->%s" % (src, head))
            lp["body"] |= body
        out = []
        for head, lp in sorted(loops.items(), key=lambda kv: int(kv[0][2:])):
            defs = set()
            for b in lp["body"]:
                defs |= kill[b]
            carried = sorted(live_in[head] & defs, key=lambda l: int(l[1:]))
            names = [f.debug.get(l, l) for l in carried]
            for b in sorted(lp["body"]):
                names += ["place " + pl for pl in places[b] if ("place " + pl) not in names]
            out.append({"head": head, "back_edges": sorted(lp["back_edges"]), "body": sorted(lp["body"], key=lambda x: int(x[2:])),
                        "carried": names, "carried_locals": carried})
        return out

    def exec_fn(self, f, args, heap, depth):
        if depth > 6:
            raise Unsupported("call depth > 6 at %s" % f.name)
        if "bb0" not in f.blocks:
            raise Unsupported("%s has no body" % f.name)
        env0 = dict(heap)
        for (loc, _), a in zip(f.params, args):
            env0[loc] = a
        cut = set() if (self.cut_back_edges and depth == 0) else None   # loops of inlined callees stay unsupported
        order = self.topo(f, cut)
        if cut:
            self.loops = self.loop_analysis(f, order, cut)
            for lp in self.loops:
                ack = set(self.loop_carried)
                missing = [f.debug.get(l, l) for l in lp["carried_locals"] if l not in ack and f.debug.get(l, l) not in ack]
                missing += [n for n in lp["carried"][len(lp["carried_locals"]):] if n not in ack]
                if missing:
                    raise Unsupported("loop at %s of %s carries %s across the cut back-edge: one iteration from the entry value is all "
                                      "that would be analysed; name them in loop_carried=(...) only if that is what the obligations mean"
                                      % (lp["head"], f.name, ", ".join(missing)))
        incoming = _Flow(order, cut or ())
        incoming["bb0"].append((TRUE, env0))
        res = Result()
        panics, ubs, exits = [], [], []
        for b in order:
            if not incoming[b]:
                continue
            incoming.cur = b
            reach, env = self.merge_envs(incoming[b])
            if reach is FALSE:
                continue
            stmts = f.blocks[b]["stmts"]
            for st in stmts[:-1]:
                if IGNORED_STMT.match(st):
                    continue
                if " = " not in st:
                    raise Unsupported("statement %r in %s" % (st, f.name))
                lhs, rhs = st.rstrip(";").split(" = ", 1)
                p = self.parse_place(lhs)
                dty = f.locals.get(p[1], "") if p[0] == "local" else (p[3] if p[0] == "field" else "")
                self.write_place(env, f, p, self.rvalue(env, f, rhs, dty))
            head, tg = self.split_terminator(stmts[-1])
            if head == "return":
                exits.append((reach, env))
            elif head == "unreachable":
                ubs.append(reach)
            elif head == "goto" or head.startswith("goto"):
                incoming.to(tg["goto"], reach, env)
            elif head.startswith("switchInt("):
                v = self.scalar(env, f, head[len("switchInt("):-1])
                taken = []
                for k, dst in tg.items():
                    if k == "otherwise":
                        continue
                    c = (v.t if int(k) else mk("not", v.t)) if v.t.w == 0 else mk("=", v.t, bv(int(k), v.t.w))
                    taken.append(c)
                    incoming.to(dst, mk("and", reach, c), env)
                if "otherwise" in tg:
                    incoming.to(tg["otherwise"], mk("and", reach, mk("not", mk("or", *taken))), env)
            elif head.startswith("assert("):
                parts = split_top(head[len("assert("):-1])
                cs = parts[0]
                neg = cs.startswith("!")
                c = self.scalar(env, f, cs[1:] if neg else cs).t
                ok = mk("not", c) if neg else c
                msg = parts[1] if len(parts) > 1 else ""
                if OVERFLOW_MSG.match(msg) and self.profile == "wrapping":
                    ok = TRUE  # release builds carry no overflow check here; the value already wraps
                elif not (OVERFLOW_MSG.match(msg) or re.match(r'^"(attempt to (divide|calculate the remainder|compute)|index out of bounds)', msg)):
                    self.notes.append("assert with unclassified message kept in both profiles: %s" % msg[:60])
                panics.append(mk("and", reach, mk("not", ok)))
                incoming.to(tg["success"], mk("and", reach, ok), env)
            elif head.startswith("drop("):
                raise Unsupported("drop terminator in %s" % f.name)
            else:
                self.call(f, head, tg, reach, env, incoming, panics, ubs, res, depth)
        res.panic = mk("or", *panics)
        res.ub = mk("or", *ubs)
        if exits:
            _, env = self.merge_envs(exits)
            res.ret = env.get("_0", UNIT)
            res.heap = {k: v for k, v in env.items() if isinstance(k, tuple)}
        if cut is not None:
            res.retry = mk("or", *[c for c, _ in incoming.retries])
            if incoming.retries:
                _, renv = self.merge_envs(incoming.retries)
                for lp in self.loops:          # value each carried local would have at the head of the NEXT iteration
                    for l in lp["carried_locals"]:
                        if isinstance(renv.get(l), Val):
                            res.retry_vals[f.debug.get(l, l)] = renv[l]
        return res

    # ---- calls ---------------------------------------------------------------------------------------
    def call(self, f, head, tg, reach, env, incoming, panics, ubs, res, depth):
        m = re.match(r"^(.*?) = (.*)$", head)
        if not m:
            raise Unsupported("terminator %r in %s" % (head, f.name))
        dest = self.parse_place(m.group(1))
        rhs = m.group(2)
        j = len(rhs) - 1
        if rhs[j] != ")":
            raise Unsupported("call syntax %r" % rhs)
        blank = re.sub(r'"(?:[^"\\]|\\.)*"', lambda mm: '"' + "_" * (len(mm.group(0)) - 2) + '"', rhs)
        depth_p = 0
        while j >= 0:
            depth_p += blank[j] == ")"
            depth_p -= blank[j] == "("
            if depth_p == 0:
                break
            j -= 1
        callee, argtxt = rhs[:j].strip(), rhs[j + 1:-1]
        ret_bb = tg.get("return")
        if ret_bb is None:
            # a call that never returns: panic!/assert!/unreachable!() machinery, or a callee of type `!`
            panics.append(reach)
            return
        if PANIC_FN.search(callee):
            panics.append(reach)
            return
        dty = f.locals.get(dest[1], "") if dest[0] == "local" else (dest[3] if dest[0] == "field" else "")
        if re.match(r"^(copy|move) _\d+$", callee):
            callee = "<fn pointer>"  # call through a function pointer / closure argument: only ignorable, never inlined
        base, generic = callee, None
        if callee.endswith(">"):
            depth = 0
            for j2 in range(len(callee) - 1, -1, -1):     # strip one trailing, balanced `::<...>` (turbofish of the callee)
                depth += callee[j2] == ">" and callee[j2 - 1:j2] != "-"
                depth -= callee[j2] == "<"
                if depth == 0:
                    if callee[j2 - 2:j2] == "::":
                        base, generic = callee[:j2 - 2], re.match(r"^(.*)$", callee[j2 + 1:-1])
                    break
        args = lambda: [self.operand(env, f, a) for a in split_top(argtxt)]
        sc = lambda: [self.scalar(env, f, a) for a in split_top(argtxt)]
        out, cp, cub = None, FALSE, FALSE
        b = re.match(r"^(?:core|std)::num::<impl ([iu]\w+)>::(\w+)$", base)
        mm = re.match(r"^(?:(?:core|std)::cmp::|Ord::|<[iu]\w+ as Ord>::)(min|max)$", base)
        if any(_names(base, h) for h in self.havoc):
            a = args()
            if ty_info(dty) is not None:
                out = self.input("call." + base.rsplit("::", 1)[-1], dty, fresh=True)
            elif dty.strip() == "()":
                out = UNIT
            else:
                out = Opaque("result of havoced call " + base)
            self.havoced.append(base)
            res.calls.append((re.sub(r"^.*(::|>::)", "", base), reach, a))  # arguments stay observable: callarg.<name>.<i>
        elif any(_names(base, h) for h in self.ignore):
            a = args()
            self.effects.append(base)
            res.calls.append((re.sub(r"^.*(::|>::)", "", base), reach, a))
            out = UNIT if dty.strip() == "()" else Opaque("result of ignored call " + base)
            if ty_info(dty) is not None:
                raise Unsupported("ignored call %s returns a scalar; havoc it instead" % base)
        elif re.match(r"^(?:core|std)::sync::atomic::(fence|compiler_fence)$", base):
            out = UNIT  # memory fences order accesses; they compute nothing
        elif b:
            ty, name = b.group(1), b.group(2)
            w, sg = ty_info(ty)
            a = sc()
            if name in ("wrapping_add", "wrapping_sub", "wrapping_mul"):
                out = Val(mk({"wrapping_add": "bvadd", "wrapping_sub": "bvsub", "wrapping_mul": "bvmul"}[name], a[0].t, a[1].t), ty)
            elif name in ("saturating_add", "saturating_sub"):
                o = "bvadd" if name == "saturating_add" else "bvsub"
                r, ov = mk(o, a[0].t, a[1].t), overflow_flag(o, a[0].t, a[1].t, sg)
                if sg:
                    # on signed overflow the sign of the first operand tells the direction for add; for sub likewise
                    neg = mk("bvslt", a[0].t, bv(0, w))
                    sat = mk("ite", neg, bv(1 << (w - 1), w), bv((1 << (w - 1)) - 1, w))
                else:
                    sat = bv((1 << w) - 1, w) if o == "bvadd" else bv(0, w)
                out = Val(mk("ite", ov, sat, r), ty)
            elif name in ("trailing_zeros", "leading_zeros"):
                t = bv(w, 32)
                rng = range(w - 1, -1, -1) if name == "trailing_zeros" else range(w)
                for i in rng:
                    bit = mk("=", mk("extract", a[0].t, par=(i, i)), bv(1, 1))
                    t = mk("ite", bit, bv(i if name == "trailing_zeros" else w - 1 - i, 32), t)
                out = Val(t, "u32")
            else:
                raise Unsupported("integer method %s::%s" % (ty, name))
        elif mm:
            a = sc()
            w, sg = ty_info(a[0].ty)
            le = mk("bvsle" if sg else "bvule", a[0].t, a[1].t)
            # std: min(a,b) = if b < a {b} else {a};  max(a,b) = if b < a {a} else {b}  (same value either way for integers)
            out = Val(mk("ite", le, a[0].t, a[1].t) if mm.group(1) == "min" else mk("ite", le, a[1].t, a[0].t), a[0].ty)
        elif re.match(r"^AtomicBuffer::(get|get_volatile)$", base) and generic and ty_info(generic.group(1)) is not None:
            a = args()
            hint = "mem.read"
            if len(a) > 1 and isinstance(a[1], Val) and a[1].t.op == "var":
                hint = "mem." + a[1].t.par.split(".")[-1]
            out = self.input(hint, generic.group(1), fresh=True)
            self.havoced.append(base + " (fresh symbolic read " + out.t.par + ")")
        else:
            target = self.prog.resolve(base)
            if target is None:
                raise Unsupported("call to %s (not an in-crate function, built-in, or declared havoc/ignore)" % callee)
            g = self.prog.fn(target)
            a = args()
            heap = {k: v for k, v in env.items() if isinstance(k, tuple)}
            r = self.exec_fn(g, a, heap, depth + 1)
            self.inlined.append(target)
            out, cp, cub = r.ret, r.panic, r.ub
            for k in [k for k in env if isinstance(k, tuple)]:
                del env[k]
            env.update(r.heap)
            for n, c, ca in r.calls:
                res.calls.append((n, mk("and", reach, c), ca))
        if cp is not FALSE:
            panics.append(mk("and", reach, cp))
        if cub is not FALSE:
            ubs.append(mk("and", reach, cub))
        env = dict(env)
        if out is not None:
            self.write_place(env, f, dest, out)
        incoming.to(ret_bb, mk("and", reach, mk("not", cp), mk("not", cub)), env)


# =====================================================================================================
# a translated function: SMT definitions per profile
# =====================================================================================================
def flatten_outputs(prefix, v, out):
    if isinstance(v, Val):
        out[prefix] = (v.t, v.ty)
    elif isinstance(v, TupleVal):
        for i, x in enumerate(v.items):
            flatten_outputs("%s.%d" % (prefix, i), x, out)
    elif isinstance(v, EnumVal):
        for n, (c, pay) in v.variants.items():
            nested = len(pay) == 1 and isinstance(pay[0], EnumVal)
            if nested:
                for n2, (c2, pay2) in pay[0].variants.items():
                    out["%s.is.%s.%s" % (prefix, n, n2)] = (mk("and", c, c2), "bool")
                    for i, x in enumerate(pay2):
                        flatten_outputs("%s.%s.%s.%d" % (prefix, n, n2, i), x, out)
            else:
                out["%s.is.%s" % (prefix, n)] = (c, "bool")
                for i, x in enumerate(pay):
                    flatten_outputs("%s.%s.%d" % (prefix, n, i), x, out)


class Model:
    """one function in one profile: ordered inputs, output terms, and the SMT-LIB define-funs for them"""

    def __init__(self, key, mir_name, profile, tr, res):
        self.key, self.mir_name, self.profile = key, mir_name, profile
        self.inputs = list(tr.inputs)
        self.outputs = {"panics": (res.panic, "bool"), "ub": (res.ub, "bool")}
        if res.ret is not None:
            flatten_outputs("ret", res.ret, self.outputs)
        for k, v in res.heap.items():
            if isinstance(v, Val):
                self.outputs["post." + tr.field_names.get(k, "obj%d.%d" % k)] = (v.t, v.ty)
        calls = {}
        for n, c, _ in res.calls:
            calls[n] = mk("or", calls.get(n, FALSE), c)
        for n, c in calls.items():
            self.outputs["calls." + n] = (c, "bool")
            sites = [(c2, a) for n2, c2, a in res.calls if n2 == n]
            if len(sites) == 1:
                for i, a in enumerate(sites[0][1]):
                    if isinstance(a, Val):
                        self.outputs["callarg.%s.%d" % (n, i)] = (a.t, a.ty)
            else:
                # several call sites: each is observable on its own, numbered in execution (topological) order
                for k, (c2, args) in enumerate(sites, 1):
                    self.outputs["calls.%s.site%d" % (n, k)] = (c2, "bool")
                    for i, a in enumerate(args):
                        if isinstance(a, Val):
                            self.outputs["callarg.%s.site%d.%d" % (n, k, i)] = (a.t, a.ty)
        if res.retry is not None:
            self.outputs["retry"] = (res.retry, "bool")
            for n, v in res.retry_vals.items():
                self.outputs["retry." + n] = (v.t, v.ty)
        self.loops = [{k: v for k, v in lp.items() if k != "carried_locals"} for lp in tr.loops]
        self.inlined = sorted(set(tr.inlined))
        self.havoced = sorted(set(tr.havoced))
        self.effects = sorted(set(tr.effects))
        self.notes = sorted(set(tr.notes))

    def fname(self, out):
        return sym("%s.%s.%s" % (self.key.replace("::", "."), self.profile, out))

    def defs(self):
        ren = {n: sym("p!" + n) for n, _, _ in self.inputs}
        params = " ".join("(%s %s)" % (ren[n], sort_of(w)) for n, w, _ in self.inputs)
        lines = []
        for out, (t, ty) in self.outputs.items():
            lines.append("(define-fun %s (%s) %s %s)" % (self.fname(out), params, sort_of(t.w), to_smt(t, ren)))
        return lines

    def app(self, out, actual):
        """SMT text of output `out` applied to actual arguments {input name: smt text}"""
        if out not in self.outputs:
            raise Inconclusive("%s[%s] has no output %r (has: %s)" % (self.key, self.profile, out, sorted(self.outputs)))
        missing = [n for n, _, _ in self.inputs if n not in actual]
        if missing:
            raise Inconclusive("%s[%s]: no actual argument for inputs %s" % (self.key, self.profile, missing))
        if not self.inputs:
            return self.fname(out)
        return "(%s %s)" % (self.fname(out), " ".join(actual[n] for n, _, _ in self.inputs))


def translate(prog, key, mir_path, havoc=(), ignore=(), cut_back_edges=False, loop_carried=()):
    """-> {profile: Model}; raises Unsupported"""
    target = prog.resolve(mir_path)
    if target is None:
        raise Unsupported("function %s not found in the MIR dump" % mir_path)
    models = {}
    for profile in PROFILES:
        tr = Translator(prog, profile, havoc, ignore, cut_back_edges, loop_carried)
        try:
            res = tr.translate(target)
        except Unsupported:
            raise
        except Exception as e:  # parser surprise: never a success
            raise Unsupported("internal translator error on %s: %s: %s" % (target, type(e).__name__, e))
        models[profile] = Model(key, target, profile, tr, res)
    return models


# =====================================================================================================
# solvers: one long-lived process each, push/pop per query
# =====================================================================================================
class Solver:
    def __init__(self, name, argv):
        self.name, self.argv = name, argv
        self.p = subprocess.Popen(argv, stdin=subprocess.PIPE, stdout=subprocess.PIPE, stderr=subprocess.STDOUT, bufsize=0)
        self.buf = b""
        self.n = 0
        self.dead = None
        self.version = ""

    def _write(self, data):
        try:
            self.p.stdin.write(data)
            self.p.stdin.flush()
        except OSError as e:
            self.dead = "%s: write failed (%s)" % (self.name, e)

    def send(self, text):
        if self.dead:
            return
        data = text.encode() + b"\n"
        if len(data) > 32768:
            # a long script whose early commands already produce output (get-value batches): the solver blocks on its full stdout
            # pipe while we block on its stdin.  Write from a thread; roundtrip() reads meanwhile and returns only after the end
            # marker, i.e. after everything was consumed, so writes never interleave.
            threading.Thread(target=self._write, args=(data,), daemon=True).start()
        else:
            self._write(data)

    def roundtrip(self, text, timeout_s):
        """send commands, then an echo marker; -> output text up to the marker, or None (timeout / solver died)"""
        if self.dead:
            return None
        self.n += 1
        mark = "<<done-%d>>" % self.n
        self.send(text + '\n(echo "%s")' % mark)
        end = time.time() + timeout_s
        mb = mark.encode()
        while mb not in self.buf:
            left = end - time.time()
            if left <= 0 or self.dead:
                self.dead = self.dead or "%s: no answer within %ds" % (self.name, timeout_s)
                self.close()
                return None
            r, _, _ = select.select([self.p.stdout], [], [], min(left, 1.0))
            if r:
                chunk = os.read(self.p.stdout.fileno(), 65536)
                if not chunk:
                    self.dead = "%s: exited unexpectedly" % self.name
                    return None
                self.buf += chunk
        i = self.buf.index(mb)
        out = self.buf[:i].decode(errors="replace")
        rest = self.buf[i + len(mb):]
        self.buf = rest.lstrip(b'"').lstrip()
        return out.rstrip().rstrip('"').rstrip()

    def close(self):
        try:
            self.p.kill()
            self.p.wait()
        except OSError:
            pass


class Cvc5:
    """cvc5 as the second opinion.  Every question is a fresh, non-incremental process fed the prelude, all function
    definitions and the query: with --incremental cvc5 switches off the preprocessing that makes division/remainder
    obligations feasible (measured: 95 s / timeout incremental versus 0.05-5 s one-shot).  Two configurations are raced,
    plain bit-blasting and the integer translation (--solve-bv-as-int=sum); the first sat/unsat wins, a second answer that
    arrives within the grace period must agree."""
    CONFIGS = (("bitblast", []), ("bv-as-int", ["--solve-bv-as-int=sum"]))

    def __init__(self):
        self.name = "cvc5"
        self.preamble = ["(set-option :produce-models true)", "(set-logic QF_BV)"]
        self.dead = None
        self.version = ""

    def define(self, text):
        self.preamble.append(text)

    def run(self, text, timeout_s, race=True):
        """-> (stdout of the winning configuration or None on timeout, name of the configuration)"""
        full = "\n".join(self.preamble) + "\n" + text + "\n"
        if os.environ.get("MIRSMT_DUMP"):
            Cvc5._n = getattr(Cvc5, "_n", 0) + 1
            open(os.path.join(os.environ["MIRSMT_DUMP"], "cvc5-%03d.smt2" % Cvc5._n), "w").write(full)
        procs = []
        for cname, extra in (self.CONFIGS if race else self.CONFIGS[:1]):
            p = subprocess.Popen(["cvc5", "--lang", "smt2", "--produce-models", "--tlimit=%d" % int(timeout_s * 1000)] + extra,
                                 stdin=subprocess.PIPE, stdout=subprocess.PIPE, stderr=subprocess.STDOUT)
            try:
                p.stdin.write(full.encode())
                p.stdin.close()
            except OSError:
                pass
            procs.append([cname, p, b"", False])
        end = time.time() + timeout_s + 5
        winner, grace_end = None, None
        while True:
            live = [pr for pr in procs if not pr[3]]
            if not live or time.time() > end or (grace_end and time.time() > grace_end):
                break
            r, _, _ = select.select([pr[1].stdout for pr in live], [], [], 0.02 if grace_end else 0.5)
            for pr in live:
                if pr[1].stdout in r:
                    chunk = os.read(pr[1].stdout.fileno(), 65536)
                    if chunk:
                        pr[2] += chunk
                    else:
                        pr[3] = True
                        pr[1].wait()
                        first = pr[2].decode(errors="replace").strip().split("\n")[0].strip()
                        if first in ("sat", "unsat") and "(error" not in pr[2].decode(errors="replace"):
                            if winner is None:
                                winner, grace_end = pr, time.time() + 0.05
                            elif winner[2].decode(errors="replace").strip().split("\n")[0].strip() != first:
                                winner = ("disagree", None, ("(error \"cvc5 configurations disagree: %s says %s, %s says %s\")" % (
                                    winner[0], winner[2].decode().split("\n")[0], pr[0], first)).encode(), True)
        for pr in procs:
            if not pr[3]:
                try:
                    pr[1].kill()
                    pr[1].wait()
                except OSError:
                    pass
        if winner is not None:
            return winner[2].decode(errors="replace").strip(), winner[0]
        done = [pr for pr in procs if pr[3]]
        if done:  # nobody was definitive: report the most informative finished output (unknown / error)
            return done[0][2].decode(errors="replace").strip(), done[0][0]
        return None, "timeout"


Z3_CHECK = "(check-sat-using (try-for qfbv %d))" % QUERY_TIMEOUT_MS


def start_solvers():
    # z3: one process for the whole run, push/pop per query.  Queries are decided with the one-shot qfbv tactic
    # (check-sat-using works inside a push/pop scope) because z3's incremental core is 5-10x slower on the remainder queries.
    z3 = Solver("z3", ["z3", "-in", "-t:%d" % QUERY_TIMEOUT_MS])
    cvc5 = Cvc5()
    z3.send("(set-option :produce-models true)")
    for s, cmd in ((z3, ["z3", "--version"]), (cvc5, ["cvc5", "--version"])):
        try:
            s.version = subprocess.run(cmd, stdout=subprocess.PIPE, stderr=subprocess.STDOUT, text=True).stdout.split("\n")[0].strip()
        except OSError as e:
            s.dead = "%s not runnable: %s" % (s.name, e)
    return z3, cvc5


def parse_values(text):
    """`((a #x01) ((f x) true) ...)` -> [python int / bool] in order (values only)"""
    vals = []
    for m in re.finditer(r"(#x[0-9a-fA-F]+|#b[01]+|\(_ bv(\d+) \d+\)|\btrue\b|\bfalse\b)\s*\)", text):
        tok = m.group(1)
        if tok.startswith("#x"):
            vals.append(int(tok[2:], 16))
        elif tok.startswith("#b"):
            vals.append(int(tok[2:], 2))
        elif tok.startswith("(_ bv"):
            vals.append(int(m.group(2)))
        else:
            vals.append(tok == "true")
    return vals


def lit(v, w):
    if w == 0:
        return "true" if v else "false"
    v &= (1 << w) - 1
    return "#x%0*x" % (w // 4, v) if w % 4 == 0 else "#b" + format(v, "0%db" % w)


# =====================================================================================================
# native side: a generated dispatcher binary linked against the real crate, built in dev and release
# =====================================================================================================
def _pow2(lo, hi):
    return lambda rnd: 1 << rnd.randint(lo, hi)


LBD = "aeron_rs::concurrent::logbuffer::log_buffer_descriptor::"
# ring_buffer::{TAIL,HEAD_CACHE,HEAD}_POSITION_OFFSET (multiples of the cache line length of an external crate, so not foldable from
# the MIR); the native helper c06_claim() asserts these very numbers against the crate's constants, a difference fails the validation
RING_TRAILER = {"tail": 128, "head_cache": 256, "head": 384}
# key -> {"mir": path in the MIR dump, "inputs": [SMT input names in argument order] or None (= the fn parameters),
#         "call": rust expression over `a: &[i128]` yielding something `as i128`-castable, bool or (),
#         "domain": {input: generator(rnd)} restricting what the native side can be fed}
NATIVE = {
    "compute_position": {"path": LBD + "compute_position"},
    "compute_term_begin_position": {"path": LBD + "compute_term_begin_position"},
    "index_by_term": {"path": LBD + "index_by_term"},
    "index_by_term_count": {"path": LBD + "index_by_term_count"},
    "index_by_position": {"path": LBD + "index_by_position"},
    "term_id": {"path": LBD + "term_id"},
    "term_offset": {"path": LBD + "term_offset"},
    "next_partition_index": {"path": LBD + "next_partition_index"},
    "previous_partition_index": {"path": LBD + "previous_partition_index"},
    "align": {"path": "aeron_rs::utils::bit_utils::align"},
    "is_power_of_two": {"path": "aeron_rs::utils::bit_utils::is_power_of_two"},
    "number_of_trailing_zeroes": {"path": "aeron_rs::utils::bit_utils::number_of_trailing_zeroes"},
    # bounds_check only reads self.len; the region is never dereferenced, so a dangling slice of the wanted length will do
    "AtomicBuffer::bounds_check": {
        "inputs": ["idx", "len", "self.len"],
        "call": "{ let s = unsafe { std::slice::from_raw_parts_mut(std::ptr::NonNull::<u8>::dangling().as_ptr(), a[2] as usize) }; "
                "aeron_rs::concurrent::atomic_buffer::AtomicBuffer::wrap_slice(s).bounds_check(a[0] as i32, a[1] as i32); 0i128 }",
        "domain": {"self.len": lambda rnd: rnd.choice([0, 1, 8, 4096, (1 << 31) - 1, rnd.randint(0, (1 << 31) - 1)])},
    },
    # the public validate(): cursor is what the constructor read from the latest counter, tail intent is the word in the trailer
    "BroadcastReceiver::validate": {
        "inputs": ["self.capacity", "self.cursor", "mem.tail_intent_counter_index"],
        "call": "{ use aeron_rs::concurrent::atomic_buffer::{AlignedBuffer, AtomicBuffer}; "
                "use aeron_rs::concurrent::broadcast::{broadcast_buffer_descriptor as d, broadcast_receiver::BroadcastReceiver}; "
                "let cap = a[0] as i32; let al = AlignedBuffer::with_capacity(cap + d::TRAILER_LENGTH); let b = AtomicBuffer::from_aligned(&al); "
                "b.put::<i64>(cap + d::LATEST_COUNTER_OFFSET, a[1] as i64); b.put::<i64>(cap + d::TAIL_INTENT_COUNTER_OFFSET, a[2] as i64); "
                "let rx = BroadcastReceiver::new(b).unwrap(); let r = rx.validate(); drop(rx); r as i128 }",
        "domain": {"self.capacity": _pow2(3, 16)},
        # inputs of the SMT model that the native construction fixes itself (BroadcastReceiver::new computes the index)
        "derived": {"self.tail_intent_counter_index": lambda v: v["self.capacity"]},
    },
    # the private claim() reached through the public write() on a real ring whose head-cache / head / tail words are preset in the
    # trailer.  Single-threaded, so only the interleaving "both head reads see the same word, the CAS succeeds" can be realised:
    # the other model inputs are `derived`.  Several things are observable, each is compared with an SMT expression over the
    # model outputs ({o[...]}) and inputs ({i[...]}).
    "ManyToOneRingBuffer::claim": {
        "inputs": ["self.capacity", "required_capacity", "mem.head_cache_position", "mem.head_position", "mem.tail_position"],
        "call": "c06_claim(a, {what})",
        "gen": lambda rnd: _c06_vector(rnd),
        "derived": {"mem.head_position.2": lambda v: v["mem.head_position"], "call.compare_and_set_i64": lambda v: 1,
                    "self.tail_position": lambda v: v["self.capacity"] + RING_TRAILER["tail"],
                    "self.head_cache_position": lambda v: v["self.capacity"] + RING_TRAILER["head_cache"],
                    "self.head_position": lambda v: v["self.capacity"] + RING_TRAILER["head"]},
        "observe": [
            ("result", "i32", "(ite {o[retry]} #x00000003 (ite {o[ret.is.Ok]} #x00000000 (ite {o[ret.is.Err.InsufficientCapacity]} #x00000001 #x00000002)))"),
            ("tail", "i64", "(ite (and {o[calls.compare_and_set_i64]} {i[call.compare_and_set_i64]} (= {o[callarg.compare_and_set_i64.1]} {i[self.tail_position]}) "
                            "(= {o[callarg.compare_and_set_i64.2]} {i[mem.tail_position]})) {o[callarg.compare_and_set_i64.3]} {i[mem.tail_position]})"),
            ("head_cache", "i64", "(ite (and {o[calls.put_ordered.site2]} (= {o[callarg.put_ordered.site2.1]} {i[self.head_cache_position]})) {o[callarg.put_ordered.site2.2]} "
                                  "(ite (and {o[calls.put_ordered.site1]} (= {o[callarg.put_ordered.site1.1]} {i[self.head_cache_position]})) {o[callarg.put_ordered.site1.2]} "
                                  "{i[mem.head_cache_position]}))"),
            ("index", "i32", "(ite (and {o[ret.is.Ok]} (not {o[retry]})) {o[ret.Ok.0]} #xffffffff)"),
            # the 64-bit word left at the old tail index when the record itself went elsewhere (= the padding header), else 0
            # (also 0 when the record body [index, index + required) covers that slot: write() overwrites it afterwards)
            ("pad_word", "i64", "(ite (and {o[ret.is.Ok]} (not {o[retry]}) {o[calls.put_ordered.site3]} "
                                "(not (and (= {o[ret.Ok.0]} #x00000000) (bvslt (bvand ((_ extract 31 0) {i[mem.tail_position]}) (bvsub {i[self.capacity]} #x00000001)) {i[required_capacity]}))) "
                                "(not (= {o[ret.Ok.0]} (bvand ((_ extract 31 0) {i[mem.tail_position]}) (bvsub {i[self.capacity]} #x00000001)))) "
                                "(= {o[callarg.put_ordered.site3.1]} (bvand ((_ extract 31 0) {i[mem.tail_position]}) (bvsub {i[self.capacity]} #x00000001)))) "
                                "{o[callarg.put_ordered.site3.2]} #x0000000000000000)"),
        ],
    },
}


def _c06_vector(rnd):
    """joint generator for claim(): a ring in (or near) its invariant domain, plus wild words.  Only values the native side can take
    without leaving claim() broken in a way write() would trip over afterwards: capacity a power of two, tail and the required
    capacity multiples of 8, required <= capacity / 8 + 15 (else write() refuses the message before claiming)."""
    k = rnd.choice([3, 4, 5, 6, 10, 16, 20, rnd.randint(3, 20)])
    cap = 1 << k
    req = 8 * rnd.randint(1, (cap // 8 + 15) // 8)
    r = rnd.random()
    if r < 0.15:
        tail = rnd.choice([0, cap - 8, cap, 2 * cap - 8, (1 << 31) - 8, 1 << 31, (1 << 32) - 8, 1 << 32, (1 << 62) - 8, (1 << 63) - 8, -(1 << 63), -8])
    else:
        tail = rnd.randint(0, 1 << rnd.choice([8, 20, 31, 33, 62])) & ~7
        if rnd.random() < 0.5:
            tail = (tail & ~(cap - 1)) + cap - 8 * rnd.randint(0, min(cap // 8, req // 8 + 2))   # close to the end of the buffer
    r = rnd.random()
    if r < 0.7:
        head = tail - 8 * rnd.randint(0, cap // 8)
    elif r < 0.85:
        head = tail - rnd.randint(0, 2 * cap)
    else:
        head = rnd.choice([0, -8, tail + 8, tail - (1 << 31), tail - (1 << 32), -(1 << 63), (1 << 63) - 1, rnd.randint(-(1 << 63), (1 << 63) - 1)])
    r = rnd.random()
    if r < 0.4:
        hc = head
    elif r < 0.8:
        hc = head - 8 * rnd.randint(0, 4 * cap // 8)
    else:
        hc = rnd.choice([0, head - (1 << 31), head - (1 << 31) + 8, head - (1 << 32), tail + 8, rnd.randint(-(1 << 63), (1 << 63) - 1)])
    clamp = lambda x: max(-(1 << 63), min((1 << 63) - 1, x))
    return {"self.capacity": cap, "required_capacity": req, "mem.head_cache_position": clamp(hc), "mem.head_position": clamp(head),
            "mem.tail_position": clamp(tail)}


MAIN_RS = """// generated by /verif/lib/mirsmt.py - do not edit
use std::io::{self, BufRead, Write};
use std::panic;
fn run(f: &str, a: &[i128]) -> Option<i128> {
    Some(match f {
%s
        _ => return None,
    })
}
// ManyToOneRingBuffer::claim through the public write(): a = [capacity, required, head cache word, head word, tail word]
#[allow(dead_code)]
fn c06_claim(a: &[i128], what: u32) -> i128 {
    use aeron_rs::command::control_protocol_events::AeronCommand;
    use aeron_rs::concurrent::atomic_buffer::{AlignedBuffer, AtomicBuffer};
    use aeron_rs::concurrent::ring_buffer as rb;
    let (cap, req) = (a[0] as i32, a[1] as i32);
    assert!(rb::TAIL_POSITION_OFFSET == 128 && rb::HEAD_CACHE_POSITION_OFFSET == 256 && rb::HEAD_POSITION_OFFSET == 384);  // = RING_TRAILER
    let al = AlignedBuffer::with_capacity(cap + rb::TRAILER_LENGTH);
    let b = AtomicBuffer::from_aligned(&al);
    b.put::<i64>(cap + rb::HEAD_CACHE_POSITION_OFFSET, a[2] as i64);
    b.put::<i64>(cap + rb::HEAD_POSITION_OFFSET, a[3] as i64);
    b.put::<i64>(cap + rb::TAIL_POSITION_OFFSET, a[4] as i64);
    let ring = rb::ManyToOneRingBuffer::new(b).unwrap();
    let len = if req > 8 { req - 15 } else { 0 };   // the shortest message whose aligned record length is `req`
    let src_al = AlignedBuffer::with_capacity(std::cmp::max(len, 8));
    let src = AtomicBuffer::from_aligned(&src_al);
    let r = panic::catch_unwind(panic::AssertUnwindSafe(|| ring.write(AeronCommand::AddPublication, src, 0, len)));
    let ti = ((a[4] as i64) & ((cap - 1) as i64)) as i32;
    let is_record = |i: i32| (b.get::<i64>(i) >> 32) == AeronCommand::AddPublication as i64;
    let index: i32 = if is_record(ti) { ti } else if is_record(0) { 0 } else { -1 };
    let out: i128 = match what {
        0 => match &r { Ok(Ok(())) => 0, Ok(Err(rb::RingBufferError::InsufficientCapacity)) => 1, Ok(Err(_)) => 2, Err(_) => 4 },
        1 => b.get::<i64>(cap + rb::TAIL_POSITION_OFFSET) as i128,
        2 => b.get::<i64>(cap + rb::HEAD_CACHE_POSITION_OFFSET) as i128,
        3 => index as i128,
        _ => if index != ti && index >= 0 && !(index == 0 && ti < req) { b.get::<i64>(ti) as i128 } else { 0 },
    };
    if cap > (1 << 22) { std::mem::forget(al); }   // debug builds poison the whole region on drop: do not touch a gigabyte
    if let Err(e) = r { panic::resume_unwind(e); }
    out
}
fn main() {
    panic::set_hook(Box::new(|_| {}));
    let stdin = io::stdin();
    let out = io::stdout();
    let mut out = out.lock();
    for line in stdin.lock().lines() {
        let line = line.unwrap();
        let mut it = line.split_whitespace();
        let f = match it.next() { Some(f) => f.to_string(), None => continue };
        let a: Vec<i128> = it.map(|s| s.parse::<i128>().unwrap()).collect();
        match panic::catch_unwind(|| run(&f, &a)) {
            Ok(Some(v)) => writeln!(out, "ok {}", v).unwrap(),
            Ok(None) => writeln!(out, "unknown").unwrap(),
            Err(_) => writeln!(out, "panic").unwrap(),
        }
    }
}
"""


class Native:
    def __init__(self, prog):
        self.prog = prog
        self.entries = {}   # key -> {"inputs": [(name, ty)], "ret": ty}
        self.bins = {}
        self.info = {}
        self.error = None

    def _arms(self):
        arms = []
        for key, e in sorted(NATIVE.items()):
            try:
                target = self.prog.resolve(e.get("mir", key))
            except Unsupported:
                target = None
            if target is None:
                continue
            f = self.prog.fn(target)
            if "observe" in e:
                self.entries[key] = {"inputs": e["inputs"], "ret": f.ret, "domain": e.get("domain", {}), "derived": e.get("derived", {}),
                                     "gen": e.get("gen"), "observe": e["observe"]}
                for k, (oname, _, _) in enumerate(e["observe"]):
                    arms.append('        "%s#%s" => %s,' % (key, oname, e["call"].replace("{what}", str(k))))
                continue
            if "call" in e:
                expr = e["call"]
                self.entries[key] = {"inputs": e["inputs"], "ret": f.ret, "domain": e.get("domain", {}), "derived": e.get("derived", {})}
            else:
                if any(ty_info(ty) is None for _, ty in f.params) or (ty_info(f.ret) is None and f.ret != "()"):
                    continue
                casts = ", ".join("a[%d] as %s" % (i, ty) if ty != "bool" else "a[%d] != 0" % i for i, (_, ty) in enumerate(f.params))
                expr = "%s(%s) as i128" % (e["path"], casts)
                self.entries[key] = {"inputs": [f.debug.get(l, l) for l, _ in f.params], "ret": f.ret, "domain": e.get("domain", {}),
                                     "derived": {}}
            arms.append('        "%s" => %s,' % (key, expr))
        return "\n".join(arms)

    def build(self):
        """(re)generate and build the dispatcher in both profiles; cached on the source hash + generated main.rs"""
        t0 = time.time()
        os.makedirs(os.path.join(NATIVE_DIR, "src"), exist_ok=True)
        lock = _flock(os.path.join(NATIVE_DIR, ".lock"))
        try:
            main = MAIN_RS % self._arms()
            toml = ('[package]\nname = "mirsmt_native"\nversion = "0.0.0"\nedition = "2021"\n\n[dependencies]\n'
                    'aeron-rs = { path = "%s" }\n\n[workspace]\n\n[profile.release]\nincremental = true\ncodegen-units = 16\n' % REPO)
            stamp = hashlib.sha256((source_hash() + main + toml).encode()).hexdigest()
            bins = {"checked": os.path.join(NATIVE_DIR, "target-dev", "debug", "mirsmt_native"),
                    "wrapping": os.path.join(NATIVE_DIR, "target-rel", "release", "mirsmt_native")}
            sp = os.path.join(NATIVE_DIR, "stamp")
            if os.path.exists(sp) and open(sp).read() == stamp and all(os.path.exists(b) for b in bins.values()):
                self.bins = bins
                self.info = {"cached": True, "seconds": round(time.time() - t0, 2)}
                return
            for path, text in ((os.path.join(NATIVE_DIR, "Cargo.toml"), toml), (os.path.join(NATIVE_DIR, "src", "main.rs"), main)):
                if not os.path.exists(path) or open(path).read() != text:
                    open(path, "w").write(text)
            shutil.copyfile(os.path.join(REPO, "Cargo.lock"), os.path.join(NATIVE_DIR, "Cargo.lock"))
            procs = []
            for prof, extra, td in (("checked", [], "target-dev"), ("wrapping", ["--release"], "target-rel")):
                env = dict(os.environ, CARGO_NET_OFFLINE="true", CARGO_TERM_COLOR="never", CARGO_TARGET_DIR=os.path.join(NATIVE_DIR, td))
                env.pop("RUSTFLAGS", None)
                log = open(os.path.join(NATIVE_DIR, "build-%s.log" % prof), "w")
                procs.append((prof, log, subprocess.Popen(["cargo", "build", "--offline", "-j", CARGO_JOBS] + extra, cwd=NATIVE_DIR, env=env,
                                                          stdout=log, stderr=subprocess.STDOUT)))
            for prof, log, p in procs:
                rc = p.wait()
                log.close()
                if rc != 0:
                    tail = open(os.path.join(NATIVE_DIR, "build-%s.log" % prof)).read()[-800:]
                    self.error = "native %s build failed (exit %d): %s" % (prof, rc, tail)
                    return
            open(sp, "w").write(stamp)
            self.bins = bins
            self.info = {"cached": False, "seconds": round(time.time() - t0, 1)}
        finally:
            lock.close()

    def run(self, profile, key, vectors):
        """vectors: [[signed python ints in entry input order]] -> [("ok", int) | ("panic",)]"""
        if self.error or not self.bins:
            raise Inconclusive(self.error or "native binaries not built")
        text = "".join("%s %s\n" % (key, " ".join(str(v) for v in vec)) for vec in vectors)
        lock = open(os.path.join(NATIVE_DIR, ".lock"), "a")
        fcntl.flock(lock, fcntl.LOCK_SH)   # not while another check process is relinking the binaries
        try:
            p = subprocess.run([self.bins[profile]], input=text, stdout=subprocess.PIPE, stderr=subprocess.PIPE, text=True, timeout=120)
        finally:
            lock.close()
        lines = p.stdout.split("\n")[:-1]
        if p.returncode != 0 or len(lines) != len(vectors):
            raise Inconclusive("native runner (%s) exit %s, %d/%d answers: %s" % (profile, p.returncode, len(lines), len(vectors), p.stderr[-200:]))
        out = []
        for l in lines:
            if l == "panic":
                out.append(("panic",))
            elif l.startswith("ok "):
                out.append(("ok", int(l[3:])))
            else:
                raise Inconclusive("native runner does not know %s" % key)
        return out


# =====================================================================================================
# session: translate, validate against native code, decide obligations, replay counterexamples
# =====================================================================================================
PRELUDE = """
(define-fun sx32 ((x (_ BitVec 32))) (_ BitVec 128) ((_ sign_extend 96) x))
(define-fun zx32 ((x (_ BitVec 32))) (_ BitVec 128) ((_ zero_extend 96) x))
(define-fun sx64 ((x (_ BitVec 64))) (_ BitVec 128) ((_ sign_extend 64) x))
(define-fun zx64 ((x (_ BitVec 64))) (_ BitVec 128) ((_ zero_extend 64) x))
(define-fun pow2 ((b (_ BitVec 32))) (_ BitVec 128) (bvshl (_ bv1 128) ((_ zero_extend 96) b)))
"""
EDGE = {32: [0, 1, -1, -(1 << 31), (1 << 31) - 1, 2, 3, 16, 30, 31, 32, 64, 65536, 1 << 30],
        64: [0, 1, -1, -(1 << 63), (1 << 63) - 1, 1 << 31, 1 << 32, (1 << 32) - 1, -(1 << 31), 1 << 62],
        0: [0, 1]}


def signed_of(v, ty):
    w, sg = ty_info(ty)
    if w == 0:
        return int(bool(v))
    return _s(v, w) if sg else v


class Instance:
    """a function application inside an obligation: `{name[ret]}` in the goal text expands to the SMT application"""

    def __init__(self, model, actual):
        self.model, self.actual = model, actual

    def __getitem__(self, out):
        return self.model.app(out, self.actual)


class Session:
    def __init__(self, prop, tier="quick"):
        self.prop, self.tier = prop, tier
        self.t0 = time.time()
        self.queries = 0
        self.nontrivial = 0
        self.inconclusive, self.violations, self.report, self.verdicts = [], [], [], []
        self.models = {}           # key -> {profile: Model}
        self.not_translated = {}   # key -> reason
        self.validation = {}
        self.rnd = random.Random(int(os.environ.get("VERIF_SEED", "0") or 0) + 17)
        self._vacuity = {}
        self.z3 = self.cvc5 = self.native = self.prog = None
        self.mir_info = {}
        try:
            _selftest_overflow()
            text, self.mir_info = dump_mir()
            self.prog = Program(text)
            self.z3, self.cvc5 = start_solvers()
            self.z3.send(PRELUDE)
            self.cvc5.define(PRELUDE)
            self.native = Native(self.prog)
            self.native.build()
            if self.native.error:
                self.inconclusive.append("E2: " + self.native.error)
        except Inconclusive as e:
            self.inconclusive.append("E2: %s" % e)

    # ---- functions ---------------------------------------------------------------------------------
    def function(self, key, mir=None, havoc=(), ignore=(), by_design=False, cut_back_edges=False, loop_carried=()):
        """translate + define in both solvers + validate natively.  Returns {profile: Model} or None.
        cut_back_edges=True admits loops: a back-edge ends the analysed path with outcome `retry` (ONE iteration, the first);
        every loop-carried local must be named in loop_carried, which is the module's statement that its obligations quantify over
        an arbitrary value of it at the loop head (see docs/MIRSMT.md, "Loops with the back-edges cut")."""
        if self.prog is None:
            return None
        try:
            ms = translate(self.prog, key, mir or key, havoc, ignore, cut_back_edges, loop_carried)
        except Unsupported as e:
            self.not_translated[key] = str(e)
            self.report.append("E2 %-44s NOT TRANSLATED: %s" % (key, e))
            if not by_design:
                self.inconclusive.append("E2: %s not translated: %s" % (key, e))
            return None
        self.models[key] = ms
        for m in ms.values():
            text = "\n".join(m.defs())
            out = self.z3.roundtrip(text, 30)
            if out is None or "(error" in out:
                self.inconclusive.append("E2: z3 rejected the definitions of %s[%s]: %s" % (key, m.profile, (out or self.z3.dead or "")[:200]))
                return None
            self.cvc5.define(text)
            if m.outputs["ub"][0] is not FALSE:
                self.inconclusive.append("E2: %s[%s] can reach an `unreachable` terminator (not modelled)" % (key, m.profile))
        self.validate(key)
        return ms

    def eval_outputs(self, solver, model, outs, vectors):
        """values of the defined SMT functions on concrete input vectors (unsigned ints), through the solver's get-value"""
        cmds, names = [], []
        for i, vec in enumerate(vectors):
            actual = {n: lit(v, w) for (n, w, _), v in zip(model.inputs, vec)}
            for o in outs:
                if isinstance(o, tuple):     # (label, rust type, template over {o[output]} / {i[input]}): an observable of a native entry
                    nm = "v!%d!obs!%s" % (i, o[0])
                    sort, text = sort_of(ty_info(o[1])[0]), o[2].format(o=Instance(model, actual), i=actual)
                else:
                    nm = "v!%d!%s" % (i, o)
                    sort, text = sort_of(model.outputs[o][0].w), model.app(o, actual)
                names.append(sym(nm))
                cmds.append("(define-fun %s () %s %s)" % (sym(nm), sort, text))
        cmds.append("(check-sat)")
        for i in range(0, len(names), 200):
            cmds.append("(get-value (%s))" % " ".join(names[i:i + 200]))
        if solver is self.z3:
            out = solver.roundtrip("(push)\n" + "\n".join(cmds) + "\n(pop)", 60)
        else:
            out, _ = solver.run("\n".join(cmds), 60, race=False)
        if out is None or "(error" in out or not out.startswith("sat"):
            raise Inconclusive("%s could not evaluate %s: %s" % (solver.name, model.key, (out or solver.dead or "")[:200]))
        vals = parse_values(out)
        if len(vals) != len(names):
            raise Inconclusive("%s returned %d values for %d terms" % (solver.name, len(vals), len(names)))
        k = len(outs)
        labels = [o[0] if isinstance(o, tuple) else o for o in outs]
        return [dict(zip(labels, vals[i * k:(i + 1) * k])) for i in range(len(vectors))]

    def vectors_for(self, key, model, n_random=64):
        ent = self.native.entries[key]
        types = {n: (w, ty) for n, w, ty in model.inputs}
        order = ent["inputs"]
        vecs = []
        if ent.get("gen"):                      # inputs are correlated (a data-structure invariant): whole vectors from one generator
            for _ in range(min(3 * n_random, 512)):
                d = ent["gen"](self.rnd)
                v = [d[n] for n in order]
                if v not in vecs:
                    vecs.append(v)
            return vecs

        def pick(n, edge_i=None):
            w, ty = types[n]
            gen = ent["domain"].get(n)
            if gen is not None:
                return gen(self.rnd)
            if edge_i is not None:
                return EDGE[w][edge_i % len(EDGE[w])]
            r = self.rnd.random()
            if w == 0:
                return self.rnd.randint(0, 1)
            if r < 0.25:
                return self.rnd.choice(EDGE[w])
            if r < 0.5:
                return self.rnd.randint(-70, 70)
            if r < 0.6:
                return self.rnd.choice([1, -1]) * (1 << self.rnd.randint(0, w - 2))
            return self.rnd.randint(-(1 << (w - 1)), (1 << (w - 1)) - 1)
        m = max(len(EDGE[types[n][0]]) for n in order) if order else 1
        for i in range(m):                      # every edge value in every position, others rotating through edges too
            for shift in range(len(order) or 1):
                vecs.append([pick(n, i + shift * j) for j, n in enumerate(order)])
        for _ in range(n_random):
            vecs.append([pick(n) for n in order])
        # clamp to the type's range (edge tables are signed)
        out = []
        for v in vecs:
            vv = []
            for n, x in zip(order, v):
                w, ty = types[n]
                vv.append(signed_of(x & ((1 << w) - 1) if w else x, ty))
            if vv not in out:
                out.append(vv)
        return out

    def validate(self, key):
        """SMT model (through both solvers' get-value) versus the natively compiled function, dev and release"""
        ms = self.models[key]
        if self.native is None or key not in self.native.entries:
            self.validation[key] = {"native": "skipped: no native entry (private function, or needs crate-internal state to call)"}
            self.report.append("E2 %-44s translated; native validation skipped (private / needs crate-internal state)" % key)
            return
        ent = self.native.entries[key]
        stats = {}
        try:
            for prof, m in ms.items():
                names = [n for n, _, _ in m.inputs]
                if sorted(names) != sorted(list(ent["inputs"]) + list(ent["derived"])):
                    raise Inconclusive("native entry inputs %s differ from translated inputs %s" % (ent["inputs"], names))
                vecs = self.vectors_for(key, m, 64 if self.tier == "quick" else 512)
                outs = ["panics"] + (["ret"] if "ret" in m.outputs else [])
                if ent.get("observe"):
                    self._validate_observed(key, prof, m, ent, vecs, stats)
                    continue
                unsigned = []
                for v in vecs:
                    d = dict(zip(ent["inputs"], v))
                    for dn, fn in ent["derived"].items():
                        d[dn] = fn(d)
                    unsigned.append([d[n] & ((1 << w) - 1) if w else d[n] for n, w, _ in m.inputs])
                nat = self.native.run(prof, key, vecs)
                panics = 0
                for solver in (self.z3, self.cvc5):
                    got = self.eval_outputs(solver, m, outs, unsigned)
                    for v, g, r in zip(vecs, got, nat):
                        exp_panic = r[0] == "panic"
                        bad = g["panics"] != exp_panic
                        if not bad and not exp_panic and "ret" in g:
                            bad = signed_of(g["ret"], m.outputs["ret"][1]) != r[1]
                        if bad:
                            raise Inconclusive("translator validation failed for %s[%s] on %s: %s says %s, native says %s" % (
                                key, prof, dict(zip(ent["inputs"], v)), solver.name, g, r))
                    panics = sum(1 for r in nat if r[0] == "panic")
                stats[prof] = {"vectors": len(vecs), "native_panics": panics}
            self.validation[key] = {"native": "ok", **stats}
            self.report.append("E2 %-44s translated; validated vs native dev+release on %d vectors (z3+cvc5 get-value)" % (
                key, stats["checked"]["vectors"]))
        except Inconclusive as e:
            self.validation[key] = {"native": "FAILED: %s" % e}
            self.inconclusive.append("E2: %s" % e)
            self.report.append("E2 %-44s VALIDATION FAILED: %s" % (key, e))

    def _observed_inputs(self, m, ent, v):
        """native argument vector (entry input order, signed) -> unsigned model input vector, filling in the `derived` inputs"""
        d = dict(zip(ent["inputs"], v))
        for dn, fn in ent["derived"].items():
            d[dn] = fn(d)
        return [d[n] & ((1 << w) - 1) if w else int(bool(d[n])) for n, w, _ in m.inputs]

    def _native_observe(self, prof, key, ent, vecs):
        """[{observable: value} or "panic"] per vector: one native run per observable of the entry"""
        per = [self.native.run(prof, "%s#%s" % (key, o[0]), vecs) for o in ent["observe"]]
        out = []
        for i in range(len(vecs)):
            rs = [p[i] for p in per]
            if any(r[0] == "panic" for r in rs):
                if not all(r[0] == "panic" for r in rs):
                    raise Inconclusive("native %s on %s: panics for some observables only" % (key, vecs[i]))
                out.append("panic")
            else:
                out.append({o[0]: r[1] for o, r in zip(ent["observe"], rs)})
        return out

    def _validate_observed(self, key, prof, m, ent, vecs, stats):
        nat = self._native_observe(prof, key, ent, vecs)
        unsigned = [self._observed_inputs(m, ent, v) for v in vecs]
        for solver in (self.z3, self.cvc5):
            got = self.eval_outputs(solver, m, ["panics"] + list(ent["observe"]), unsigned)
            for v, g, r in zip(vecs, got, nat):
                if g["panics"] != (r == "panic"):
                    bad = True
                elif r == "panic":
                    bad = False
                else:
                    bad = any(signed_of(g[o[0]], o[1]) != r[o[0]] for o in ent["observe"])
                if bad:
                    raise Inconclusive("translator validation failed for %s[%s] on %s: %s says %s, native says %s" % (
                        key, prof, dict(zip(ent["inputs"], v)), solver.name,
                        {k: (x if isinstance(x, bool) else signed_of(x, dict((o[0], o[1]) for o in ent["observe"])[k])) for k, x in g.items()}, r))
        stats[prof] = {"vectors": len(vecs), "native_panics": sum(1 for r in nat if r == "panic"),
                       "observables": [o[0] for o in ent["observe"]]}

    # ---- queries -----------------------------------------------------------------------------------
    def _ask(self, text, names):
        """z3: push, assert, decide with the qfbv tactic, read the model on sat, pop"""
        solver = self.z3
        t = time.time()
        out = solver.roundtrip("(push)\n%s\n%s" % (text, Z3_CHECK), QUERY_TIMEOUT_MS / 1000 + 15)
        verdict, model = "error", None
        if out is not None and "(error" not in out:
            last = out.strip().split("\n")[-1].strip() if out.strip() else ""
            if last in ("sat", "unsat", "unknown"):
                verdict = last
            if verdict == "sat" and names:
                mv = solver.roundtrip("(get-value (%s))" % " ".join(names), 30)
                vals = parse_values(mv) if mv is not None and "(error" not in mv else []
                if len(vals) != len(names):
                    verdict = "error"
                else:
                    model = dict(zip(names, vals))
        if out is None:
            verdict = "timeout"
        if not solver.dead:
            solver.roundtrip("(pop)", 10)
        return verdict, model, round(time.time() - t, 3), (out or solver.dead or "")[:200]

    def _ask_cvc5(self, text):
        t = time.time()
        out, cfg = self.cvc5.run(text + "\n(check-sat)", QUERY_TIMEOUT_MS / 1000)
        verdict = "timeout" if out is None else "error"
        if out is not None and "(error" not in out:
            first = out.strip().split("\n")[0].strip()
            if first in ("sat", "unsat", "unknown"):
                verdict = first
        return verdict, cfg, round(time.time() - t, 3), (out or "")[:200]

    def _model(self, key, prof):
        """model of a use: `key` in the profile under test, `key@profile` in the pinned profile"""
        k, _, pin = key.partition("@")
        return self.models[k][pin or prof]

    def check(self, name, decls, domain, goal, uses, profiles=PROFILES, what="", split=None, public_replay=None):
        """Obligation: for all values of `decls` [(name, width)] satisfying `domain` [smt bool texts], `goal` holds.
        `uses` = {placeholder: (function key, {input name: smt text})}; `{placeholder[out]}` in domain/goal expands to the
        application of that function's output in the profile being checked (`key@profile` pins a use to one profile, so that an
        obligation can relate the dev and the release model of a function).  Decided as sat(domain and not goal).
        split = (variable, [values]): cvc5 is asked one instance per literal value of that variable (it cannot cope with a
        symbolic shift amount next to a remainder); z3 decides the unsplit query.  All instances unsat <=> unsat."""
        for prof in profiles:
            q = "%s[%s]" % (name, prof)
            try:
                inst = {}
                for ph, (key, actual) in uses.items():
                    if key.partition("@")[0] not in self.models:
                        raise Inconclusive("function %s is not translated" % key)
                    # actual arguments may refer to outputs of uses listed before them: "{p[ret]}"
                    actual = {n: t.format(**inst) for n, t in actual.items()}
                    inst[ph] = Instance(self._model(key, prof), actual)
                dom = [d.format(**inst) for d in domain]
                g = goal.format(**inst)
            except Inconclusive as e:
                self.inconclusive.append("E2 %s: %s" % (q, e))
                self.verdicts.append({"query": q, "verdict": "inconclusive", "why": str(e)})
                continue
            names = [sym(n) for n, _ in decls]
            head = "\n".join("(declare-const %s %s)" % (sym(n), sort_of(w)) for n, w in decls)
            head += "\n" + "\n".join("(assert %s)" % d for d in dom)
            # witness terms for the replay: every use's inputs and outputs get a name so that get-value is on symbols only
            wit = []
            for ph, (key, actual) in uses.items():
                m = self._model(key, prof)
                key = key.partition("@")[0]
                for n, w, _ in m.inputs:
                    wit.append(("w!%s!in!%s" % (ph, n), w, inst[ph].actual[n]))
                for o in ("panics", "ret"):
                    if o in m.outputs:
                        wit.append(("w!%s!out!%s" % (ph, o), m.outputs[o][0].w, inst[ph][o]))
                ent = self.native.entries.get(key) if self.native else None
                for oname, oty, tmpl in (ent.get("observe") or []) if ent else []:
                    wit.append(("w!%s!obs!%s" % (ph, oname), ty_info(oty)[0], tmpl.format(o=inst[ph], i=inst[ph].actual)))
            wdefs = "\n".join("(define-fun %s () %s %s)" % (sym(n), sort_of(w), t) for n, w, t in wit)
            vkey = head
            if vkey not in self._vacuity:
                v, _, secs, raw = self._ask(head, [])
                self.queries += 1
                self._vacuity[vkey] = (v, secs)
            vac = self._vacuity[vkey][0]
            body = head + "\n" + wdefs + "\n(assert (not %s))" % g
            allnames = names + [sym(n) for n, _, _ in wit]
            if split is None:
                # cvc5 (fresh processes) decides the same text while z3 works on it: wall time = the slower of the two
                box = {}
                th = threading.Thread(target=lambda: box.update(r=self._ask_cvc5(body)))
                th.start()
                v1, model, s1, raw1 = self._ask(body, allnames)
                th.join()
                v2, cfg, s2, raw2 = box.get("r", ("error", "", 0.0, "cvc5 thread died"))
                self.queries += 2
            else:
                v1, model, s1, raw1 = self._ask(body, allnames)
                self.queries += 1
                sv, values = split
                sw = dict(decls)[sv]
                if v1 == "sat":
                    values = [x for x in values if x == model[sym(sv)]] or values
                v2, s2, raw2, cfg = "unsat", 0.0, "", ""
                for x in values:
                    inst_body = body.replace("(declare-const %s %s)" % (sym(sv), sort_of(sw)),
                                             "(define-fun %s () %s %s)" % (sym(sv), sort_of(sw), lit(x, sw)))
                    vx, cfg, sx, raw2 = self._ask_cvc5(inst_body)
                    self.queries += 1
                    s2 += sx
                    if vx != "unsat":
                        v2 = vx
                        break
                s2 = round(s2, 3)
            rec = {"query": q, "z3": v1, "z3_s": s1, "cvc5": v2, "cvc5_s": s2, "cvc5_config": cfg, "domain_satisfiable": vac}
            if split is not None:
                rec["cvc5_split"] = "%s in %s" % (split[0], list(split[1]))
            self.verdicts.append(rec)
            if vac != "sat":
                rec["verdict"] = "inconclusive"
                self.inconclusive.append("E2 %s: domain is not satisfiable (%s) - vacuous obligation" % (q, vac))
            elif v1 not in ("sat", "unsat") or v2 not in ("sat", "unsat"):
                rec["verdict"] = "inconclusive"
                self.inconclusive.append("E2 %s: no verdict (z3: %s %s; cvc5: %s %s)" % (q, v1, raw1 if v1 == "error" else "", v2, raw2 if v2 == "error" else ""))
            elif v1 != v2:
                rec["verdict"] = "inconclusive"
                self.inconclusive.append("E2 %s: solvers disagree (z3 %s, cvc5 %s)" % (q, v1, v2))
            elif v1 == "unsat":
                rec["verdict"] = "holds"
                self.nontrivial += 1
            else:
                self.nontrivial += 1
                self._counterexample(q, prof, decls, uses, model, what or name, rec, public_replay)
            self.report.append("E2 %-58s %-12s z3=%s %.2fs cvc5=%s %.2fs" % (q, rec["verdict"].upper(), v1, s1, v2, s2))

    def _public_replay(self, spec):
        """(test file, test name) in /verif/native: a scenario through the PUBLIC API whose failure confirms a counterexample of a
        private function that cannot be called natively.  Returns (confirmed, text)."""
        test_file, test_name = spec
        crate, tdir = os.path.join(VERIF, "native"), os.path.join(VERIF, "target", "native")
        if _TAG:
            # /verif/native depends on path "/repo"; for another tree (VERIF_REPO) test a copy of the crate that points at it
            crate, tdir = os.path.join(TARGET_ROOT, "native-src" + _TAG), os.path.join(TARGET_ROOT, "native" + _TAG)
            try:
                shutil.rmtree(crate, ignore_errors=True)
                shutil.copytree(os.path.join(VERIF, "native"), crate, ignore=shutil.ignore_patterns("target"))
                toml = open(os.path.join(crate, "Cargo.toml")).read()
                if 'path = "/repo"' not in toml:
                    return False, "public replay: /verif/native/Cargo.toml has no path = \"/repo\" dependency to redirect"
                open(os.path.join(crate, "Cargo.toml"), "w").write(toml.replace('path = "/repo"', 'path = "%s"' % os.path.realpath(REPO)))
            except OSError as e:
                return False, "public replay could not prepare the crate copy: %s" % e
        env = dict(os.environ, CARGO_NET_OFFLINE="true", CARGO_TARGET_DIR=tdir)
        outs = []
        failed = False
        for flag in ([], ["--release"]):
            cmd = ["cargo", "test", "--offline"] + flag + ["--test", test_file, test_name]
            try:
                p = subprocess.run(cmd, cwd=crate, env=env, stdout=subprocess.PIPE, stderr=subprocess.STDOUT, text=True, timeout=900)
            except (subprocess.TimeoutExpired, OSError) as e:
                return False, "public replay could not run: %s" % e
            if "test result: FAILED" in p.stdout:
                failed = True
                outs.append("%s: FAILED" % ("release" if flag else "dev"))
            elif "test result: ok" in p.stdout and "1 passed" in p.stdout:
                outs.append("%s: passed" % ("release" if flag else "dev"))
            else:
                return False, "public replay did not run the test (%s)" % p.stdout[-200:]
        return failed, "native test %s::%s -> %s" % (test_file, test_name, ", ".join(outs))

    def _counterexample(self, q, prof, decls, uses, model, what, rec, public_replay=None):
        """a sat answer is only a violation if the real, natively compiled function behaves as the model says"""
        vals = {n: model[sym(n)] for n, _ in decls}
        rec["model"] = {n: (("0x%x" % v) if not isinstance(v, bool) else v) for n, v in vals.items()}
        replays, problems = [], []
        for ph, (key, actual) in uses.items():
            m = self._model(key, prof)
            key, _, pin = key.partition("@")
            if pin and pin != prof:
                continue        # the pinned other-profile instance of the same call: replayed through the unpinned use
            ins = {n: model[sym("w!%s!in!%s" % (ph, n))] for n, _, _ in m.inputs}
            exp_panic = model[sym("w!%s!out!panics" % ph)]
            exp_ret = model.get(sym("w!%s!out!ret" % ph))
            sins = {n: signed_of(ins[n], ty) for n, _, ty in m.inputs}
            item = {"function": key, "inputs": sins, "predicted": "panic" if exp_panic else ("returns %s" % (
                signed_of(exp_ret, m.outputs["ret"][1]) if exp_ret is not None else "()"))}
            if self.native is None or key not in self.native.entries:
                problems.append("%s has no native entry (private / needs crate-internal state)" % key)
                replays.append(item)
                continue
            ent = self.native.entries[key]
            if ent.get("observe"):
                self._replay_observed(ph, key, prof, m, ent, model, sins, exp_panic, item, problems)
                replays.append(item)
                continue
            try:
                item["native"] = {}
                for p2 in PROFILES:
                    r = self.native.run(p2, key, [[sins[n] for n in ent["inputs"]]])[0]
                    item["native"][p2] = "panic" if r[0] == "panic" else "returns %d" % r[1]
                if item["native"][prof] != item["predicted"] and not (exp_ret is None and not exp_panic and item["native"][prof].startswith("returns")):
                    problems.append("%s: native %s build %s, model predicted %s" % (key, prof, item["native"][prof], item["predicted"]))
            except (Inconclusive, subprocess.TimeoutExpired, OSError) as e:
                problems.append("%s: native replay failed: %s" % (key, e))
            replays.append(item)
        rec["replay"] = replays
        if problems and public_replay and all("has no native entry" in pr for pr in problems):
            confirmed, text = self._public_replay(public_replay)
            replays.append({"public_api_replay": text})
            if confirmed:
                problems = []
            else:
                problems.append("public-API replay does not show the defect: " + text)
        if problems:
            rec["verdict"] = "inconclusive"
            self.inconclusive.append("E2 %s: solver counterexample %s NOT confirmed natively: %s" % (q, rec["model"], "; ".join(problems)))
        else:
            rec["verdict"] = "violated"
            self.violations.append({"query": q, "what": "%s [%s profile]; native replay: %s" % (what, prof, replays),
                                    "function": ", ".join(sorted(set(k.partition("@")[0] for k, _ in uses.values()))),
                                    "model": {"values": rec["model"], "replay": replays}})

    def _replay_observed(self, ph, key, prof, m, ent, model, sins, exp_panic, item, problems):
        """replay through a native entry that observes several effects of one call.  The native side realises only the inputs the
        entry lists; a counterexample whose `derived` inputs differ (another interleaving) cannot be reproduced single-threaded."""
        d = {n: sins[n] for n in ent["inputs"]}
        off = [dn for dn, fn in ent["derived"].items() if signed_of(fn(d) & ((1 << dict((n, w) for n, w, _ in m.inputs)[dn]) - 1)
                                                                   if dict((n, w) for n, w, _ in m.inputs)[dn] else fn(d),
                                                                   dict((n, ty) for n, _, ty in m.inputs)[dn]) != sins[dn]]
        pred = "panic" if exp_panic else {o[0]: signed_of(model[sym("w!%s!obs!%s" % (ph, o[0]))], o[1]) for o in ent["observe"]}
        item["predicted"] = pred
        if off:
            problems.append("%s: the counterexample needs %s, which the single-threaded native replay cannot realise" % (
                key, ", ".join("%s=%s" % (n, sins[n]) for n in off)))
            return
        try:
            item["native"] = {}
            for p2 in PROFILES:
                item["native"][p2] = self._native_observe(p2, key, ent, [[d[n] for n in ent["inputs"]]])[0]
            if item["native"][prof] != pred:
                problems.append("%s: native %s build observes %s, model predicted %s" % (key, prof, item["native"][prof], pred))
        except (Inconclusive, subprocess.TimeoutExpired, OSError) as e:
            problems.append("%s: native replay failed: %s" % (key, e))

    # ---- result ------------------------------------------------------------------------------------
    def finish(self, bounds=None, known=None):
        known_hits = []
        for v in list(self.violations):   # same matching rule as the driver applies to Kani checks
            for k in known or []:
                if k.get("property") == self.prop and k.get("status") == "known" and re.search(k.get("harness", ".*"), "E2:" + v["query"]) \
                        and re.search(k.get("description", ".*"), v["what"]):
                    known_hits.append({"known": k, "query": v["query"], "what": v["what"]})
                    self.violations.remove(v)
                    break
        for s in (self.z3, self.cvc5):
            if s is not None:
                if s.dead and not any(s.dead in i for i in self.inconclusive):
                    self.inconclusive.append("E2: " + s.dead)
                if hasattr(s, "close"):
                    s.close()
        fun = {}
        for key, ms in self.models.items():
            m = ms["checked"]
            fun[key] = {"mir": m.mir_name, "inputs": [n for n, _, _ in m.inputs], "outputs": sorted(m.outputs),
                        "inlined": m.inlined, "havoc": m.havoced, "ignored_effects": m.effects, "notes": m.notes,
                        "validation": self.validation.get(key)}
            if m.loops:
                fun[key]["loops_cut"] = m.loops
                fun[key]["loop_assumption"] = ("back-edges cut: ONE iteration (the first, from the function entry) is analysed; reaching a "
                                               "back-edge is the outcome `retry`; not a bound on any data loop's trip count")
        wall = round(time.time() - self.t0, 2)
        self.report.insert(0, "E2 mirsmt %s: %d functions translated, %d not translated, %d solver queries, %d obligations decided, wall %.1fs "
                              "(MIR %s, native %s)" % (self.prop, len(self.models), len(self.not_translated), self.queries, self.nontrivial, wall,
                                                       "cached" if self.mir_info.get("cached") else "dumped %ss" % self.mir_info.get("seconds"),
                                                       "cached" if self.native and self.native.info.get("cached") else
                                                       "built %ss" % (self.native.info.get("seconds") if self.native else "-")))
        return {"queries": self.queries, "nontrivial": self.nontrivial, "inconclusive": self.inconclusive, "violations": self.violations,
                "known_hits": known_hits, "report": self.report,
                "evidence": {"engine": "mirsmt: rustc nightly MIR (-C overflow-checks=on -C debug-assertions=off) -> SMT-LIB2 QF_BV",
                             "solvers": [self.z3.version if self.z3 else None, self.cvc5.version if self.cvc5 else None],
                             "profiles": list(PROFILES), "mir": self.mir_info, "native": self.native.info if self.native else None,
                             "functions": fun, "not_translated": self.not_translated, "bounds": bounds or {},
                             "verdicts": self.verdicts, "wall_s": wall}}
