"""C04 (E2): branch arithmetic of Publication / ExclusivePublication back_pressure_status and new_position at full width,
dev and release profile.  Callee results are free variables (is_connected, term_buffer_length) or ignored effects
(rotate_log, initialize_tail_with_term_id, set_active_term_count_ordered); specs are evaluated over 128-bit extensions."""
import mirsmt

# max_possible_position = term_length * 2^31 with term_length = 2^bits, bits in [16, 30]
MAXDEF = ["(bvuge bits #x00000010)", "(bvule bits #x0000001e)", "(= (sx64 maxp) (bvshl (pow2 bits) (_ bv31 128)))"]
BOUNDS = {"position": "[0, 2^62) for the iff; [0, max_possible_position] for the no-panic obligations", "message_length": "[0, 2^31)",
          "max_possible_position": "2^bits * 2^31, bits in [16, 30]", "term offsets": "[0, 2^bits]", "width": "full 32/64 bit",
          "callees": "is_connected / term_buffer_length free; rotate_log, initialize_tail_with_term_id, set_active_term_count_ordered ignored"}


def back_pressure(s, key):
    decls = [("pos", 64), ("len", 32), ("maxp", 64), ("bits", 32), ("conn", 0)]
    uses = {"f": (key, {"current_position": "pos", "message_length": "len", "self.max_possible_position": "maxp", "call.is_connected": "conn"})}
    dom = ["(bvule pos #x3fffffffffffffff)", "(bvule len #x7fffffff)"] + MAXDEF
    over = "(bvsge (bvadd (sx64 pos) (sx32 len)) (sx64 maxp))"
    s.check("%s: MaxPositionExceeded <=> pos + len >= max_possible_position; else by is_connected; no panic" % key, decls, dom,
            "(and (not {f[panics]}) (= {f[ret.is.MaxPositionExceeded]} %s) (= {f[ret.is.BackPressured]} (and (not %s) conn)) "
            "(= {f[ret.is.NotConnected]} (and (not %s) (not conn))))" % (over, over, over), uses,
            what="%s misclassifies the position limit" % key)
    s.check("%s: no panic for 0 <= pos <= max_possible_position" % key, decls,
            ["(bvsge pos #x0000000000000000)", "(bvsle pos maxp)", "(bvule len #x7fffffff)"] + MAXDEF, "(not {f[panics]})", uses,
            what="%s panics below the position limit" % key)


def run(tier, known):
    s = mirsmt.Session("C04", tier)
    for key in ("Publication::back_pressure_status", "ExclusivePublication::back_pressure_status"):
        if s.function(key, havoc=("is_connected",)):
            back_pressure(s, key)

    key = "Publication::new_position"
    if s.function(key, ignore=("rotate_log",)):
        decls = [("tc", 32), ("toff", 32), ("tid", 32), ("pos", 64), ("res", 32), ("maxp", 64), ("bits", 32)]
        uses = {"f": (key, {"term_count": "tc", "term_offset": "toff", "term_id": "tid", "position": "pos", "resulting_offset": "res",
                            "self.max_possible_position": "maxp"})}
        # position = term begin + term_offset, so position >= term_offset; offsets within a term of length 2^bits
        dom = ["(bvule (zx32 toff) (pow2 bits))", "(bvule (zx32 res) (pow2 bits))", "(bvsge pos #x0000000000000000)",
               "(bvsge (sx64 pos) (sx32 toff))", "(bvsle pos maxp)"] + MAXDEF
        newp = "(bvadd (bvsub (sx64 pos) (sx32 toff)) (sx32 res))"
        s.check("%s: resulting_offset > 0 => Ok(position - term_offset + resulting_offset), exact, no panic" % key, decls,
                dom + ["(bvsgt res #x00000000)"],
                "(and (not {f[panics]}) {f[ret.is.Ok]} (= (zx64 {f[ret.Ok.0]}) %s) (not {f[calls.rotate_log]}))" % newp, uses,
                what="Publication::new_position returns a wrong position",
                public_replay=("c04", "c04_shared_offer_flush_with_term_end_reports_position_after_message"))
        over = "(bvsgt (bvadd (sx64 pos) (sx32 toff)) (sx64 maxp))"
        s.check("%s: resulting_offset <= 0 => MaxPositionExceeded <=> position + term_offset > max, else rotate + AdminAction; no panic" % key,
                decls, dom + ["(bvsle res #x00000000)"],
                "(and (not {f[panics]}) (not {f[ret.is.Ok]}) (= {f[ret.is.Err.MaxPositionExceeded]} %s) (= {f[ret.is.Err.AdminAction]} (not %s)) "
                "(= {f[calls.rotate_log]} (not %s)) (not {f[ret.is.Err.UnknownCode]}))" % (over, over, over), uses,
                what="Publication::new_position misclassifies the end of the position range",
                public_replay=("c04", "c04_shared_last_term_trip_reports_max_position_exceeded"))

    key = "ExclusivePublication::new_position"
    if s.function(key, havoc=("term_buffer_length",), ignore=("initialize_tail_with_term_id", "set_active_term_count_ordered")):
        decls = [("res", 32), ("toff", 32), ("begin", 64), ("tlen", 32), ("maxp", 64), ("pidx", 32), ("tid", 32), ("init", 32), ("bits", 32)]
        uses = {"f": (key, {"resulting_offset": "res", "self.term_offset": "toff", "self.term_begin_position": "begin",
                            "call.term_buffer_length": "tlen", "self.max_possible_position": "maxp", "self.active_partition_index": "pidx",
                            "self.term_id": "tid", "self.initial_term_id": "init"})}
        dom = ["(= (zx32 tlen) (pow2 bits))", "(bvule (zx32 res) (pow2 bits))", "(bvsge begin #x0000000000000000)", "(bvsle begin maxp)",
               "(bvule pidx #x00000002)"] + MAXDEF
        s.check("%s: resulting_offset > 0 => Ok(term_begin_position + resulting_offset), term_offset updated, no panic" % key, decls,
                dom + ["(bvsgt res #x00000000)"],
                "(and (not {f[panics]}) {f[ret.is.Ok]} (= (sx64 {f[ret.Ok.0]}) (bvadd (sx64 begin) (sx32 res))) (= {f[post.self.term_offset]} res) "
                "(= {f[post.self.term_begin_position]} begin) (= {f[post.self.term_id]} tid))", uses,
                what="ExclusivePublication::new_position returns a wrong position",
                public_replay=("c04", "c04_exclusive_offer_flush_with_term_end_reports_position_after_message"))
        over = "(bvsge (bvadd (sx64 begin) (sx32 tlen)) (sx64 maxp))"
        s.check("%s: resulting_offset <= 0 => MaxPositionExceeded <=> term_begin_position + term_length >= max, else rotation; no panic" % key,
                decls, dom + ["(bvsle res #x00000000)"],
                "(and (not {f[panics]}) (not {f[ret.is.Ok]}) (= {f[ret.is.Err.MaxPositionExceeded]} %s) (= {f[ret.is.Err.AdminAction]} (not %s)) "
                "(=> %s (and (= {f[post.self.term_begin_position]} begin) (= {f[post.self.term_id]} tid) (= {f[post.self.active_partition_index]} pidx))) "
                "(=> (not %s) (and (= (sx64 {f[post.self.term_begin_position]}) (bvadd (sx64 begin) (sx32 tlen))) "
                "(= {f[post.self.term_id]} (bvadd tid #x00000001)) (= {f[post.self.term_offset]} #x00000000) "
                "(= {f[post.self.active_partition_index]} (ite (= pidx #x00000002) #x00000000 (bvadd pidx #x00000001))) "
                "{f[calls.set_active_term_count_ordered]} {f[calls.initialize_tail_with_term_id]})))" % (over, over, over, over), uses,
                what="ExclusivePublication::new_position mishandles the term rotation / position limit",
                public_replay=("c04", "c04_exclusive_last_term_trip_reports_max_position_exceeded"))
    return s.finish(bounds=BOUNDS, known=known)
