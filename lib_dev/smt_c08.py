"""C08 (E2): BroadcastReceiver::validate / do_validate against the 64-bit lap test `cursor + capacity > tail_intent`,
both profiles.  The tail-intent word read from the shared trailer is a free input ("any interference")."""
import mirsmt

DOM = ["(bvule cursor #x3fffffffffffffff)", "(bvule tail #x3fffffffffffffff)",
       "(bvuge cap #x00000008)", "(bvule cap #x40000000)", "(= (bvand cap (bvsub cap #x00000001)) #x00000000)"]
SPEC = "(bvsgt (bvadd (sx64 cursor) (sx32 cap)) (sx64 tail))"
BOUNDS = {"cursor": "[0, 2^62)", "tail_intent": "[0, 2^62)", "capacity": "powers of two in [8, 2^30]", "width": "full 64 bit",
          "memory": "tail intent counter = fresh symbolic i64 read; counter index unconstrained (accessor bounds check not modelled)"}


def run(tier, known):
    s = mirsmt.Session("C08", tier)
    decls = [("cursor", 64), ("tail", 64), ("cap", 32), ("tidx", 32)]
    goal = "(and (not {f[panics]}) (= {f[ret]} %s))" % SPEC
    what = "BroadcastReceiver lap detection differs from cursor + capacity > tail_intent (or panics)"
    if s.function("BroadcastReceiver::do_validate"):
        s.check("do_validate(cursor) <=> cursor + capacity > tail_intent, no panic", decls, DOM, goal,
                {"f": ("BroadcastReceiver::do_validate", {"cursor": "cursor", "self.capacity": "cap", "self.tail_intent_counter_index": "tidx",
                                                           "mem.tail_intent_counter_index": "tail"})}, what=what)
    if s.function("BroadcastReceiver::validate"):
        s.check("validate() <=> self.cursor + capacity > tail_intent, no panic", decls, DOM, goal,
                {"f": ("BroadcastReceiver::validate", {"self.cursor": "cursor", "self.capacity": "cap", "self.tail_intent_counter_index": "tidx",
                                                        "mem.tail_intent_counter_index": "tail"})}, what=what)
    return s.finish(bounds=BOUNDS, known=known)
