"""C16 (E2): AtomicBuffer::bounds_check at full i32 width in the dev (checked) and release (wrapping) profile.
The spec `0 <= idx and 0 <= len and idx + len <= cap` is evaluated over 128-bit sign extensions, so it cannot wrap."""
import mirsmt

SPEC = "(and (bvsge idx #x00000000) (bvsge len #x00000000) (bvsle (bvadd (sx32 idx) (sx32 len)) (sx32 cap)))"
BOUNDS = {"idx": "any i32", "len": "any i32", "self.len (cap)": "[0, 2^31)", "width": "full 32 bit"}


def run(tier, known):
    s = mirsmt.Session("C16", tier)
    s.function("AtomicBuffer::bounds_check")
    decls = [("idx", 32), ("len", 32), ("cap", 32)]
    uses = {"f": ("AtomicBuffer::bounds_check", {"idx": "idx", "len": "len", "self.len": "cap"})}
    s.check("bounds_check returns normally => 0 <= idx, 0 <= len, idx+len <= cap", decls, ["(bvule cap #x7fffffff)"],
            "(=> (not {f[panics]}) %s)" % SPEC, uses,
            what="AtomicBuffer::bounds_check accepts an access outside [0, capacity)")
    s.check("0 <= idx, 0 <= len, idx+len <= cap => bounds_check does not panic", decls, ["(bvule cap #x7fffffff)"],
            "(=> %s (not {f[panics]}))" % SPEC, uses,
            what="AtomicBuffer::bounds_check rejects a valid access")
    return s.finish(bounds=BOUNDS, known=known)
