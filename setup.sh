#!/bin/sh
# Offline setup: warm one Kani target dir (dependencies + crate) and clone it for the other properties.
set -e
cd "$(dirname "$0")"
export CARGO_NET_OFFLINE=true
mkdir -p target evidence replays
IDS=$(python3 -c "import json;print(' '.join(c['property_id'] for c in json.load(open('MANIFEST.json'))['checks']))")
first=""
for id in $IDS; do
  if [ -z "$first" ]; then
    first=$id
    if [ ! -d target/$id/kani ]; then
      (cd /repo && cargo kani --only-codegen --lib --no-assertion-reach-checks -Z stubbing -Z unstable-options --target-dir /verif/target/$id --harness "$(echo $id | tr A-Z a-z)_" >/dev/null 2>&1) || true
    fi
  elif [ ! -d target/$id/kani ] && [ -d target/$first/kani ]; then
    mkdir -p target/$id && cp -a target/$first/kani target/$id/kani
  fi
done
# native replay crate (ordinary cargo build of the repository as a dependency)
(cd native && CARGO_TARGET_DIR=/verif/target/native cargo build --offline --tests >/dev/null 2>&1) || true
echo "setup done"
