//! Shared native fixture: a real ClientConductor over in-memory buffers (as the repository's own unit tests build it).
#![allow(dead_code)]
use aeron_rs::client_conductor::ClientConductor;
use aeron_rs::concurrent::atomic_buffer::{AlignedBuffer, AtomicBuffer};
use aeron_rs::concurrent::broadcast::broadcast_buffer_descriptor;
use aeron_rs::concurrent::broadcast::broadcast_receiver::BroadcastReceiver;
use aeron_rs::concurrent::broadcast::copy_broadcast_receiver::CopyBroadcastReceiver;
use aeron_rs::concurrent::counters::CountersReader;
use aeron_rs::concurrent::ring_buffer::{self, ManyToOneRingBuffer};
use aeron_rs::driver_proxy::DriverProxy;
use aeron_rs::utils::errors::AeronError;
use aeron_rs::utils::misc::unix_time_ms;
use std::ffi::CString;
use std::sync::{Arc, Mutex};

fn on_new_publication_handler(_channel: CString, _stream_id: i32, _session_id: i32, _correlation_id: i64) {}
fn on_new_subscription_handler(_channel: CString, _stream_id: i32, _correlation_id: i64) {}
fn error_handler(_err: AeronError) {}
fn on_counter_handler(_counters_reader: &CountersReader, _registration_id: i64, _counter_id: i32) {}
fn on_close_client_handler() {}

pub struct Fixture {
    pub to_driver: AlignedBuffer,
    pub to_clients: AlignedBuffer,
    pub counter_metadata: AlignedBuffer,
    pub counter_values: AlignedBuffer,
    pub ring: Arc<ManyToOneRingBuffer>,
    pub conductor: Arc<Mutex<ClientConductor>>,
}

pub fn fixture() -> Fixture {
    let to_driver = AlignedBuffer::with_capacity(1024 + ring_buffer::TRAILER_LENGTH);
    let to_clients = AlignedBuffer::with_capacity(1024 + broadcast_buffer_descriptor::TRAILER_LENGTH);
    let counter_metadata = AlignedBuffer::with_capacity(4 * 1024);
    let counter_values = AlignedBuffer::with_capacity(1024);
    let ring = Arc::new(ManyToOneRingBuffer::new(AtomicBuffer::from_aligned(&to_driver)).expect("ring"));
    let rx = Arc::new(Mutex::new(BroadcastReceiver::new(AtomicBuffer::from_aligned(&to_clients)).expect("rx")));
    let proxy = Arc::new(DriverProxy::new(ring.clone()));
    let copy_rx = Arc::new(Mutex::new(CopyBroadcastReceiver::new(rx)));
    let conductor = ClientConductor::new(
        unix_time_ms,
        proxy,
        copy_rx,
        AtomicBuffer::from_aligned(&counter_metadata),
        AtomicBuffer::from_aligned(&counter_values),
        Box::new(on_new_publication_handler),
        Box::new(on_new_publication_handler),
        Box::new(on_new_subscription_handler),
        Box::new(error_handler),
        Box::new(on_counter_handler),
        Box::new(on_counter_handler),
        Box::new(on_close_client_handler),
        10_000,
        5_000,
        5_000,
        false,
    );
    Fixture { to_driver, to_clients, counter_metadata, counter_values, ring, conductor }
}
