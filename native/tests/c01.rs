//! Native replay of the C01/C04 counterexample: an exclusive publication over a log handed over at term count 1.
mod common;
use aeron_rs::concurrent::atomic_buffer::{AlignedBuffer, AtomicBuffer};
use aeron_rs::concurrent::logbuffer::log_buffer_descriptor as lbd;
use aeron_rs::concurrent::position::{ReadablePosition, UnsafeBufferPosition};
use aeron_rs::exclusive_publication::ExclusivePublication;
use aeron_rs::utils::log_buffers::LogBuffers;
use std::ffi::CString;
use std::sync::Arc;

#[test]
fn c01_exclusive_publication_on_log_with_one_elapsed_term() {
    let fx = common::fixture();
    let t = lbd::TERM_MIN_LENGTH;
    let log = AlignedBuffer::with_capacity(3 * t + lbd::LOG_META_DATA_LENGTH);
    let lb = Arc::new(unsafe { LogBuffers::new(log.ptr(), log.len() as isize, t) });
    let meta = lb.atomic_buffer(lbd::LOG_META_DATA_SECTION_INDEX);
    let initial = 7;
    meta.put(*lbd::LOG_MTU_LENGTH_OFFSET, 4096);
    meta.put(*lbd::LOG_TERM_LENGTH_OFFSET, t);
    meta.put(*lbd::LOG_PAGE_SIZE_OFFSET, lbd::AERON_PAGE_MIN_SIZE);
    meta.put(*lbd::LOG_INITIAL_TERM_ID_OFFSET, initial);
    // the driver hands over a log in which one term has elapsed and 64 bytes of term 8 are used
    meta.put(*lbd::LOG_ACTIVE_TERM_COUNT_OFFSET, 1);
    meta.put::<i64>(*lbd::TERM_TAIL_COUNTER_OFFSET, ((initial + 1 - 2) as i64) << 32);
    meta.put::<i64>(*lbd::TERM_TAIL_COUNTER_OFFSET + 8, (((initial + 1) as i64) << 32) | 64);
    meta.put::<i64>(*lbd::TERM_TAIL_COUNTER_OFFSET + 16, ((initial + 1 - 1) as i64) << 32);
    let limit = UnsafeBufferPosition::new(AtomicBuffer::from_aligned(&fx.counter_values), 0);
    limit.set(i64::MAX);
    let mut p = ExclusivePublication::new(fx.conductor.clone(), CString::new("aeron:ipc").unwrap(), 1, 10, 200, limit, -1, lb.clone());
    assert_eq!(p.position().unwrap(), t as i64 + 64, "position right after construction must be 1 term + 64 bytes");
    let mut msg = [1u8; 8];
    let np = p.offer(AtomicBuffer::wrap_slice(&mut msg)).unwrap();
    assert_eq!(np, t as i64 + 64 + 64, "returned position must be the stream position just after the message");
    // the frame must be in partition 1 (term count 1), at offset 64
    assert_eq!(lb.atomic_buffer(1).get::<i32>(64), 40, "message frame must be appended to the active partition");
    std::mem::forget(p);
}
