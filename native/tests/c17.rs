//! Native replays of C17 counterexamples returned by the solver (dev and release profile).
use aeron_rs::concurrent::logbuffer::log_buffer_descriptor as lbd;

#[test]
fn c17_compute_position_wrapped_term_id() {
    // solver model: initial=1073741824 count=2147483647 bits=30 offset=1073741824
    let initial: i32 = 1073741824;
    let count: i32 = 2147483647;
    let term_id = initial.wrapping_add(count);
    let pos = lbd::compute_position(term_id, 1073741824, 30, initial);
    assert_eq!(pos, ((count as i64) << 30) + 1073741824);
}

#[test]
fn c17_term_begin_position_wrapped_term_id() {
    let initial: i32 = i32::MAX;
    let term_id = initial.wrapping_add(1);
    assert_eq!(lbd::compute_term_begin_position(term_id, 16, initial), 1 << 16);
}

#[test]
fn c17_index_by_term_wrapped_term_id() {
    let initial: i32 = i32::MAX - 1;
    let term_id = initial.wrapping_add(5);
    assert_eq!(lbd::index_by_term(initial, term_id), 5 % 3);
}
