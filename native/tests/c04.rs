//! Public-API replays for C04 obligations whose solver counterexamples concern private functions
//! (Publication / ExclusivePublication ::new_position): the end of the position space.
mod common;
use aeron_rs::concurrent::atomic_buffer::{AlignedBuffer, AtomicBuffer};
use aeron_rs::concurrent::logbuffer::log_buffer_descriptor as lbd;
use aeron_rs::concurrent::position::{ReadablePosition, UnsafeBufferPosition};
use aeron_rs::exclusive_publication::ExclusivePublication;
use aeron_rs::publication::Publication;
use aeron_rs::utils::errors::AeronError;
use aeron_rs::utils::log_buffers::LogBuffers;
use std::ffi::CString;
use std::sync::Arc;

/// a log handed over in its LAST term (term count 2^31 - 1) with 32 bytes left
fn last_term_log(log: &AlignedBuffer) -> Arc<LogBuffers> {
    let t = lbd::TERM_MIN_LENGTH;
    let lb = Arc::new(unsafe { LogBuffers::new(log.ptr(), log.len() as isize, t) });
    let meta = lb.atomic_buffer(lbd::LOG_META_DATA_SECTION_INDEX);
    let initial: i32 = 5;
    let count: i32 = i32::MAX;
    let term_id = initial.wrapping_add(count);
    meta.put(*lbd::LOG_MTU_LENGTH_OFFSET, 4096);
    meta.put(*lbd::LOG_TERM_LENGTH_OFFSET, t);
    meta.put(*lbd::LOG_PAGE_SIZE_OFFSET, lbd::AERON_PAGE_MIN_SIZE);
    meta.put(*lbd::LOG_INITIAL_TERM_ID_OFFSET, initial);
    meta.put(*lbd::LOG_ACTIVE_TERM_COUNT_OFFSET, count);
    let idx = (count as i64 % 3) as i32;
    meta.put::<i64>(*lbd::TERM_TAIL_COUNTER_OFFSET + idx * 8, ((term_id as i64) << 32) | (t - 32) as i64);
    meta.put::<i64>(*lbd::TERM_TAIL_COUNTER_OFFSET + ((idx + 1) % 3) * 8, (term_id.wrapping_sub(2) as i64) << 32);
    meta.put::<i64>(*lbd::TERM_TAIL_COUNTER_OFFSET + ((idx + 2) % 3) * 8, (term_id.wrapping_sub(1) as i64) << 32);
    lb
}

#[test]
fn c04_exclusive_last_term_trip_reports_max_position_exceeded() {
    let fx = common::fixture();
    let log = AlignedBuffer::with_capacity(3 * lbd::TERM_MIN_LENGTH + lbd::LOG_META_DATA_LENGTH);
    let lb = last_term_log(&log);
    let limit = UnsafeBufferPosition::new(AtomicBuffer::from_aligned(&fx.counter_values), 0);
    limit.set(i64::MAX);
    let mut p = ExclusivePublication::new(fx.conductor.clone(), CString::new("aeron:ipc").unwrap(), 1, 10, 200, limit, -1, lb.clone());
    let mut msg = [1u8; 100];
    let r = p.offer(AtomicBuffer::wrap_slice(&mut msg));
    assert!(matches!(r, Err(AeronError::MaxPositionExceeded)), "tripping the last term must report MaxPositionExceeded");
    let meta = lb.atomic_buffer(lbd::LOG_META_DATA_SECTION_INDEX);
    assert_eq!(meta.get::<i32>(*lbd::LOG_ACTIVE_TERM_COUNT_OFFSET), i32::MAX, "the stream must not advance past the maximum position");
    std::mem::forget(p);
}

#[test]
fn c04_shared_last_term_trip_reports_max_position_exceeded() {
    let fx = common::fixture();
    let log = AlignedBuffer::with_capacity(3 * lbd::TERM_MIN_LENGTH + lbd::LOG_META_DATA_LENGTH);
    let lb = last_term_log(&log);
    let limit = UnsafeBufferPosition::new(AtomicBuffer::from_aligned(&fx.counter_values), 0);
    limit.set(i64::MAX);
    let p = Publication::new(fx.conductor.clone(), CString::new("aeron:ipc").unwrap(), 1, 1, 10, 200, limit, -1, lb.clone());
    let mut msg = [1u8; 100];
    let r = p.offer(AtomicBuffer::wrap_slice(&mut msg));
    assert!(matches!(r, Err(AeronError::MaxPositionExceeded)), "tripping the last term must report MaxPositionExceeded");
    let meta = lb.atomic_buffer(lbd::LOG_META_DATA_SECTION_INDEX);
    assert_eq!(meta.get::<i32>(*lbd::LOG_ACTIVE_TERM_COUNT_OFFSET), i32::MAX, "the stream must not advance past the maximum position");
    std::mem::forget(p);
}

/// a log handed over with ONE elapsed term and `tail` bytes used in the active term
fn second_term_log(log: &AlignedBuffer, tail: i32) -> Arc<LogBuffers> {
    let t = lbd::TERM_MIN_LENGTH;
    let lb = Arc::new(unsafe { LogBuffers::new(log.ptr(), log.len() as isize, t) });
    let meta = lb.atomic_buffer(lbd::LOG_META_DATA_SECTION_INDEX);
    let initial: i32 = 5;
    meta.put(*lbd::LOG_MTU_LENGTH_OFFSET, 4096);
    meta.put(*lbd::LOG_TERM_LENGTH_OFFSET, t);
    meta.put(*lbd::LOG_PAGE_SIZE_OFFSET, lbd::AERON_PAGE_MIN_SIZE);
    meta.put(*lbd::LOG_INITIAL_TERM_ID_OFFSET, initial);
    meta.put(*lbd::LOG_ACTIVE_TERM_COUNT_OFFSET, 1);
    meta.put::<i64>(*lbd::TERM_TAIL_COUNTER_OFFSET + 8, (((initial + 1) as i64) << 32) | tail as i64);
    meta.put::<i64>(*lbd::TERM_TAIL_COUNTER_OFFSET + 16, ((initial - 1) as i64) << 32);
    meta.put::<i64>(*lbd::TERM_TAIL_COUNTER_OFFSET, (initial as i64) << 32);
    lb
}

#[test]
fn c04_exclusive_offer_flush_with_term_end_reports_position_after_message() {
    let fx = common::fixture();
    let t = lbd::TERM_MIN_LENGTH;
    let log = AlignedBuffer::with_capacity(3 * t + lbd::LOG_META_DATA_LENGTH);
    let lb = second_term_log(&log, t - 64);
    let limit = UnsafeBufferPosition::new(AtomicBuffer::from_aligned(&fx.counter_values), 0);
    limit.set(i64::MAX);
    let mut p = ExclusivePublication::new(fx.conductor.clone(), CString::new("aeron:ipc").unwrap(), 1, 10, 200, limit, -1, lb.clone());
    let mut msg = [1u8; 32];
    let r = p.offer(AtomicBuffer::wrap_slice(&mut msg)).expect("message fits the term exactly");
    assert_eq!(r, 2 * t as i64, "returned position must be the stream position just after the message");
    assert_eq!(p.position().unwrap(), 2 * t as i64);
    std::mem::forget(p);
}

#[test]
fn c04_shared_offer_flush_with_term_end_reports_position_after_message() {
    let fx = common::fixture();
    let t = lbd::TERM_MIN_LENGTH;
    let log = AlignedBuffer::with_capacity(3 * t + lbd::LOG_META_DATA_LENGTH);
    let lb = second_term_log(&log, t - 64);
    let limit = UnsafeBufferPosition::new(AtomicBuffer::from_aligned(&fx.counter_values), 0);
    limit.set(i64::MAX);
    let p = Publication::new(fx.conductor.clone(), CString::new("aeron:ipc").unwrap(), 1, 1, 10, 200, limit, -1, lb.clone());
    let mut msg = [1u8; 32];
    let r = p.offer(AtomicBuffer::wrap_slice(&mut msg)).expect("message fits the term exactly");
    assert_eq!(r as i64, 2 * t as i64, "returned position must be the stream position just after the message");
    std::mem::forget(p);
}
