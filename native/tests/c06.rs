//! C06 through the public API: `ManyToOneRingBuffer::write` (and with it the private `claim`) on a real ring whose head-cache,
//! head and tail words are preset in the trailer (the offsets are `pub const`s), judged by an independent spec in i128:
//!   used = tail - head;  tail_index = tail mod capacity;  wrap = required > capacity - tail_index;  padding = wrap ? capacity - tail_index : 0
//!   refused (InsufficientCapacity)  <=>  used + required + padding > capacity  or  (wrap and required > head mod capacity)
//!   accepted => tail' = tail + required + padding, record at (wrap ? 0 : tail_index), padding header (type -1, length padding) at
//!               tail_index iff wrap, tail' - head <= capacity, head cache' in {head cache, head}
//! These are the native counterparts of the E2 obligations of /verif/lib/smt_c06.py (single-threaded: both head loads see the same
//! word and the CAS succeeds); the literal cases at the end are the counterexamples the solver produced for two seeded defects.
use aeron_rs::command::control_protocol_events::AeronCommand;
use aeron_rs::concurrent::atomic_buffer::{AlignedBuffer, AtomicBuffer};
use aeron_rs::concurrent::ring_buffer::{
    ManyToOneRingBuffer, RingBufferError, HEAD_CACHE_POSITION_OFFSET, HEAD_POSITION_OFFSET, TAIL_POSITION_OFFSET, TRAILER_LENGTH,
};

/// one write() of a message whose aligned record length is `req` on a ring with the given words; panics with a description on
/// any deviation from the spec
fn check(cap: i32, req: i32, head_cache: i64, head: i64, tail: i64) {
    let ctx = format!("cap={cap} req={req} head_cache={head_cache} head={head} tail={tail}");
    let mem = AlignedBuffer::with_capacity(cap + TRAILER_LENGTH);
    let ab = AtomicBuffer::from_aligned(&mem);
    ab.put::<i64>(cap + HEAD_CACHE_POSITION_OFFSET, head_cache);
    ab.put::<i64>(cap + HEAD_POSITION_OFFSET, head);
    ab.put::<i64>(cap + TAIL_POSITION_OFFSET, tail);
    let rb = ManyToOneRingBuffer::new(ab).unwrap();
    let len = if req > 8 { req - 15 } else { 0 }; // shortest message with align(len + 8, 8) == req
    assert!(len <= rb.max_msg_len(), "{ctx}: test vector outside write()'s message length limit");
    let src_mem = AlignedBuffer::with_capacity(std::cmp::max(len, 8));
    let src = AtomicBuffer::from_aligned(&src_mem);
    let r = rb.write(AeronCommand::AddPublication, src, 0, len);
    let mem = std::mem::ManuallyDrop::new(mem); // debug builds poison the region on drop: not for a gigabyte that was never touched

    let (c, rq, t, h) = (cap as i128, req as i128, tail as i128, head as i128);
    let ti = t.rem_euclid(c);
    let wrap = rq > c - ti;
    let pad = if wrap { c - ti } else { 0 };
    let refuse = (t - h) + rq + pad > c || (wrap && rq > h.rem_euclid(c));
    let tail_after = ab.get::<i64>(cap + TAIL_POSITION_OFFSET) as i128;
    let cache_after = ab.get::<i64>(cap + HEAD_CACHE_POSITION_OFFSET);
    assert!(cache_after == head_cache || cache_after == head, "{ctx}: head cache became {cache_after}");
    match r {
        Err(RingBufferError::InsufficientCapacity) => {
            assert!(refuse, "{ctx}: refused although the record fits");
            assert_eq!(tail_after, t, "{ctx}: tail moved on a refusal");
        }
        Ok(()) => {
            assert!(!refuse, "{ctx}: accepted although the record does not fit");
            assert_eq!(tail_after, t + rq + pad, "{ctx}: wrong new tail");
            assert!(tail_after - h <= c, "{ctx}: producer passed consumer + capacity");
            let at = if wrap { 0 } else { ti as i32 };
            let rec = ab.get::<i64>(at);
            assert_eq!(rec, ((AeronCommand::AddPublication as i64) << 32) | (len + 8) as i64, "{ctx}: record header not at index {at}");
            if wrap {
                assert_eq!(ab.get::<i64>(ti as i32), (0xFFFF_FFFFi64 << 32) | pad as i64, "{ctx}: padding header wrong");
            }
        }
        Err(e) => panic!("{ctx}: unexpected error {e:?}"),
    }
    if cap <= (1 << 22) {
        drop(std::mem::ManuallyDrop::into_inner(mem));
    }
}

#[test]
fn c06_claim_matches_the_spec_on_a_grid_of_ring_states() {
    let mut seed: u64 = 0x9E37_79B9_7F4A_7C15;
    let mut rnd = |n: u64| {
        seed = seed.wrapping_mul(6364136223846793005).wrapping_add(1442695040888963407);
        (seed >> 33) % n
    };
    let mut n = 0;
    for k in [3, 4, 6, 7, 10, 16] {
        let cap: i32 = 1 << k;
        let max_req = (cap / 8 + 15) / 8 * 8;
        for base in [0i64, cap as i64, 5 * cap as i64, (1i64 << 31) - cap as i64, 1i64 << 32, (1i64 << 40) + 3 * cap as i64, (1i64 << 62) - 4 * cap as i64] {
            for _ in 0..60 {
                let req = 8 * (1 + rnd((max_req / 8) as u64) as i32);
                // tail indices near the end of the buffer (wrap cases) as often as anywhere else
                let ti = if rnd(2) == 0 { cap as i64 - 8 * rnd(std::cmp::min(cap as u64 / 8, req as u64 / 8 + 2) + 1) as i64 } else { 8 * rnd(cap as u64 / 8) as i64 };
                let tail = base + cap as i64 + ti;
                let used = 8 * rnd(cap as u64 / 8 + 1) as i64;
                let head = tail - used;
                let stale = if rnd(3) == 0 { 0 } else { 8 * rnd(4 * cap as u64 / 8) as i64 };
                let head_cache = std::cmp::max(0, head - stale);
                check(cap, req, head_cache, head, tail);
                n += 1;
            }
        }
    }
    assert!(n > 2000);
}

#[test]
fn c06_boundaries_of_refusal() {
    // capacity 128 (messages up to 16 bytes, records up to 24): exactly full, exactly fitting, one word too many
    check(128, 16, 128, 128, 256); // used 128: full
    check(128, 24, 128, 128, 232); // used 104, tail index 104: 24 bytes to the end, fits exactly without wrapping
    check(128, 24, 128, 128, 240); // used 112, tail index 112: would wrap, does not fit
    // wrap: tail index 120, required 16 > 8 to the end; the head index decides
    check(128, 16, 128, 128 + 16, 128 + 120); // head index 16: padding 8 + 16 at index 0 fits exactly
    check(128, 16, 128, 128 + 8, 128 + 120); // head index 8: does not fit
    // stale cache says full, fresh head says empty
    check(128, 16, 128, 256, 256);
}

#[test]
fn c06_wrap_with_head_beyond_the_first_lap() {
    // solver counterexamples for two seeded defects: `head_index = head as Index` after the fresh head load (a wrong refusal once
    // head >= 2^31 in its low word) and the padding dropped from the new tail
    check(0x2000_0000, 0x0122_2000, 0x1700_c002_e03d_7400, 0x1700_c002_ef64_0000, 0x1700_c002_fede_0000);
    check(0x4000_0000, 0x00bf_40a8, 0x2338_a5c5_20c8_c260, 0x2338_a5c5_2800_0000, 0x2338_a5c5_3f8a_3eb0);
    check(16, 16, 849_752, 849_752 + 8, 849_752 + 8); // tiny ring, many laps in: empty ring, tail index 0 after a lap
}
