//! Native replay of the C07 counterexamples (harnesses c07_unblock_wrapped_claim_at_end / c07_unblock_wrapped_padding_slot):
//! a producer claims space up to the end of the data area and dies before writing anything; a surviving producer has
//! already wrapped (producer index <= consumer index).  `unblock` must not turn the dead claim into a padding record
//! that reaches beyond the data area (into the trailer), and the consumer must never pass the producer.
//! The dead producer is emulated by the one shared-memory access it performed: the CAS on the tail counter, whose
//! offset (capacity + TAIL_POSITION_OFFSET) is public; everything else goes through write/read/unblock.
use aeron_rs::command::control_protocol_events::AeronCommand;
use aeron_rs::concurrent::atomic_buffer::{AlignedBuffer, AtomicBuffer};
use aeron_rs::concurrent::ring_buffer::{ManyToOneRingBuffer, HEAD_POSITION_OFFSET, TAIL_POSITION_OFFSET, TRAILER_LENGTH};

const CAP: i32 = 32;

struct Fixture {
    _mem: AlignedBuffer,
    _src_mem: AlignedBuffer,
    ab: AtomicBuffer,
    src: AtomicBuffer,
    rb: ManyToOneRingBuffer,
}

fn fixture() -> Fixture {
    let mem = AlignedBuffer::with_capacity(CAP + TRAILER_LENGTH);
    let ab = AtomicBuffer::from_aligned(&mem);
    ab.set_memory(0, ab.capacity(), 0);
    let src_mem = AlignedBuffer::with_capacity(64);
    let src = AtomicBuffer::from_aligned(&src_mem);
    src.set_memory(0, 64, 0x5a);
    let rb = ManyToOneRingBuffer::new(ab).unwrap();
    Fixture { _mem: mem, _src_mem: src_mem, ab, src, rb }
}

fn head(f: &Fixture) -> i64 {
    f.ab.get::<i64>(CAP + HEAD_POSITION_OFFSET)
}

fn tail(f: &Fixture) -> i64 {
    f.ab.get::<i64>(CAP + TAIL_POSITION_OFFSET)
}

fn check_after_unblock(f: &Fixture, consumer_index: i32, survivor: AeronCommand) {
    let tail_before = tail(f);
    let unblocked = f.rb.unblock();
    let padding_len = f.ab.get::<i32>(consumer_index);
    assert!(
        consumer_index + padding_len <= CAP,
        "unblock stored a padding record of length {} at index {} of a {}-byte data area: it reaches {} bytes into the trailer",
        padding_len,
        consumer_index,
        CAP,
        consumer_index + padding_len - CAP
    );
    let mut seen = Vec::new();
    let first = f.rb.read(|t, b| seen.push((t, b.capacity())), 10);
    if unblocked {
        assert!(first > 0 || head(f) > 0, "unblock reported success but the next read made no progress");
    }
    for _ in 0..3 {
        f.rb.read(|t, b| seen.push((t, b.capacity())), 10);
    }
    assert_eq!(tail(f), tail_before, "consumer-side operations moved the producer position");
    assert!(head(f) <= tail(f), "consumer position {} passed the producer position {}", head(f), tail(f));
    if unblocked {
        assert_eq!(seen, vec![(survivor, 0)], "the surviving producer's command must be delivered exactly once");
    } else {
        assert!(seen.is_empty(), "nothing can be delivered from behind a claim that is still blocking");
    }
}

/// Solver model of c07_unblock_wrapped_claim_at_end, lw = 0: consumer index 16, dead claim [16,32) all zero,
/// survivor's header-only record at [0,8), producer index 8.
#[test]
fn c07_unblock_dead_claim_reaching_the_end_of_the_data_area() {
    let f = fixture();
    // a 4-byte command occupies [0,16); the consumer reads it: head = tail = 16
    f.rb.write(AeronCommand::ClientKeepAlive, f.src, 0, 4).unwrap();
    assert_eq!(f.rb.read(|_, _| {}, 10), 1);
    assert_eq!((head(&f), tail(&f)), (16, 16));
    // a producer claims [16,32) - its CAS on the tail counter - and dies before writing anything
    assert!(f.ab.compare_and_set_i64(CAP + TAIL_POSITION_OFFSET, 16, 32));
    // a surviving producer writes a header-only command: it lands at [0,8) of the next lap
    f.rb.write(AeronCommand::AddCounter, f.src, 0, 0).unwrap();
    assert_eq!(tail(&f), 40);
    assert_eq!(f.rb.read(|_, _| {}, 10), 0, "the consumer is blocked by the dead claim");
    check_after_unblock(&f, 16, AeronCommand::AddCounter);
}

/// Solver model of c07_unblock_wrapped_padding_slot: consumer index 24; the dying producer claimed the wrap padding
/// slot [24,32) plus [0,16) and wrote nothing; the survivor's record sits at [16,24): producer index == consumer index.
#[test]
fn c07_unblock_dead_wrapped_claim_with_unwritten_padding_slot() {
    let f = fixture();
    f.rb.write(AeronCommand::ClientKeepAlive, f.src, 0, 4).unwrap(); // [0,16)
    f.rb.write(AeronCommand::ClientKeepAlive, f.src, 0, 0).unwrap(); // [16,24)
    assert_eq!(f.rb.read(|_, _| {}, 10), 2);
    assert_eq!((head(&f), tail(&f)), (24, 24));
    // dying producer: 16-byte record does not fit into [24,32): claims padding 8 + record 16, then stops
    assert!(f.ab.compare_and_set_i64(CAP + TAIL_POSITION_OFFSET, 24, 48));
    // survivor: header-only command at [16,24)
    f.rb.write(AeronCommand::AddCounter, f.src, 0, 0).unwrap();
    assert_eq!(tail(&f), 56);
    check_after_unblock(&f, 24, AeronCommand::AddCounter);
}
