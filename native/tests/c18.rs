//! Native replay of C18 counterexamples: vectored append must equal the contiguous append (twin logs).
use aeron_rs::concurrent::atomic_buffer::{AlignedBuffer, AtomicBuffer};
use aeron_rs::concurrent::logbuffer::header::HeaderWriter;
use aeron_rs::concurrent::logbuffer::term_appender::{default_reserved_value_supplier, TermAppender};

const T: i32 = 1024;

struct Log {
    term: AlignedBuffer,
    meta: AlignedBuffer,
    hdr: AlignedBuffer,
}

fn log() -> Log {
    Log { term: AlignedBuffer::with_capacity(T), meta: AlignedBuffer::with_capacity(4096), hdr: AlignedBuffer::with_capacity(32) }
}

fn run(len: usize, splits: &[usize], mtu_payload: i32) -> (Vec<u8>, Vec<u8>, Option<i32>, Option<i32>) {
    let mut src: Vec<u8> = (0..len).map(|i| (i as u8).wrapping_mul(7).wrapping_add(1)).collect();
    let (la, lb) = (log(), log());
    let term_id = 5;
    for l in [&la, &lb] {
        AtomicBuffer::from_aligned(&l.meta).put::<i64>(0, (term_id as i64) << 32);
    }
    let hw = HeaderWriter::new(AtomicBuffer::from_aligned(&la.hdr));
    let a = TermAppender::new(AtomicBuffer::from_aligned(&la.term), AtomicBuffer::from_aligned(&la.meta), 0);
    let mut b = TermAppender::new(AtomicBuffer::from_aligned(&lb.term), AtomicBuffer::from_aligned(&lb.meta), 0);
    let whole = AtomicBuffer::wrap_slice(&mut src);
    let mut bufs = Vec::new();
    let mut prev = 0;
    let p = src.as_mut_ptr();
    for &s in splits.iter().chain(std::iter::once(&len)) {
        bufs.push(AtomicBuffer::wrap_slice(unsafe { std::slice::from_raw_parts_mut(p.add(prev), s - prev) }));
        prev = s;
    }
    let (ra, rb);
    if len as i32 <= mtu_payload {
        ra = a.append_unfragmented_message(&hw, &whole, 0, len as i32, default_reserved_value_supplier, term_id).ok();
        rb = std::panic::catch_unwind(std::panic::AssertUnwindSafe(|| {
            b.append_unfragmented_message_bulk(&hw, bufs, len as i32, default_reserved_value_supplier, term_id).ok()
        }))
        .unwrap_or(None);
    } else {
        ra = a.append_fragmented_message(&hw, &whole, 0, len as i32, mtu_payload, default_reserved_value_supplier, term_id).ok();
        rb = std::panic::catch_unwind(std::panic::AssertUnwindSafe(|| {
            b.append_fragmented_message_bulk(&hw, bufs, len as i32, mtu_payload, default_reserved_value_supplier, term_id).ok()
        }))
        .unwrap_or(None);
    }
    (
        AtomicBuffer::from_aligned(&la.term).as_slice().to_vec(),
        AtomicBuffer::from_aligned(&lb.term).as_slice().to_vec(),
        ra,
        rb,
    )
}

#[test]
fn c18_unfragmented_one_buffer() {
    let (a, b, ra, rb) = run(17, &[], 64);
    assert_eq!(ra, rb);
    assert_eq!(a, b, "term bytes differ between contiguous and vectored append (one buffer, 17 bytes)");
}

#[test]
fn c18_unfragmented_two_buffers() {
    let (a, b, ra, rb) = run(40, &[13], 64);
    assert_eq!(ra, rb);
    assert_eq!(a, b, "term bytes differ between contiguous and vectored append (buffers of 13 + 27 bytes)");
}

#[test]
fn c18_fragmented_three_buffers() {
    let (a, b, ra, rb) = run(96, &[31, 65], 32);
    assert_eq!(ra, rb);
    assert_eq!(a, b, "term bytes differ between contiguous and vectored fragmented append (31 + 34 + 31 bytes, payload 32)");
}

#[test]
fn c18_fragmented_split_inside_first_fragment() {
    let (a, b, ra, rb) = run(40, &[13], 32);
    assert_eq!(ra, rb, "vectored fragmented append panicked or returned a different offset");
    assert_eq!(a, b);
}
