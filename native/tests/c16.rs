//! Native replays of C16 counterexamples: accessors must refuse (panic) instead of touching guard bytes.
use aeron_rs::concurrent::atomic_buffer::AtomicBuffer;

fn guarded() -> Box<[u8; 96]> {
    let mut a = Box::new([0u8; 96]);
    for (i, b) in a.iter_mut().enumerate() {
        *b = i as u8;
    }
    a
}

#[test]
#[should_panic]
fn c16_get_negative_offset_must_panic() {
    let mut a = guarded();
    let b = AtomicBuffer::wrap_slice(&mut a[32..64]);
    let v: i32 = b.get::<i32>(-4); // solver model: off = -4 reads the guard zone in front of the region
    println!("read guard bytes: {:#x}", v);
}

#[test]
#[should_panic]
fn c16_put_negative_offset_must_panic() {
    let mut a = guarded();
    let b = AtomicBuffer::wrap_slice(&mut a[32..64]);
    b.put::<u8>(-32, 0xEE); // solver model: off = -32 overwrites guard byte 0
}

#[test]
#[should_panic]
fn c16_set_memory_negative_offset_must_panic() {
    let mut a = guarded();
    let b = AtomicBuffer::wrap_slice(&mut a[32..64]);
    b.set_memory(-4, 1, 4);
}

#[test]
#[should_panic]
fn c16_view_negative_length_must_panic() {
    let mut a = guarded();
    let b = AtomicBuffer::wrap_slice(&mut a[32..64]);
    let v = b.view(0, -1);
    println!("view capacity {}", v.capacity());
}

#[test]
fn c16_put_string_without_length_stays_in_checked_range() {
    let mut a = guarded();
    let b = AtomicBuffer::wrap_slice(&mut a[32..64]);
    // 4 bytes at offset 28 is the last valid range of the 32-byte region; it must not spill into the guard zone
    let r = std::panic::catch_unwind(|| b.put_string_without_length(28, b"abcd"));
    let _ = r;
    assert_eq!(&a[64..68], &[64, 65, 66, 67], "guard bytes behind the region were overwritten");
}
