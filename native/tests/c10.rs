//! Native replay of the C10 counterexample: a broadcast overrun must be reported and the next duty cycle must still work.
mod common;
use aeron_rs::command::control_protocol_events::AeronCommand;
use aeron_rs::concurrent::agent_runner::Agent;
use aeron_rs::concurrent::atomic_buffer::{AlignedBuffer, AtomicBuffer};
use aeron_rs::concurrent::broadcast::broadcast_transmitter::BroadcastTransmitter;

#[test]
fn c10_duty_cycle_after_broadcast_overrun() {
    let fx = common::fixture();
    let mut tx = BroadcastTransmitter::new(AtomicBuffer::from_aligned(&fx.to_clients)).unwrap();
    let src = AlignedBuffer::with_capacity(64);
    let sb = AtomicBuffer::from_aligned(&src);
    // lap the 1024-byte broadcast buffer before the client's first duty cycle (40 x 72 bytes)
    for _ in 0..40 {
        tx.transmit(AeronCommand::ResponseOnOperationSuccess as i32, &sb, 0, 64).unwrap();
    }
    let mut c = fx.conductor.lock().unwrap();
    let first = c.do_work();
    assert!(first.is_err(), "being lapped must be reported by the duty cycle");
    tx.transmit(AeronCommand::ResponseOnOperationSuccess as i32, &sb, 0, 64).unwrap();
    let second = std::panic::catch_unwind(std::panic::AssertUnwindSafe(|| c.do_work()));
    assert!(second.is_ok(), "the duty cycle after a reported overrun panicked");
    assert!(second.unwrap().is_ok());
}
