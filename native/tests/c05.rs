//! Native replays of C05 counterexamples returned by the solver, through the public API only: a real ClientConductor
//! over in-memory driver buffers, a log file on disk (term length 64 KiB) announced with `on_available_image`, and
//! the Image the Subscription then owns.
use std::ffi::CString;
use std::io::Write;
use std::sync::atomic::{AtomicI32, Ordering};
use std::sync::{Arc, Mutex};

use aeron_rs::client_conductor::ClientConductor;
use aeron_rs::concurrent::atomic_buffer::{AlignedBuffer, AtomicBuffer};
use aeron_rs::concurrent::broadcast::broadcast_buffer_descriptor;
use aeron_rs::concurrent::broadcast::broadcast_receiver::BroadcastReceiver;
use aeron_rs::concurrent::broadcast::copy_broadcast_receiver::CopyBroadcastReceiver;
use aeron_rs::concurrent::counters::CountersReader;
use aeron_rs::concurrent::logbuffer::header::Header;
use aeron_rs::concurrent::logbuffer::{data_frame_header, log_buffer_descriptor as lbd};
use aeron_rs::concurrent::ring_buffer::{self, ManyToOneRingBuffer};
use aeron_rs::driver_listener_adapter::DriverListener;
use aeron_rs::driver_proxy::DriverProxy;
use aeron_rs::image::{ControlledPollAction, Image};
use aeron_rs::subscription::Subscription;
use aeron_rs::utils::errors::AeronError;
use aeron_rs::utils::misc::unix_time_ms;
use aeron_rs::utils::types::Index;

const T: i32 = 64 * 1024;
const LOG_LEN: usize = 3 * T as usize + 4096;
const POSITION_COUNTER_ID: i32 = 5;
const SESSION_ID: i32 = 200;
const INITIAL_TERM_ID: i32 = 7;

fn on_new_publication(_c: CString, _s: i32, _se: i32, _co: i64) {}
fn on_new_subscription(_c: CString, _s: i32, _co: i64) {}
fn on_error(e: AeronError) {
    println!("conductor error: {:?}", e)
}
fn on_counter(_r: &CountersReader, _reg: i64, _id: i32) {}
fn on_close() {}
fn on_image(_i: &Image) {}

#[allow(dead_code)]
struct Fixture {
    // drop order matters: the subscription's Drop sends a command through the conductor into the driver ring
    subscription: Arc<Mutex<Subscription>>,
    conductor: Arc<Mutex<ClientConductor>>,
    counters: AtomicBuffer,
    bufs: Vec<AlignedBuffer>,
}

fn put_i32(m: &mut [u8], at: usize, v: i32) {
    m[at..at + 4].copy_from_slice(&v.to_le_bytes());
}

/// (term offset, frame length) data frames, all committed, in the partition of `term_count`; subscriber position at
/// `term_count * T + start`.
fn fixture(tag: &str, term_count: i64, start: i32, frames: &[(i32, i32)]) -> Fixture {
    let to_driver = AlignedBuffer::with_capacity(1024 + ring_buffer::TRAILER_LENGTH);
    let to_clients = AlignedBuffer::with_capacity(1024 + broadcast_buffer_descriptor::TRAILER_LENGTH);
    let counter_metadata = AlignedBuffer::with_capacity(64 * 1024);
    let counter_values = AlignedBuffer::with_capacity(16 * 1024);
    let to_driver_buffer = AtomicBuffer::from_aligned(&to_driver);
    let to_clients_buffer = AtomicBuffer::from_aligned(&to_clients);
    let meta_buffer = AtomicBuffer::from_aligned(&counter_metadata);
    let values_buffer = AtomicBuffer::from_aligned(&counter_values);
    for b in [&to_driver_buffer, &to_clients_buffer, &meta_buffer, &values_buffer] {
        b.set_memory(0, b.capacity(), 0);
    }

    let ring = Arc::new(ManyToOneRingBuffer::new(to_driver_buffer).expect("ring"));
    let receiver = Arc::new(Mutex::new(BroadcastReceiver::new(to_clients_buffer).expect("receiver")));
    let proxy = Arc::new(DriverProxy::new(ring.clone()));
    let copy_receiver = Arc::new(Mutex::new(CopyBroadcastReceiver::new(receiver)));
    let conductor = ClientConductor::new(
        unix_time_ms,
        proxy,
        copy_receiver,
        meta_buffer,
        values_buffer,
        Box::new(on_new_publication),
        Box::new(on_new_publication),
        Box::new(on_new_subscription),
        Box::new(on_error),
        Box::new(on_counter),
        Box::new(on_counter),
        Box::new(on_close),
        10_000,
        5_000,
        5_000_000_000,
        false,
    );
    ring.set_consumer_heartbeat_time(unix_time_ms() as i64);

    // the log file the driver would have created
    let mut log = vec![0u8; LOG_LEN];
    let meta = 3 * T as usize;
    put_i32(&mut log, meta + *lbd::LOG_TERM_LENGTH_OFFSET as usize, T);
    put_i32(&mut log, meta + *lbd::LOG_PAGE_SIZE_OFFSET as usize, 4096);
    put_i32(&mut log, meta + *lbd::LOG_INITIAL_TERM_ID_OFFSET as usize, INITIAL_TERM_ID);
    let part = (term_count % 3) as usize * T as usize;
    for &(off, len) in frames {
        let at = part + off as usize;
        put_i32(&mut log, at, len);
        log[at + 5] = 0xC0;
        log[at + 6] = data_frame_header::HDR_TYPE_DATA as u8;
        put_i32(&mut log, at + 8, off);
        put_i32(&mut log, at + 12, SESSION_ID);
        put_i32(&mut log, at + 16, 10);
        put_i32(&mut log, at + 20, INITIAL_TERM_ID.wrapping_add(term_count as i32));
    }
    let path = format!("/tmp/verif-c05-{}-{}.logbuffer", tag, std::process::id());
    std::fs::File::create(&path).unwrap().write_all(&log).unwrap();

    let reg = conductor
        .lock()
        .unwrap()
        .add_subscription(CString::new("aeron:udp?endpoint=localhost:40123").unwrap(), 10, Box::new(on_image), Box::new(on_image))
        .unwrap();
    conductor.lock().unwrap().on_subscription_ready(reg, 2);
    let subscription = conductor.lock().unwrap().find_subscription(reg).expect("subscription");
    values_buffer.put::<i64>(CountersReader::counter_offset(POSITION_COUNTER_ID), term_count * T as i64 + start as i64);
    conductor.lock().unwrap().on_available_image(
        77,
        SESSION_ID,
        POSITION_COUNTER_ID,
        reg,
        CString::new(path.clone()).unwrap(),
        CString::new("127.0.0.1:43567").unwrap(),
    );
    let _ = std::fs::remove_file(&path);
    assert_eq!(subscription.lock().unwrap().image_count(), 1);
    Fixture { subscription, conductor, counters: values_buffer, bufs: vec![to_driver, to_clients, counter_metadata, counter_values] }
}

fn position(f: &Fixture) -> i64 {
    f.counters.get::<i64>(CountersReader::counter_offset(POSITION_COUNTER_ID))
}

/// solver model (c05_bounded_poll, layout with position bit 31 set, scaled to the 64 KiB term): the stream has
/// advanced 2^15 + 1 terms (position 2^31 + 65536), the caller's bound is position 0 - everything is at or after it.
#[test]
fn c05_bounded_poll_bound_far_behind_position_delivers_nothing() {
    let tc: i64 = (1 << 15) + 1;
    let f = fixture("bp", tc, 0, &[(0, 64), (64, 64)]);
    let before = position(&f);
    assert_eq!(before, (1i64 << 31) + 65536);
    let mut delivered = 0;
    let n = f.subscription.lock().unwrap().image_by_index(0).unwrap().bounded_poll(
        |_b: &AtomicBuffer, _o: Index, _l: Index, _h: &Header| delivered += 1,
        0,
        10,
    );
    assert_eq!((n, delivered), (0, 0), "fragments delivered although every frame starts after the position bound 0");
    assert_eq!(position(&f), before, "position moved past the bound");
}

#[test]
fn c05_bounded_controlled_poll_bound_far_behind_position_delivers_nothing() {
    let tc: i64 = (1 << 15) + 1;
    let f = fixture("bcp", tc, 0, &[(0, 64), (64, 64)]);
    let before = position(&f);
    let mut delivered = 0;
    let n = f.subscription.lock().unwrap().image_by_index(0).unwrap().bounded_controlled_poll(
        |_b: &AtomicBuffer, _o: Index, _l: Index, _h: &Header| {
            delivered += 1;
            Ok(ControlledPollAction::Continue)
        },
        1024,
        10,
    );
    assert_eq!((n, delivered), (0, 0), "fragments delivered although every frame starts after the position bound 1024");
    assert_eq!(position(&f), before, "position moved past the bound");
}

/// sanity: the same fixture with a bound just after the first frame delivers exactly that frame (the replay
/// harness itself is sound).
#[test]
fn c05_bounded_poll_bound_inside_term_sanity() {
    let tc: i64 = (1 << 15) + 1;
    let f = fixture("bps", tc, 0, &[(0, 64), (64, 64)]);
    let before = position(&f);
    let mut delivered = 0;
    let n = f.subscription.lock().unwrap().image_by_index(0).unwrap().bounded_poll(
        |_b: &AtomicBuffer, _o: Index, _l: Index, _h: &Header| delivered += 1,
        before + 64,
        10,
    );
    assert_eq!((n, delivered), (1, 1));
    assert_eq!(position(&f), before + 64);
}

static BLOCKS: AtomicI32 = AtomicI32::new(0);
fn block_handler(_b: &AtomicBuffer, _off: Index, len: Index, _session: i32, _term_id: i32) {
    BLOCKS.fetch_add(len, Ordering::SeqCst);
}

/// solver model (c05_block_poll): subscriber offset 64, block_length_limit = i32::MAX ("no limit"):
/// `term_offset + block_length_limit` overflows - panic in the dev profile, zero progress forever in release.
#[test]
fn c05_block_poll_unlimited_block_length_mid_term() {
    let f = fixture("blk", 1, 64, &[(64, 64), (128, 96)]);
    let before = position(&f);
    let n = f.subscription.lock().unwrap().image_by_index(0).unwrap().block_poll(block_handler, i32::MAX);
    assert_eq!(n, 160, "both committed frames fit below the limit");
    assert_eq!(BLOCKS.load(Ordering::SeqCst), 160);
    assert_eq!(position(&f), before + 160);
}
