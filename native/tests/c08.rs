//! Native replays of the C08 counterexamples returned by the solver (public API only).
//! The broadcast counters are 64-bit byte counts; a driver that has sent 2 GiB of events has counters >= 2^31.
use aeron_rs::command::control_protocol_events::AeronCommand;
use aeron_rs::concurrent::atomic_buffer::{AlignedBuffer, AtomicBuffer};
use aeron_rs::concurrent::broadcast::broadcast_receiver::BroadcastReceiver;
use aeron_rs::concurrent::broadcast::broadcast_transmitter::BroadcastTransmitter;
use aeron_rs::concurrent::broadcast::copy_broadcast_receiver::CopyBroadcastReceiver;
use aeron_rs::concurrent::broadcast::BroadcastTransmitError;
use std::sync::{Arc, Mutex};

const CAP: i32 = 64;
const EVENT: i32 = 0x0F03; // ResponseOnPublicationReady

/// A broadcast buffer in the idle state a driver leaves behind after `sent` bytes of traffic.
fn buffer_after(sent: i64) -> (AlignedBuffer, AtomicBuffer) {
    let owner = AlignedBuffer::with_capacity(CAP + 128);
    let b = AtomicBuffer::from_aligned(&owner);
    b.put::<i64>(CAP, sent); // tail intent
    b.put::<i64>(CAP + 8, sent); // tail
    b.put::<i64>(CAP + 16, sent); // latest
    (owner, b)
}

fn payload(v: u8) -> (AlignedBuffer, AtomicBuffer) {
    let owner = AlignedBuffer::with_capacity(8);
    let b = AtomicBuffer::from_aligned(&owner);
    b.put_bytes(0, &[v; 8]);
    (owner, b)
}

/// solver model (c08_validate_matches_64bit_lap_test / c08_single_transmit_any_tail_cap64):
/// capacity 64, cursor 2^31-64: `cursor as i32 + capacity` overflows (dev: panic, release: false "lapped").
#[test]
fn c08_event_received_when_counter_reaches_2_pow_31() {
    let res = std::panic::catch_unwind(|| {
        let (_o, b) = buffer_after((1i64 << 31) - 64);
        let mut tx = BroadcastTransmitter::new(b).unwrap();
        let rx = BroadcastReceiver::new(b).unwrap();
        let mut copy = CopyBroadcastReceiver::new(Arc::new(Mutex::new(rx)));
        let (_p, src) = payload(7);
        tx.transmit(EVENT, &src, 0, 8).unwrap();
        let mut seen = Vec::new();
        let r = copy.receive(|ty, buf, off, len| {
            seen.push((ty as i32, (0..len).map(|i| buf.get::<u8>(off + i)).collect::<Vec<u8>>()));
        });
        (r, seen)
    });
    let (r, seen) = res.expect("receive panicked although the receiver kept up (16 bytes behind on a 64-byte buffer)");
    assert_eq!(r, Ok(1), "the only transmitted event must be delivered without error");
    assert_eq!(seen, vec![(EVENT, vec![7u8; 8])]);
}

/// solver model: cursor 2^31-128, tail intent 2^31+16 (144 bytes ahead on a 64-byte buffer): the 32-bit comparison
/// says "not lapped" and an overwriting event is delivered without any loss report (dev and release alike).
#[test]
fn c08_overrun_across_2_pow_31_is_reported() {
    let (_o, b) = buffer_after((1i64 << 31) - 128);
    let mut tx = BroadcastTransmitter::new(b).unwrap();
    let rx = BroadcastReceiver::new(b).unwrap();
    let mut copy = CopyBroadcastReceiver::new(Arc::new(Mutex::new(rx)));
    for i in 0..9u8 {
        let (_p, src) = payload(i);
        tx.transmit(EVENT, &src, 0, 8).unwrap(); // 9 x 16 bytes = 144 > capacity: events 0..=4 are overwritten
    }
    let mut delivered: Vec<u8> = Vec::new();
    let r = copy.receive(|_ty, buf, off, _len| delivered.push(buf.get::<u8>(off)));
    assert_eq!(
        r,
        Err(BroadcastTransmitError::UnableToKeepUpWithBroadcastBuffer),
        "receiver was lapped (events 0..=4 lost) but got {:?}, delivered first byte {:?}",
        r,
        delivered
    );
    assert!(delivered.is_empty(), "nothing may be delivered before the loss is reported");
    // the loss report covers everything up to the tail; afterwards it resumes at the next event transmitted
    let r = copy.receive(|_ty, buf, off, _len| delivered.push(buf.get::<u8>(off)));
    assert_eq!(r, Ok(0));
    let (_p, src) = payload(9);
    tx.transmit(EVENT, &src, 0, 8).unwrap();
    let r = copy.receive(|ty, buf, off, len| {
        assert_eq!(ty as i32, EVENT);
        assert_eq!(len, 8);
        delivered.push(buf.get::<u8>(off));
    });
    assert_eq!(r, Ok(1));
    assert_eq!(delivered, vec![9u8], "resumes at a later valid event");
    let _ = AeronCommand::Padding;
}

// ---------------------------------------------------------------------------------------------------------------
// Interleavings found by the access-hook harnesses (c08_interference_*): the driver laps the receiver while the
// receiver is inside receive()/receive_next(). A native test cannot place a transmit between two loads of the
// receiver, so both parties run as free-running threads: the receiver is constantly about to be lapped, and every
// so often the transmitter overwrites the record between two of the receiver's loads - the schedule
// A[0..j) . B* . A[j..) of the harness. Payload bytes are chosen so that, read as a record header, they are a huge
// length / an unknown type.
// ---------------------------------------------------------------------------------------------------------------
use std::panic::{catch_unwind, AssertUnwindSafe};
use std::sync::atomic::{AtomicBool, Ordering};
use std::time::{Duration, Instant};

struct SendBuf(AtomicBuffer);
unsafe impl Send for SendBuf {}

/// Runs transmitter and copying receiver concurrently for at most `secs`; returns the first panic message out of receive().
fn race(payload: [u8; 8], secs: u64) -> Option<String> {
    let (_o, b) = buffer_after(0);
    let stop = Arc::new(AtomicBool::new(false));
    let txb = SendBuf(b);
    let stop_tx = stop.clone();
    let t = std::thread::spawn(move || {
        let txb = txb;
        let mut tx = BroadcastTransmitter::new(txb.0).unwrap();
        let owner = AlignedBuffer::with_capacity(8);
        let src = AtomicBuffer::from_aligned(&owner);
        src.put_bytes(0, &payload);
        let mut i = 0u32;
        while !stop_tx.load(Ordering::Relaxed) {
            // record sizes 16,16,8,...: headers and payloads land on every 8-byte slot over time
            let len = if i % 3 == 2 { 0 } else { 8 };
            tx.transmit(EVENT, &src, 0, len).unwrap();
            i = i.wrapping_add(1);
        }
    });
    let rx = BroadcastReceiver::new(b).unwrap();
    let mut copy = CopyBroadcastReceiver::new(Arc::new(Mutex::new(rx)));
    let started = Instant::now();
    let mut found = None;
    while started.elapsed() < Duration::from_secs(secs) {
        let mut hit = None;
        for _ in 0..10_000 {
            let r = catch_unwind(AssertUnwindSafe(|| copy.receive(|_ty, _buf, _off, _len| {})));
            if let Err(p) = r {
                let msg = p.downcast_ref::<String>().cloned().or_else(|| p.downcast_ref::<&str>().map(|s| s.to_string()));
                hit = Some(msg.unwrap_or_else(|| "panic".to_string()));
                break;
            }
        }
        if hit.is_some() {
            found = hit;
            break;
        }
    }
    stop.store(true, Ordering::Relaxed);
    t.join().unwrap();
    found
}

/// solver model (c08_interference_lapping_payload_over_header, interference between receive_next and type_id()):
/// payload bytes where the receiver expects a header: length 16, type 0x77 (no such protocol event).
#[test]
fn c08_lapped_during_receive_reports_loss_instead_of_panicking_on_unknown_type() {
    std::panic::set_hook(Box::new(|_| {}));
    let found = race([16, 0, 0, 0, 0x77, 0, 0, 0], 10);
    let _ = std::panic::take_hook();
    assert_eq!(found, None, "CopyBroadcastReceiver::receive panicked while being lapped");
}

/// same, payload read as header = length i32::MAX (dev: `align` / `length()` overflow, bounds check), type padding
#[test]
fn c08_lapped_during_receive_reports_loss_instead_of_panicking_on_garbage_length() {
    std::panic::set_hook(Box::new(|_| {}));
    let found = race([0xff, 0xff, 0xff, 0x7f, 0x03, 0x0f, 0, 0], 10);
    let _ = std::panic::take_hook();
    assert_eq!(found, None, "CopyBroadcastReceiver::receive panicked while being lapped");
}

/// Same race, checking content instead of panics: every transmitted event carries one byte value repeated 8 times
/// (values cycle), so a torn or misaligned delivery shows as unequal bytes / a wrong type / a wrong length.
#[test]
fn c08_race_delivers_only_intact_events() {
    let (_o, b) = buffer_after((1i64 << 31) - 4096); // the counters cross 2^31 during the run
    let stop = Arc::new(AtomicBool::new(false));
    let txb = SendBuf(b);
    let stop_tx = stop.clone();
    let t = std::thread::spawn(move || {
        let txb = txb;
        let mut tx = BroadcastTransmitter::new(txb.0).unwrap();
        let owner = AlignedBuffer::with_capacity(8);
        let src = AtomicBuffer::from_aligned(&owner);
        let mut i = 0u32;
        while !stop_tx.load(Ordering::Relaxed) {
            src.put_bytes(0, &[(i % 251) as u8; 8]);
            let len = if i % 3 == 2 { 0 } else { 8 };
            tx.transmit(EVENT, &src, 0, len).unwrap();
            i = i.wrapping_add(1);
        }
    });
    let rx = BroadcastReceiver::new(b).unwrap();
    let mut copy = CopyBroadcastReceiver::new(Arc::new(Mutex::new(rx)));
    let started = Instant::now();
    let mut bad: Option<String> = None;
    let (mut delivered, mut losses) = (0u64, 0u64);
    while started.elapsed() < Duration::from_secs(5) && bad.is_none() {
        for _ in 0..10_000 {
            let r = catch_unwind(AssertUnwindSafe(|| {
                copy.receive(|ty, buf, off, len| {
                    let bytes: Vec<u8> = (0..len).map(|i| buf.get::<u8>(off + i)).collect();
                    let ok = ty as i32 == EVENT && (len == 0 || len == 8) && bytes.iter().all(|x| *x == bytes[0]);
                    if !ok {
                        bad = Some(format!("torn delivery: type {:x} len {} bytes {:?}", ty as i32, len, bytes));
                    }
                })
            }));
            match r {
                Ok(Ok(n)) => delivered += n as u64,
                Ok(Err(BroadcastTransmitError::UnableToKeepUpWithBroadcastBuffer)) => losses += 1,
                Ok(Err(e)) => bad = Some(format!("unexpected error {:?}", e)),
                Err(_) => bad = Some("panic inside receive".to_string()),
            }
            if bad.is_some() {
                break;
            }
        }
    }
    stop.store(true, Ordering::Relaxed);
    t.join().unwrap();
    assert_eq!(bad, None, "after {} deliveries and {} loss reports", delivered, losses);
    assert!(delivered > 0 && losses > 0, "the race must exercise both outcomes ({} delivered, {} losses)", delivered, losses);
}
