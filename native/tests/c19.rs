//! Native confirmation of the C19 solver findings (public API only) and a supplementary build() -> parse() round trip.
//!
//! Findings of the setter frame-condition harnesses (/verif/kani/c19_builder.rs):
//!  * control_mode("manual") stored its argument in `prefix`          -> build() = "manual:aeron:udp", no control-mode
//!  * session_id(9) / tether(b) / group(b) stored into `term_id`      -> build() = "...term-id=9" / "term-id=1", and a
//!    term id that had been set is overwritten
//!  * prefix("bogus") is accepted (the OLD prefix was validated instead of the new one); afterwards build() yields a
//!    string ChannelUri::parse rejects, and every later prefix() call fails
//!  * build() prints the session id under `term-id` instead of `session-id` (found by reading; pinned here)
use aeron_rs::channel_uri::{self, ChannelUri};
use aeron_rs::channel_uri_string_builder::ChannelUriStringBuilder;

fn udp() -> ChannelUriStringBuilder {
    let mut b = ChannelUriStringBuilder::default();
    b.media(channel_uri::UDP_MEDIA).unwrap();
    b
}

/// Every setter, alone on a fresh udp builder, must print exactly its own `key=value` under Aeron's parameter name.
#[test]
fn c19_each_setter_emits_exactly_its_own_parameter() {
    type Set = fn(&mut ChannelUriStringBuilder);
    let table: Vec<(&str, Set, String)> = vec![
        ("endpoint", |b| { b.endpoint("h:1"); }, format!("{}=h:1", channel_uri::ENDPOINT_PARAM_NAME)),
        ("network_interface", |b| { b.network_interface("eth0"); }, format!("{}=eth0", channel_uri::INTERFACE_PARAM_NAME)),
        ("control_endpoint", |b| { b.control_endpoint("h:2"); }, format!("{}=h:2", channel_uri::MDC_CONTROL_PARAM_NAME)),
        ("control_mode manual", |b| { b.control_mode("manual").unwrap(); }, format!("{}=manual", channel_uri::MDC_CONTROL_MODE_PARAM_NAME)),
        ("control_mode dynamic", |b| { b.control_mode("dynamic").unwrap(); }, format!("{}=dynamic", channel_uri::MDC_CONTROL_MODE_PARAM_NAME)),
        ("tags", |b| { b.tags("1,2"); }, format!("{}=1,2", channel_uri::TAGS_PARAM_NAME)),
        ("alias", |b| { b.alias("al"); }, format!("{}=al", channel_uri::ALIAS_PARAM_NAME)),
        ("congestion_control", |b| { b.congestion_control("cubic"); }, format!("{}=cubic", channel_uri::CONGESTION_CONTROL_PARAM_NAME)),
        ("reliable", |b| { b.reliable(false); }, format!("{}=false", channel_uri::RELIABLE_STREAM_PARAM_NAME)),
        ("ttl", |b| { b.ttl(255); }, format!("{}=255", channel_uri::TTL_PARAM_NAME)),
        ("mtu", |b| { b.mtu(65504).unwrap(); }, format!("{}=65504", channel_uri::MTU_LENGTH_PARAM_NAME)),
        ("term_length", |b| { b.term_length(65536).unwrap(); }, format!("{}=65536", channel_uri::TERM_LENGTH_PARAM_NAME)),
        ("initial_term_id", |b| { b.initial_term_id(-3); }, format!("{}=-3", channel_uri::INITIAL_TERM_ID_PARAM_NAME)),
        ("term_id", |b| { b.term_id(i32::MIN); }, format!("{}=-2147483648", channel_uri::TERM_ID_PARAM_NAME)),
        ("term_offset", |b| { b.term_offset(1 << 30).unwrap(); }, format!("{}=1073741824", channel_uri::TERM_OFFSET_PARAM_NAME)),
        ("session_id", |b| { b.session_id(9); }, format!("{}=9", channel_uri::SESSION_ID_PARAM_NAME)),
        ("session_id tagged", |b| { b.is_session_tagged(true).session_id(9); }, format!("{}=tag:9", channel_uri::SESSION_ID_PARAM_NAME)),
        ("linger", |b| { b.linger(i64::MAX).unwrap(); }, format!("{}={}", channel_uri::LINGER_PARAM_NAME, i64::MAX)),
        ("sparse", |b| { b.sparse(true); }, format!("{}=true", channel_uri::SPARSE_PARAM_NAME)),
        ("eos", |b| { b.eos(false); }, format!("{}=false", channel_uri::EOS_PARAM_NAME)),
        ("tether", |b| { b.tether(true); }, format!("{}=true", channel_uri::TETHER_PARAM_NAME)),
        ("tether false", |b| { b.tether(false); }, format!("{}=false", channel_uri::TETHER_PARAM_NAME)),
        ("group", |b| { b.group(true); }, format!("{}=true", channel_uri::GROUP_PARAM_NAME)),
        ("rejoin", |b| { b.rejoin(true); }, format!("{}=true", channel_uri::REJOIN_PARAM_NAME)),
    ];
    let mut wrong = Vec::new();
    for (name, set, expect) in table {
        let mut b = udp();
        set(&mut b);
        let built = b.build();
        let want = format!("aeron:udp?{}", expect);
        if built != want {
            wrong.push(format!("{}: built {:?}, expected {:?}", name, built, want));
        }
    }
    assert!(wrong.is_empty(), "setters printing under the wrong parameter:\n  {}", wrong.join("\n  "));
}

/// Solver counterexample of c19_set_session_id / c19_set_tether / c19_set_group: `term_id` is overwritten.
#[test]
fn c19_session_id_tether_group_leave_term_id_alone() {
    let mut b = udp();
    b.term_id(7).session_id(9).tether(true).group(false);
    let built = b.build();
    assert_eq!(built, "aeron:udp?term-id=7|session-id=9|tether=true|group=false");
}

/// Solver counterexample of c19_set_control_mode: the prefix is overwritten, control-mode never appears.
#[test]
fn c19_control_mode_leaves_prefix_alone() {
    let mut b = udp();
    b.prefix(channel_uri::SPY_QUALIFIER).unwrap().control_mode("dynamic").unwrap();
    assert_eq!(b.build(), "aeron-spy:aeron:udp?control-mode=dynamic");
    assert!(udp().control_mode("automatic").is_err(), "control mode outside manual/dynamic must be refused");
}

/// Solver counterexample of c19_set_prefix: any text is accepted as prefix on a fresh builder.
#[test]
fn c19_prefix_validates_the_new_value() {
    let mut b = udp();
    assert!(b.prefix("bogus").is_err(), "prefix other than \"\" / aeron-spy must be refused");
    assert_eq!(b.build(), "aeron:udp", "a refused prefix must not be stored");
    // a legal prefix can be replaced by another legal prefix, in either direction
    b.prefix(channel_uri::SPY_QUALIFIER).unwrap().prefix("").unwrap().prefix(channel_uri::SPY_QUALIFIER).unwrap();
    assert_eq!(b.build(), "aeron-spy:aeron:udp");
    assert!(ChannelUri::parse(&b.build()).is_ok());
}

/// Refusals of the numeric setters keep the builder unchanged (native echo of the Err branch of the harnesses).
#[test]
fn c19_refused_values_change_nothing() {
    let mut b = udp();
    b.mtu(1408).unwrap().term_length(1 << 20).unwrap().term_offset(64).unwrap().linger(5).unwrap();
    let before = b.build();
    assert!(b.mtu(31).is_err() && b.mtu(65505).is_err() && b.mtu(1409).is_err());
    assert!(b.term_length(65535).is_err() && b.term_length(3 << 16).is_err() && b.term_length(i32::MIN).is_err());
    assert!(b.term_offset((1 << 30) + 32).is_err() && b.term_offset(33).is_err());
    assert!(b.linger(-1).is_err());
    assert!(b.media("tcp").is_err());
    assert_eq!(b.build(), before);
}

/// Supplementary (non-solver) evidence: everything set through the builder is read back by the parser, nothing else.
#[test]
fn c19_build_then_parse_reads_back_what_was_set() {
    for &(spy, media, mode, flag, tagged) in &[
        (true, "udp", "manual", true, false),
        (false, "udp", "dynamic", false, true),
        (false, "ipc", "manual", true, true),
    ] {
        let mut b = ChannelUriStringBuilder::default();
        if spy {
            b.prefix(channel_uri::SPY_QUALIFIER).unwrap();
        }
        b.media(media).unwrap();
        b.endpoint("224.10.9.8:777").network_interface("192.168.0.3").control_endpoint("10.0.0.1:9");
        b.control_mode(mode).unwrap();
        b.tags("3,4").alias("name").congestion_control("static").reliable(flag).ttl(16);
        b.mtu(8192).unwrap().term_length(1 << 24).unwrap();
        b.initial_term_id(-11).term_id(12).term_offset(4096).unwrap();
        b.is_session_tagged(tagged).session_id(-13).linger(14).unwrap();
        b.sparse(!flag).eos(flag).tether(!flag).group(flag).rejoin(!flag);
        let built = b.build();

        let parsed = ChannelUri::parse(&built).unwrap_or_else(|e| panic!("built string {:?} does not parse: {:?}", built, e));
        let uri = parsed.lock().unwrap();
        let t = |x: bool| if x { "true" } else { "false" }.to_string();
        let expect: Vec<(&str, String)> = vec![
            (channel_uri::ENDPOINT_PARAM_NAME, "224.10.9.8:777".into()),
            (channel_uri::INTERFACE_PARAM_NAME, "192.168.0.3".into()),
            (channel_uri::MDC_CONTROL_PARAM_NAME, "10.0.0.1:9".into()),
            (channel_uri::MDC_CONTROL_MODE_PARAM_NAME, mode.into()),
            (channel_uri::TAGS_PARAM_NAME, "3,4".into()),
            (channel_uri::ALIAS_PARAM_NAME, "name".into()),
            (channel_uri::CONGESTION_CONTROL_PARAM_NAME, "static".into()),
            (channel_uri::RELIABLE_STREAM_PARAM_NAME, t(flag)),
            (channel_uri::TTL_PARAM_NAME, "16".into()),
            (channel_uri::MTU_LENGTH_PARAM_NAME, "8192".into()),
            (channel_uri::TERM_LENGTH_PARAM_NAME, "16777216".into()),
            (channel_uri::INITIAL_TERM_ID_PARAM_NAME, "-11".into()),
            (channel_uri::TERM_ID_PARAM_NAME, "12".into()),
            (channel_uri::TERM_OFFSET_PARAM_NAME, "4096".into()),
            (channel_uri::SESSION_ID_PARAM_NAME, if tagged { "tag:-13".into() } else { "-13".into() }),
            (channel_uri::LINGER_PARAM_NAME, "14".into()),
            (channel_uri::SPARSE_PARAM_NAME, t(!flag)),
            (channel_uri::EOS_PARAM_NAME, t(flag)),
            (channel_uri::TETHER_PARAM_NAME, t(!flag)),
            (channel_uri::GROUP_PARAM_NAME, t(flag)),
            (channel_uri::REJOIN_PARAM_NAME, t(!flag)),
        ];
        assert_eq!(uri.prefix(), if spy { channel_uri::SPY_QUALIFIER } else { "" }, "prefix of {:?}", built);
        assert_eq!(uri.media(), media, "media of {:?}", built);
        for (k, v) in &expect {
            assert!(uri.contains_key(k), "{:?}: parameter {} missing", built, k);
            assert_eq!(uri.get(k), v, "{:?}: parameter {}", built, k);
        }
        // nothing besides the parameters that were set
        let printed = uri.to_string();
        let n_params = printed.split('?').nth(1).map(|q| q.split('|').count()).unwrap_or(0);
        assert_eq!(n_params, expect.len(), "{:?} carries parameters that were never set", built);
        // parse -> print -> parse is the identity on (prefix, media, parameters)
        let again = ChannelUri::parse(&printed).unwrap();
        let again = again.lock().unwrap();
        assert_eq!((again.prefix(), again.media()), (uri.prefix(), uri.media()));
        for (k, v) in &expect {
            assert_eq!(again.get(k), v);
        }
        // adding a session id changes only that parameter
        let with_sid = ChannelUri::add_session_id(&built, 99).unwrap();
        let with_sid = ChannelUri::parse(&with_sid).unwrap();
        let with_sid = with_sid.lock().unwrap();
        for (k, v) in &expect {
            if *k == channel_uri::SESSION_ID_PARAM_NAME {
                assert_eq!(with_sid.get(k), "99");
            } else {
                assert_eq!(with_sid.get(k), v);
            }
        }
    }
}
