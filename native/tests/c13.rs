//! Native replays of the C13 counterexamples (public API only): a request that cannot be encoded in the proxy's
//! command buffer must be rejected with Err and must leave the to-driver ring (tail + data) untouched — not panic.
//! The ring is the size a media driver would give (capacity 64 KiB => max message 8 KiB), so the only limit hit is the
//! proxy's own 512-byte command buffer.
//! Before the repair (DriverProxy::check_command_length): 5 of the 6 tests fail - every oversize call panics in
//! AtomicBuffer::bounds_check (`assertion failed: idx >= 0 && len >= 0 && ...`); only the "longest encodable" test passes.
//! Lengths are the solver's counterexamples: the first length past each command's fixed part + 512-byte buffer.
use aeron_rs::concurrent::atomic_buffer::{AlignedBuffer, AtomicBuffer};
use aeron_rs::concurrent::ring_buffer::ManyToOneRingBuffer;
use aeron_rs::driver_proxy::DriverProxy;
use std::ffi::CString;
use std::panic::{catch_unwind, AssertUnwindSafe};
use std::sync::Arc;

const CAP: i32 = 65536;
const TAIL: i32 = CAP + 128;

struct Rig {
    _mem: AlignedBuffer,
    ab: AtomicBuffer,
    proxy: DriverProxy,
}

fn rig() -> Rig {
    let mem = AlignedBuffer::with_capacity(CAP + 768);
    let ab = AtomicBuffer::from_aligned(&mem);
    ab.set_memory(0, CAP + 768, 0);
    let proxy = DriverProxy::new(Arc::new(ManyToOneRingBuffer::new(ab).unwrap()));
    Rig { _mem: mem, ab, proxy }
}

fn text(n: usize) -> CString {
    CString::new(vec![b'a'; n]).unwrap()
}

/// Some(true): returned Err; Some(false): returned Ok; None: panicked.
fn outcome<T, E>(f: impl FnOnce() -> Result<T, E>) -> Option<bool> {
    catch_unwind(AssertUnwindSafe(|| f().is_err())).ok()
}

fn ring_untouched(r: &Rig) {
    assert_eq!(r.ab.get::<i64>(TAIL), 0, "tail moved by a rejected request");
    for i in (0..1024).step_by(4) {
        assert_eq!(r.ab.get::<i32>(i), 0, "ring data written by a rejected request at {}", i);
    }
}

#[test]
fn c13_longest_encodable_requests_are_accepted() {
    let r = rig();
    assert_eq!(outcome(|| r.proxy.add_publication(text(488), 7)), Some(false));
    assert_eq!(outcome(|| r.proxy.add_exclusive_publication(text(488), 7)), Some(false));
    assert_eq!(outcome(|| r.proxy.add_subscription(text(480), 7)), Some(false));
    assert_eq!(outcome(|| r.proxy.add_destination(1, text(484))), Some(false));
    assert_eq!(outcome(|| r.proxy.add_counter(1, &[1u8; 112], text(372))), Some(false));
    assert_eq!(outcome(|| r.proxy.terminate_driver(&[1u8; 492])), Some(false));
}

#[test]
fn c13_add_publication_channel_489_is_an_error_not_a_panic() {
    let r = rig();
    assert_eq!(outcome(|| r.proxy.add_publication(text(489), 7)), Some(true), "add_publication(channel of 489 bytes) panicked or was accepted");
    ring_untouched(&r);
    assert_eq!(outcome(|| r.proxy.add_exclusive_publication(text(600), 7)), Some(true), "add_exclusive_publication(channel of 600 bytes)");
    ring_untouched(&r);
}

#[test]
fn c13_add_subscription_channel_481_is_an_error_not_a_panic() {
    let r = rig();
    assert_eq!(outcome(|| r.proxy.add_subscription(text(481), 7)), Some(true), "add_subscription(channel of 481 bytes) panicked or was accepted");
    ring_untouched(&r);
}

#[test]
fn c13_destination_channel_485_is_an_error_not_a_panic() {
    let r = rig();
    assert_eq!(outcome(|| r.proxy.add_destination(1, text(485))), Some(true), "add_destination(channel of 485 bytes)");
    assert_eq!(outcome(|| r.proxy.remove_destination(1, text(485))), Some(true), "remove_destination(channel of 485 bytes)");
    assert_eq!(outcome(|| r.proxy.add_rcv_destination(1, text(485))), Some(true), "add_rcv_destination(channel of 485 bytes)");
    assert_eq!(outcome(|| r.proxy.remove_rcv_destination(1, text(485))), Some(true), "remove_rcv_destination(channel of 485 bytes)");
    ring_untouched(&r);
}

#[test]
fn c13_add_counter_max_key_and_max_label_is_an_error_not_a_panic() {
    let r = rig();
    // both lengths are the legal maxima of the counters meta data (key 112, label 380): 24 + 112 + 4 + 380 = 520 > 512
    assert_eq!(outcome(|| r.proxy.add_counter(1, &[1u8; 112], text(380))), Some(true), "add_counter(key 112 B, label 380 B) panicked or was accepted");
    ring_untouched(&r);
    assert_eq!(outcome(|| r.proxy.add_counter(1, &[], text(485))), Some(true), "add_counter(no key, label 485 B)");
    ring_untouched(&r);
    assert_eq!(outcome(|| r.proxy.add_counter(1, &[1u8; 489], text(0))), Some(true), "add_counter(key 489 B)");
    ring_untouched(&r);
}

#[test]
fn c13_terminate_driver_token_493_is_an_error_not_a_panic() {
    let r = rig();
    assert_eq!(outcome(|| r.proxy.terminate_driver(&[1u8; 493])), Some(true), "terminate_driver(token of 493 bytes) panicked or was accepted");
    ring_untouched(&r);
}
