//! Native replay of the C14 counterexample (k = 23: the unavailable-counter event type).
use aeron_rs::command::control_protocol_events::AeronCommand;

#[test]
fn c14_unavailable_counter_code_roundtrip() {
    let v = AeronCommand::ResponseOnUnavailableCounter;
    assert_eq!(v as i32, 0x0F09, "code differs from the Aeron control protocol (ON_UNAVAILABLE_COUNTER = 0x0F09)");
    assert_eq!(AeronCommand::from_command_id(v as i32), v);
}
