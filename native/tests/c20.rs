//! Native companions of the C20 / C01-reassembly harnesses (/verif/kani/c20.rs), public API only.
//!
//! No defect of the property as stated was found by the solver, so there is no failing replay here. This file holds
//!  * supplementary concrete runs of reassembly scenarios that are too large for the solver in one piece (every scenario
//!    with more than three BufferBuilder appends: 18 M+ SAT variables), among them the full 3 + 2 fragment interleaving;
//!  * one observation OUTSIDE the property's quantifier (assembler configuration, not traffic): an initial buffer
//!    length of 1 (or 0) makes `BufferBuilder::find_suitable_capacity` spin forever on the first fragmented message
//!    (capacity + capacity/2 == capacity), and any initial length < 32 makes `ensure_capacity` copy `limit` = 32 bytes
//!    out of a smaller allocation. Same arithmetic as the C++ client's BufferBuilder; reported, not repaired.
use aeron_rs::concurrent::atomic_buffer::{AlignedBuffer, AtomicBuffer};
use aeron_rs::concurrent::logbuffer::header::Header;
use aeron_rs::fragment_assembler::FragmentAssembler;
use std::sync::mpsc;
use std::time::Duration;

const B: u8 = 0x80;
const M: u8 = 0x00;
const E: u8 = 0x40;
const U: u8 = 0xC0;

fn frame(term: &AtomicBuffer, off: i32, payload: &[u8], flags: u8, session: i32) {
    term.put::<i32>(off, 32 + payload.len() as i32);
    term.put::<u8>(off + 4, 0);
    term.put::<u8>(off + 5, flags);
    term.put::<u16>(off + 6, 1);
    term.put::<i32>(off + 8, off);
    term.put::<i32>(off + 12, session);
    term.put::<i32>(off + 16, 1001);
    term.put::<i32>(off + 20, 77);
    term.put_bytes(off + 32, payload);
}

/// (session, flags, payload) per frame in feed order -> (session, bytes) per delivery
fn run(init: Option<isize>, frames: &[(i32, u8, Vec<u8>)]) -> Vec<(i32, Vec<u8>)> {
    let mem_a = AlignedBuffer::with_capacity(1024);
    let mem_b = AlignedBuffer::with_capacity(1024);
    let (ta, tb) = (AtomicBuffer::from_aligned(&mem_a), AtomicBuffer::from_aligned(&mem_b));
    let mut out: Vec<(i32, Vec<u8>)> = Vec::new();
    {
        let mut delegate = |b: &AtomicBuffer, off: i32, len: i32, h: &Header| {
            let mut v = vec![0u8; len as usize];
            for (i, x) in v.iter_mut().enumerate() {
                *x = b.get::<u8>(off + i as i32);
            }
            out.push((h.session_id(), v));
        };
        let mut asm = FragmentAssembler::new(&mut delegate, init);
        let mut handler = asm.handler();
        let mut ha = Header::new(77, 1024);
        ha.set_buffer(ta);
        let mut hb = Header::new(77, 1024);
        hb.set_buffer(tb);
        let (mut oa, mut ob) = (0i32, 0i32);
        for (session, flags, payload) in frames {
            if *session == 5 {
                frame(&ta, oa, payload, *flags, 5);
                ha.set_offset(oa);
                handler(&ta, oa + 32, payload.len() as i32, &ha);
                oa += 64;
            } else {
                frame(&tb, ob, payload, *flags, 9);
                hb.set_offset(ob);
                handler(&tb, ob + 32, payload.len() as i32, &hb);
                ob += 64;
            }
        }
    }
    out
}

fn bytes(seed: u8, n: usize) -> Vec<u8> {
    (0..n).map(|i| seed.wrapping_mul(31).wrapping_add(i as u8)).collect()
}

#[test]
fn c20_native_two_sessions_every_interleaving_of_three_plus_two_fragments() {
    let a = [bytes(1, 32), bytes(2, 32), bytes(3, 7)];
    let b = [bytes(4, 32), bytes(5, 9)];
    let (fa, fb) = ([B, M, E], [B, E]);
    // all 10 interleavings of A A A with B B
    for mask in 0u32..32 {
        if mask.count_ones() != 2 {
            continue;
        }
        for init in [None, Some(32), Some(64)] {
            let (mut ia, mut ib) = (0, 0);
            let mut frames = Vec::new();
            for s in 0..5 {
                if mask & (1 << s) != 0 {
                    frames.push((9, fb[ib], b[ib].clone()));
                    ib += 1;
                } else {
                    frames.push((5, fa[ia], a[ia].clone()));
                    ia += 1;
                }
            }
            let got = run(init, &frames);
            let whole_a: Vec<u8> = a.concat();
            let whole_b: Vec<u8> = b.concat();
            assert_eq!(got.len(), 2, "mask {mask:05b}");
            let a_first = frames.iter().rposition(|f| f.0 == 5).unwrap() < frames.iter().rposition(|f| f.0 == 9).unwrap();
            let want = if a_first { vec![(5, whole_a), (9, whole_b)] } else { vec![(9, whole_b), (5, whole_a)] };
            assert_eq!(got, want, "mask {mask:05b} init {init:?}");
        }
    }
}

#[test]
fn c20_native_mid_message_join_and_restart() {
    // joined mid-message: E dropped, then B E delivered
    let got = run(None, &[(5, E, bytes(1, 32)), (5, B, bytes(2, 32)), (5, E, bytes(3, 7))]);
    assert_eq!(got, vec![(5, [bytes(2, 32), bytes(3, 7)].concat())]);
    // never started: M E dropped, U passed through
    let got = run(None, &[(5, M, bytes(1, 32)), (5, E, bytes(2, 32)), (5, U, bytes(3, 7))]);
    assert_eq!(got, vec![(5, bytes(3, 7))]);
    // a new BEGIN abandons the unfinished message
    let got = run(Some(32), &[(5, B, bytes(1, 32)), (5, B, bytes(2, 32)), (5, E, bytes(3, 7))]);
    assert_eq!(got, vec![(5, [bytes(2, 32), bytes(3, 7)].concat())]);
    // the other session joined mid-message and never starts
    let got = run(None, &[(9, M, bytes(7, 32)), (5, B, bytes(1, 32)), (9, E, bytes(8, 9)), (5, E, bytes(2, 32))]);
    assert_eq!(got, vec![(5, [bytes(1, 32), bytes(2, 32)].concat())]);
}

/// Observation outside the property's quantifier (see the file comment). The call is made on a helper thread; the
/// test documents that it does not return.
#[test]
fn c20_observation_initial_buffer_length_one_never_returns() {
    let (tx, rx) = mpsc::channel();
    std::thread::spawn(move || {
        let got = run(Some(1), &[(5, B, bytes(1, 32)), (5, E, bytes(2, 32))]);
        let _ = tx.send(got.len());
    });
    match rx.recv_timeout(Duration::from_secs(3)) {
        Err(mpsc::RecvTimeoutError::Timeout) => {} // observed: spins in BufferBuilder::find_suitable_capacity (1 + 1/2 == 1)
        other => panic!("the initial-length-1 assembler returned ({other:?}): the observation no longer holds, update the report"),
    }
}
