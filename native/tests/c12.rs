//! Native replay of the C12 counterexample: managed-resource check with a clock value smaller than the linger period.
mod common;

#[test]
fn c12_managed_resource_check_with_clock_below_linger_period() {
    let fx = common::fixture(); // resource linger timeout = 5000 ms
    let mut c = fx.conductor.lock().unwrap();
    c.linger_resource(10, Vec::new());
    // solver model: now < linger period (e.g. a monotonic clock that started at 0, or a very large linger period)
    let r = std::panic::catch_unwind(std::panic::AssertUnwindSafe(|| c.on_check_managed_resources(20)));
    assert!(r.is_ok(), "on_check_managed_resources panicked (now - linger underflows)");
}
