//! Native replay of the C15 counterexample: reader accessors must not panic for id == slot count.
use aeron_rs::concurrent::atomic_buffer::{AlignedBuffer, AtomicBuffer};
use aeron_rs::concurrent::counters::CountersReader;

#[test]
fn c15_reader_id_equal_to_slot_count_is_an_error_not_a_panic() {
    let meta = AlignedBuffer::with_capacity(2 * 512);
    let vals = AlignedBuffer::with_capacity(2 * 128);
    let r = CountersReader::new(AtomicBuffer::from_aligned(&meta), AtomicBuffer::from_aligned(&vals));
    assert_eq!(r.max_counter_id(), 2);
    let res = std::panic::catch_unwind(|| r.counter_value(2).is_err());
    assert_eq!(res.ok(), Some(true), "counter_value(2) on a 2-slot buffer must return Err, it panicked or returned Ok");
    let res = std::panic::catch_unwind(|| r.counter_label(2).is_err());
    assert_eq!(res.ok(), Some(true));
}
