// native replay crate: tests/ hold concrete reproductions of solver counterexamples against the real build
