"""C06 (E2): ManyToOneRingBuffer::claim — the producer side of the command ring — at full 64-bit width of head / tail, dev and
release profile.  claim() is a CAS-retry loop; it is translated with the back-edge cut (mirsmt `cut_back_edges`): ONE iteration,
from an arbitrary value of the loop-carried `head` (at entry: the head-cache word; at a later iteration: some head value read
earlier, which obligation E shows), every AtomicBuffer load a fresh symbolic word, the CAS result a free boolean, reaching the
back-edge the outcome `retry`.  Specs are evaluated over 128-bit extensions, so the SPEC side cannot wrap.

  seq.*  : sequential snapshot — both head loads see the same word `head`, the CAS succeeds.  These are the obligations whose
           counterexamples can be replayed natively (through the public write() on a real ring with a preset trailer).
  conc.* : the two head loads may see different words h1 <= h2 (the consumer advanced in between), the CAS may fail."""
import mirsmt

KEY = "ManyToOneRingBuffer::claim"
PAD_TYPE = "#xffffffff"      # record type of a padding record on the wire: AeronCommand::Padding = -1 (Aeron PADDING_MSG_TYPE_ID)

BOUNDS = {
    "capacity": "a power of two in [8, 2^30]",
    "required_capacity": "multiple of 8 in [8, capacity/8 + 15] (= align(length + 8, 8) for every message length write() admits: 0..capacity/8)",
    "head cache, head, tail": "multiples of 8, 0 <= head cache <= head <= tail < 2^62, tail - head <= capacity (ring invariant)",
    "head cache staleness": "tail - head cache < 2^31  (ASSUMPTION: `(tail - head) as i32` misjudges a cache staler than 2 GiB; same in the Java original)",
    "loop": "ONE iteration of the CAS-retry loop (back-edge cut, outcome `retry`); loop-carried local `head`: at entry the head-cache word, "
            "after a retry one of {head cache, first head load, second head load} (obligation E), i.e. again a value in the quantified domain",
    "memory": "every get_volatile is a fresh symbolic word (any interference), compare_and_set_i64 a free boolean, put_ordered recorded per site",
    "concurrent domain": "h1 <= h2 <= tail for the refusal/acceptance obligations; for no-panic also h2 up to tail + 2^30 when the CAS then fails "
                         "(head may overtake a stale tail value)",
    "width": "full 32/64 bit, both profiles",
    "profiles": "every obligation is decided by z3 and cvc5 in both profiles, except B seq in the quick tier: decided in the release profile and "
                "carried to the dev profile by A seq[checked] (no panic on the domain) and X (dev == release on every output unless dev panics, "
                "all inputs); the thorough tier decides B seq[checked] directly and adds B conc",
    "derived": "`new tail - head <= capacity` (the claim never overlaps unconsumed bytes) is B (accepted => not refuse, whose first disjunct is "
               "NT - H > C) together with C (stored tail == NT), not a solver query of its own",
}


def spec(head):
    """128-bit spec terms for a head word `head` (smt text of a 64-bit term): let-bindings shared by all goals"""
    return ("(let ((C (zx32 cap)) (R (zx32 req)) (T (zx64 tail)) (H (zx64 %s))) "
            "(let ((ti (bvand T (bvsub C (_ bv1 128)))) (hi (bvand H (bvsub C (_ bv1 128))))) "
            "(let ((wrap (bvugt R (bvsub C ti)))) "
            "(let ((pad (ite wrap (bvsub C ti) (_ bv0 128)))) "
            "(let ((NT (bvadd (bvadd T R) pad))) "        # the tail after the claim: tail + required + padding
            "(let ((refuse (or (bvsgt (bvsub NT H) C) (and wrap (bvugt R hi))))) " % head)


END = "))))))"


def run(tier, known):
    s = mirsmt.Session("C06", tier)
    # self-test of the cut mode: a data loop (trip count matters) must be refused unless its carried local is acknowledged
    if s.prog is not None:
        for fn, carried in (("ManyToOneRingBuffer::scan_back_to_confirm_still_zeroed", "i"), ("ManyToOneRingBuffer::size", "head_after")):
            try:
                mirsmt.translate(s.prog, fn, fn, cut_back_edges=True)
                s.inconclusive.append("E2 self-test: cut_back_edges accepted the data loop of %s without acknowledgement" % fn)
            except mirsmt.Unsupported as e:
                ok = ("carries %s across" % carried) in str(e)
                s.report.append("E2 self-test: cut_back_edges on %s (loop-carried `%s` not acknowledged) %s" % (
                    fn.split("::")[-1], carried, "refused, as it must be" if ok else "refused for another reason: %s" % e))
                if not ok:
                    s.inconclusive.append("E2 self-test: %s refused for an unexpected reason: %s" % (fn, e))
        try:
            mirsmt.translate(s.prog, KEY, KEY, havoc=("compare_and_set_i64",), ignore=("put_ordered",))
            s.inconclusive.append("E2 self-test: claim() translated without cut_back_edges although it has a loop")
        except mirsmt.Unsupported:
            pass
    if not s.function(KEY, havoc=("compare_and_set_i64",), ignore=("put_ordered",), cut_back_edges=True, loop_carried=("head",)):
        return s.finish(bounds=BOUNDS, known=known)
    # trailer slots: the numbers the native validation asserts against ring_buffer::*_POSITION_OFFSET (the obligations only need
    # them to be what self.*_position hold; concrete values keep counterexamples replayable)
    t_off, hc_off, h_off = (mirsmt.RING_TRAILER[n] for n in ("tail", "head_cache", "head"))
    pos = lambda off: "(bvadd cap #x%08x)" % off
    common = {"required_capacity": "req", "self.capacity": "cap", "self.tail_position": pos(t_off), "self.head_cache_position": pos(hc_off),
              "self.head_position": pos(h_off), "mem.head_cache_position": "hc", "mem.tail_position": "tail"}
    seq = {"f": (KEY, dict(common, **{"mem.head_position": "head", "mem.head_position.2": "head", "call.compare_and_set_i64": "true"}))}
    conc = {"f": (KEY, dict(common, **{"mem.head_position": "h1", "mem.head_position.2": "h2", "call.compare_and_set_i64": "cas"}))}

    al8 = lambda v: "(= ((_ extract 2 0) %s) #b000)" % v
    # capacity: a power of two in [8, 2^30] (x & (x - 1) == 0; cheaper for the SAT back-ends than 2^k with a symbolic shift)
    ring = ["(= (bvand cap (bvsub cap #x00000001)) #x00000000)", "(bvuge cap #x00000008)", "(bvule cap #x40000000)",
            al8("req"), "(bvuge req #x00000008)", "(bvule (zx32 req) (bvadd (bvlshr (zx32 cap) (_ bv3 128)) (_ bv15 128)))",
            al8("hc"), al8("tail"), "(bvult tail #x4000000000000000)", "(bvult (bvsub tail hc) #x0000000080000000)"]
    d_seq = ring + [al8("head"), "(bvule hc head)", "(bvule head tail)", "(bvule (bvsub tail head) ((_ zero_extend 32) cap))"]
    d_any = ring + [al8("h1"), al8("h2"), "(bvule hc h1)", "(bvule h1 h2)", "(bvule hc tail)", "(bvult h2 #x4000000000000000)",
                    "(bvsle (bvsub tail h1) ((_ zero_extend 32) cap))"]
    d_conc = d_any + ["(bvule h2 tail)"]      # consistent snapshot: no head load overtakes the tail value of this iteration
    v_seq = [("cap", 32), ("req", 32), ("hc", 64), ("head", 64), ("tail", 64)]
    v_conc = [("cap", 32), ("req", 32), ("hc", 64), ("h1", 64), ("h2", 64), ("tail", 64), ("cas", 0)]

    err = "{f[ret.is.Err.InsufficientCapacity]}"
    cas_called = ("(and {f[calls.compare_and_set_i64]} (= {f[callarg.compare_and_set_i64.1]} %s) (= {f[callarg.compare_and_set_i64.2]} tail))" % pos(t_off))
    newtail = "(sx64 {f[callarg.compare_and_set_i64.3]})"
    # the only stores besides the padding header: head-cache refreshes, each storing the head word just loaded into the cache slot
    refresh = lambda h1, h2: ("(and (=> {f[calls.put_ordered.site1]} (and (= {f[callarg.put_ordered.site1.1]} %s) (= {f[callarg.put_ordered.site1.2]} %s))) "
                              "(=> {f[calls.put_ordered.site2]} (and (= {f[callarg.put_ordered.site2.1]} %s) (= {f[callarg.put_ordered.site2.2]} %s))))"
                              % (pos(hc_off), h1, pos(hc_off), h2))
    ti32 = "((_ extract 31 0) ti)"
    # what an accepting, CAS-winning iteration does: CAS(tail -> tail + required + padding), record index, padding header, stores
    accepted = lambda h1, h2: ("(and (not {f[panics]}) (not {f[retry]}) {f[ret.is.Ok]} %s (= %s NT) "
                               "(= {f[ret.Ok.0]} (ite wrap #x00000000 %s)) (= {f[calls.put_ordered.site3]} wrap) "
                               "(=> wrap (and (= {f[callarg.put_ordered.site3.1]} %s) (= {f[callarg.put_ordered.site3.2]} (concat %s ((_ extract 31 0) pad))))) %s)"
                               % (cas_called, newtail, ti32, ti32, PAD_TYPE, refresh(h1, h2)))

    # ---- A: no panic (dev: no arithmetic overflow) -------------------------------------------------------------------------------
    s.check("A seq: claim does not panic on the ring invariant", v_seq, d_seq, "(not {f[panics]})", seq,
            what="ManyToOneRingBuffer::claim panics (arithmetic overflow) on a ring in its invariant domain")
    s.check("A conc: claim does not panic for any interleaved head loads and CAS result", v_conc,
            d_any + ["(bvslt (bvsub h2 tail) #x0000000040000000)", "(=> cas (bvule h2 tail))"], "(not {f[panics]})", conc,
            what="ManyToOneRingBuffer::claim panics under interference")

    # ---- X: the dev model differs from the release model only by panicking (any inputs at all, no domain) ---------------------------
    # With A (no panic on the domain) this carries an obligation decided in the release profile over to the dev profile; the quick
    # tier uses it for B, whose arithmetic costs the solvers 10-25 s per profile; the thorough tier decides B in both profiles.
    m = s.models[KEY]["checked"]
    free = {n: "x%d" % i for i, (n, _, _) in enumerate(m.inputs)}
    outs = [o for o in sorted(m.outputs) if o not in ("panics", "ub")]
    s.check("X: dev outcome == release outcome (every output) unless the dev build panics", [(free[n], w) for n, w, _ in m.inputs], [],
            "(=> (not {c[panics]}) (and (not {w[panics]}) %s))" % " ".join("(= {c[%s]} {w[%s]})" % (o, o) for o in outs),
            {"c": (KEY + "@checked", free), "w": (KEY + "@wrapping", free)}, profiles=("checked",),
            what="the dev and release models of claim differ by more than the overflow panics")

    # ---- B: refusal <=> the record does not fit, judged with the TRUE head (the one hard arithmetic fact) ---------------------------
    s.check("B seq: Err(InsufficientCapacity) <=> used + required (+ wrap padding) > capacity or wrapped record would pass head", v_seq, d_seq,
            spec("head") + "(and (not {f[panics]}) (not {f[retry]}) (= %s refuse) (= {f[ret.is.Ok]} (not refuse)) "
            "(=> refuse (not {f[calls.compare_and_set_i64]})))" % err + END, seq,
            profiles=("wrapping",) if tier == "quick" else mirsmt.PROFILES,
            what="ManyToOneRingBuffer::claim refuses a record that fits, or accepts one that does not (stale head cache / wrap arithmetic)")
    if tier == "quick":
        s.report.append("E2 B seq[checked] follows from A seq[checked] (no panic on the domain), X (dev == release unless dev panics) and "
                        "B seq[wrapping]; the thorough tier lets the solvers decide it directly")

    # ---- C: accepting path, CAS succeeded (conditioned on claim's own decision; with B this gives the statement over `refuse`) ----
    s.check("C seq: not refused => CAS(tail -> tail + required + padding), record index, padding header iff wrapped, only head-cache refreshes stored",
            v_seq, d_seq, spec("head") + "(=> (not %s) %s)" % (err, accepted("head", "head")) + END, seq,
            what="ManyToOneRingBuffer::claim advances the tail / places the record or the padding header wrongly (claim overlaps unconsumed bytes)")
    s.check("C conc: the same when the head moves between the two loads", v_conc, d_conc + ["cas"],
            spec("h2") + "(=> (not %s) %s)" % (err, accepted("h1", "h2")) + END, conc,
            what="ManyToOneRingBuffer::claim advances the tail / places the record or the padding header wrongly under interference")

    # ---- D: CAS failure => retry, nothing stored but (possibly) the head-cache refresh; the decision does not depend on the CAS --------
    conc2 = dict(conc, g=(KEY, dict(conc["f"][1], **{"call.compare_and_set_i64": "true"})))
    s.check("D conc: CAS failure => retry unless refused (as with CAS success), never Ok, no padding header, only head-cache refreshes", v_conc,
            d_conc + ["(not cas)"],
            "(and (not {f[panics]}) (not {f[ret.is.Ok]}) (= {f[retry]} (not %s)) (= %s {g[ret.is.Err.InsufficientCapacity]}) "
            "(not {f[calls.put_ordered.site3]}) %s)" % (err, err, refresh("h1", "h2")), conc2,
            what="ManyToOneRingBuffer::claim stores something or returns although its CAS failed")

    # ---- E: the loop-carried `head` after a retry is a head value this iteration had (closes the one-iteration reading) ---------------
    s.check("E conc: on retry the carried head is the head cache or one of the loaded head words", v_conc, d_conc,
            "(=> {f[retry]} (or (= {f[retry.head]} hc) (= {f[retry.head]} h1) (= {f[retry.head]} h2)))", conc,
            what="claim's loop-carried head leaves the domain the one-iteration analysis quantifies over")

    # ---- B conc (thorough tier: the expensive generalisation of B; B seq is its instance h1 = h2, CAS success) -------------------------
    if tier != "quick":
        s.check("B conc: Err only if the record did not fit at the first fresh head; no Err => within the latest head + capacity", v_conc, d_conc,
                "(and (=> %s %s refuse%s) (=> (not %s) %s (bvsle (bvsub NT H) C)%s))" % (err, spec("h1"), END, err, spec("h2"), END),
                conc, what="ManyToOneRingBuffer::claim misjudges the free space when the head moves between its loads")
    else:
        s.report.append("E2 B conc (head moves between the two loads: refusal justified by the first fresh head, acceptance within the latest "
                        "head + capacity) runs in the thorough tier only (2 x ~30 s)")
    return s.finish(bounds=BOUNDS, known=known)
