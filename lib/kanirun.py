"""E1 engine driver: build the Kani harnesses of one property from /repo's working tree and decide each
harness with CBMC, in parallel, under memory/time caps.  The Kani front end (`cargo kani --only-codegen`)
produces one goto binary per harness; this module runs the same goto-cc / goto-instrument / cbmc pipeline
that kani-driver runs (flags copied from `cargo kani --verbose`, Kani 0.68.0), but keeps the per-property
JSON results so that each check can be classified (cover / unwinding / known finding / violation)."""
import fcntl
import glob
import json
import os
import re
import resource
import shutil
import subprocess
import time
from concurrent.futures import ThreadPoolExecutor

VERIF = os.path.dirname(os.path.dirname(os.path.abspath(__file__)))
REPO = os.environ.get("VERIF_REPO", "/repo")
KANI_HOME = os.path.expanduser("~/.kani/kani-0.68.0")
KANI_LIB_C = os.path.join(KANI_HOME, "library/kani/kani_lib.c")
TARGET_ROOT = os.path.join(VERIF, "target")
TOTAL_SLOTS = int(os.environ.get("VERIF_SLOTS", "12"))

CBMC_BASE = ["--no-malloc-may-fail", "--no-undefined-shift-check", "--no-signed-overflow-check", "--nan-check",
             "--no-self-loops-to-assumptions", "--no-pointer-primitive-check", "--object-bits", "16",
             "--sat-solver", "cadical", "--slice-formula"]

ANNOT_RE = re.compile(r"^\s*//\s*@verif\b(.*)$")
FN_RE = re.compile(r"^\s*(?:pub(?:\([a-z]+\))?\s+)?fn\s+([a-zA-Z0-9_]+)\s*\(")


class Inconclusive(Exception):
    pass


def parse_annotations(prop_id):
    """Harness table from the `// @verif k=v ...` comment lines that precede each #[kani::proof] function."""
    table = {}
    pref = prop_id.lower() + "_"
    for path in sorted(glob.glob(os.path.join(VERIF, "kani", "**", "*.rs"), recursive=True)):
        pending = None
        in_proof = False
        for line in open(path):
            m = ANNOT_RE.match(line)
            if m:
                kv = {}
                for tok in m.group(1).split():
                    if "=" in tok:
                        k, v = tok.split("=", 1)
                        kv[k] = v
                    else:
                        kv[tok] = "1"
                pending = kv if pending is None else {**pending, **kv}
                continue
            if "#[kani::proof" in line:
                in_proof = True
                continue
            m = FN_RE.match(line)
            if m and in_proof:
                name = m.group(1)
                if name.startswith(pref):
                    table[name] = dict(pending or {})
                    table[name]["file"] = os.path.relpath(path, VERIF)
                pending = None
                in_proof = False
    return table


def _flock(path):
    os.makedirs(os.path.dirname(path), exist_ok=True)
    f = open(path, "w")
    fcntl.flock(f, fcntl.LOCK_EX)
    return f


def build(prop_id, log):
    """cargo kani --only-codegen for the harnesses of this property (substring filter `<id>_`)."""
    tdir = os.path.join(TARGET_ROOT, prop_id)
    os.makedirs(tdir, exist_ok=True)
    lock = _flock(os.path.join(tdir, ".build.lock"))
    t0 = time.time()
    env = dict(os.environ, CARGO_NET_OFFLINE="true", CARGO_TERM_COLOR="never")
    cmd = ["cargo", "kani", "--only-codegen", "--lib", "--no-assertion-reach-checks", "-Z", "stubbing", "-Z", "unstable-options",
           "--target-dir", tdir, "--harness", prop_id.lower() + "_"]
    p = subprocess.run(cmd, cwd=REPO, env=env, stdout=subprocess.PIPE, stderr=subprocess.STDOUT, text=True)
    with open(log, "w") as f:
        f.write(p.stdout)
    if p.returncode != 0:
        lock.close()
        tail = "\n".join(p.stdout.splitlines()[-40:])
        raise Inconclusive("kani build failed (exit %d):\n%s" % (p.returncode, tail))
    metas = glob.glob(os.path.join(tdir, "kani", "*", "debug", "build", "aeron-rs", "*", "out", "aeron_rs-*.kani-metadata.json"))
    if not metas:
        lock.close()
        raise Inconclusive("no kani metadata produced")
    meta = max(metas, key=os.path.getmtime)
    d = json.load(open(meta))
    harnesses = {}
    for h in d["proof_harnesses"]:
        short = h["pretty_name"].split("::")[-1]
        harnesses[short] = h
    # copy goto binaries out of the target dir while we hold the lock, so a concurrent rebuild cannot clobber them
    work = os.path.join(tdir, "work")
    os.makedirs(work, exist_ok=True)
    for short, h in harnesses.items():
        dst = os.path.join(work, short + ".symtab.out")
        shutil.copyfile(h["goto_file"], dst)
        h["symtab_copy"] = dst
    lock.close()
    return harnesses, time.time() - t0


class _Slot:
    """Global (cross-process) cap on concurrently running CBMC jobs: TOTAL_SLOTS lock files."""

    def __enter__(self):
        d = os.path.join(TARGET_ROOT, ".slots")
        os.makedirs(d, exist_ok=True)
        while True:
            for i in range(TOTAL_SLOTS):
                f = open(os.path.join(d, "slot%d" % i), "w")
                try:
                    fcntl.flock(f, fcntl.LOCK_EX | fcntl.LOCK_NB)
                    self.f = f
                    return self
                except OSError:
                    f.close()
            time.sleep(0.2)

    def __exit__(self, *a):
        self.f.close()


def _run(cmd, out=None, mem_gb=None, timeout=None):
    def limits():
        if mem_gb:
            b = int(mem_gb * (1 << 30))
            resource.setrlimit(resource.RLIMIT_AS, (b, b))
        os.setsid()
    stdout = open(out, "w") if out else subprocess.DEVNULL
    try:
        p = subprocess.Popen(cmd, stdout=stdout, stderr=subprocess.DEVNULL, preexec_fn=limits)
        try:
            rc = p.wait(timeout=timeout)
        except subprocess.TimeoutExpired:
            try:
                os.killpg(p.pid, 9)
            except OSError:
                pass
            p.wait()
            return "timeout"
        return rc
    finally:
        if out:
            stdout.close()


def _loop_ids(binary):
    p = subprocess.run(["cbmc", "--show-loops", binary], stdout=subprocess.PIPE, stderr=subprocess.DEVNULL, text=True)
    return re.findall(r"^Loop (\S+):", p.stdout, re.M)


def run_harness(prop_id, name, meta, annot, tier, want_trace=True):
    """Returns a dict: status in {ok, failed, inconclusive}, checks[], covers[], stats."""
    work = os.path.join(TARGET_ROOT, prop_id, "work")
    out = os.path.join(work, name + ".out")
    js = os.path.join(work, name + ".json")
    res = {"harness": name, "annot": {k: v for k, v in annot.items()}, "status": "inconclusive", "reason": "",
           "checks": [], "stats": {}}
    t0 = time.time()
    mangled = meta["mangled_name"]
    steps = [
        ["goto-cc", meta["symtab_copy"], KANI_LIB_C, "-o", out],
        ["goto-cc", out, "--function", mangled, "-o", out],
        ["goto-instrument", "--add-library", "--no-malloc-may-fail", out, out],
        ["goto-instrument", "--generate-function-body-options", "assert-false-assume-false",
         "--generate-function-body", ".*", "--drop-unused-functions", out, out],
        ["goto-instrument", "--ensure-one-backedge-per-target", out, out],
    ]
    for s in steps:
        rc = _run(s, mem_gb=8, timeout=600)
        if rc != 0:
            res["reason"] = "%s failed (%s)" % (s[0], rc)
            return res
    cmd = ["cbmc"] + CBMC_BASE
    unwind = annot.get("unwind") or (meta["attributes"].get("unwind_value"))
    bounds = {}
    if unwind:
        cmd += ["--unwind", str(unwind)]
        bounds["unwind"] = int(unwind)
    if annot.get("unwindset"):
        ids = _loop_ids(out)
        sets = []
        for item in annot["unwindset"].split(","):
            pat, n = item.rsplit(":", 1)
            hit = [i for i in ids if pat in i]
            if not hit:
                res["reason"] = "unwindset pattern %r matches no loop" % pat
                return res
            sets += ["%s:%s" % (i, n) for i in hit]
        cmd += ["--unwindset", ",".join(sets)]
        bounds["unwindset"] = annot["unwindset"]
    if unwind or annot.get("unwindset"):
        cmd += ["--unwinding-assertions"]
    if annot.get("fs"):
        cmd += ["--max-field-sensitivity-array-size", annot["fs"]]
        bounds["field_sensitivity"] = int(annot["fs"])
    cmd += [out, "--verbosity", "8", "--json-ui"]
    mem = float(annot.get("mem", os.environ.get("VERIF_MEM_GB", "14" if tier == "quick" else "28")))
    timeout = int(annot.get("timeout", os.environ.get("VERIF_TIMEOUT", "900" if tier == "quick" else "3600")))
    with _Slot():
        t1 = time.time()
        rc = _run(cmd, out=js, mem_gb=mem, timeout=timeout)
        res["stats"]["cbmc_s"] = round(time.time() - t1, 2)
    res["stats"]["prep_s"] = round(t1 - t0, 2)
    res["bounds"] = bounds
    if rc == "timeout":
        res["reason"] = "cbmc timeout after %ds" % timeout
        return res
    try:
        data = json.load(open(js))
    except Exception as e:  # truncated output: OOM / crash
        res["reason"] = "cbmc output unreadable (rc=%s; out of memory or crash): %s" % (rc, str(e)[:80])
        return res
    status = None
    functions = set()
    for e in data:
        if not isinstance(e, dict):
            continue
        if "messageText" in e:
            t = e["messageText"]
            m = re.search(r"(\d+) variables, (\d+) clauses", t)
            if m:
                res["stats"]["sat_vars"] = max(res["stats"].get("sat_vars", 0), int(m.group(1)))
                res["stats"]["sat_clauses"] = max(res["stats"].get("sat_clauses", 0), int(m.group(2)))
            m = re.search(r"Runtime Solver: ([0-9.e+-]+)s", t)
            if m:
                res["stats"]["solver_s"] = round(res["stats"].get("solver_s", 0) + float(m.group(1)), 3)
            m = re.search(r"Runtime Symex: ([0-9.e+-]+)s", t)
            if m:
                res["stats"]["symex_s"] = round(float(m.group(1)), 3)
            m = re.search(r"size of program expression: (\d+) steps", t)
            if m:
                res["stats"]["program_steps"] = int(m.group(1))
            if e.get("messageType") == "ERROR":
                res["stats"].setdefault("errors", []).append(t[:200])
        if "result" in e:
            for r in e["result"]:
                sl = r.get("sourceLocation", {})
                cls = sl.get("propertyClass") or r.get("property", "").split(".")[-2:-1] and r["property"].split(".")[-2]
                desc = re.sub(r"^\[KANI_CHECK_ID_[^\]]*\]\s*", "", r.get("description", "")).strip().strip('"')
                c = {"property": r.get("property"), "class": cls, "description": desc, "status": r.get("status"),
                     "file": sl.get("file"), "line": sl.get("line"), "function": sl.get("function")}
                f = sl.get("file") or ""
                if f.startswith("src/") and "verif/kani" not in f and sl.get("function"):
                    functions.add(sl["function"])
                if r.get("status") == "FAILURE" and want_trace and cls not in ("reachability_check",):
                    c["inputs"] = _inputs_from_trace(r.get("trace", []))
                res["checks"].append(c)
        if "cProverStatus" in e:
            status = e["cProverStatus"]
    res["functions"] = sorted(functions)
    try:
        os.remove(js)
    except OSError:
        pass
    if status is None:
        res["reason"] = "cbmc gave no verdict (rc=%s) %s" % (rc, res["stats"].get("errors", ""))
        return res
    res["status"] = "decided"
    res["stats"]["wall_s"] = round(time.time() - t0, 2)
    return res


def _inputs_from_trace(trace):
    """Concrete values the solver chose: last assignment to each harness-level variable in the trace."""
    vals = {}
    for st in trace:
        if st.get("stepType") != "assignment" or st.get("hidden"):
            continue
        sl = st.get("sourceLocation", {})
        if "verif/kani" not in (sl.get("file") or ""):
            continue
        lhs = st.get("lhs", "")
        v = st.get("value", {})
        data = v.get("data")
        if data is None:
            continue
        if "::" in lhs:
            lhs = lhs.split("::")[-1]
        if re.match(r"^var_\d+", lhs):
            continue
        vals[lhs] = data
    return vals


def run_many(prop_id, selected, harness_meta, annots, tier, jobs):
    results = []
    with ThreadPoolExecutor(max_workers=jobs) as ex:
        futs = [ex.submit(run_harness, prop_id, n, harness_meta[n], annots[n], tier) for n in selected]
        for f in futs:
            results.append(f.result())
    return results
