#!/usr/bin/env python3
"""Regenerates MANIFEST.json from the table below (one place to keep claims, levels and N/A reasons in sync)."""
import json
import os
import subprocess

HERE = os.path.dirname(os.path.abspath(__file__))

BASELINE_OFF = ("cd /repo && cargo nextest run --workspace --no-fail-fast --tool-config-file pb:/w/lib/nextest.toml --profile pb "
                "--test-threads 8 --offline || cargo test --workspace --no-fail-fast --offline")

E1 = "bounded model checking of the compiled Rust (Kani 0.68 -> CBMC 6.11, SAT/CaDiCaL) over symbolic inputs"
E2 = "MIR -> SMT-LIB2 bit-vector translation decided by z3, cross-checked by cvc5"

# property -> dict(text, note, technique, design_ref) ; absent => not_applicable[reason]
CLAIMS = {
    "C17": dict(
        text="Closed-form position / partition / raw-tail arithmetic and the rotate_log step are decided for every i32 initial term id "
             "(wrapped ids included), every elapsed-term count < 2^31, all 15 legal term lengths and all aligned offsets: the solver "
             "shows the real functions equal the wrap-free specification, or returns the concrete ids that break it. rotate_log is an "
             "inductive step from an arbitrary valid meta-data state (CAS loop unwound 3, unwinding assertions on).",
        note="Dev-profile semantics (overflow checks on) for E1; logging disabled; Header::position checked for frame offsets in a 256-byte "
             "window (frame length / term id / term length full width).",
        technique=E1, design_ref="4 C17"),
}

CLAIMS["C16"] = dict(
    text="For every AtomicBuffer / Flyweight accessor the solver decides, over ALL i32 offsets and lengths (negative, huge, overflowing "
         "sums included) on a 32-byte region with guard zones: the accessor either panics before touching memory or stays inside the "
         "region, guard bytes are unchanged, and the value read/written is the region's. CBMC's pointer checks flag any access "
         "outside the allocation.",
    note="Dev profile (a dev-only overflow panic counts as a loud refusal); region 32 B, copies <= 40 B, strings <= 12 B; atomics assumed "
         "naturally aligned (caller precondition); slices longer than 2^31 are outside the bound.",
    technique=E1, design_ref="4 C16")
CLAIMS["C14"] = dict(
    text="All 25 members of the command/event type set are checked against the Aeron control-protocol code table in both directions, and "
         "every event flyweight getter is compared with an independent protocol-offset encoder for all field values and strings of "
         "0..8 bytes (image-ready: two consecutive strings with alignment padding).",
    note="Strings <= 8 bytes without NUL; dispatch from DriverListenerAdapter into the conductor is covered by C09/C10 harnesses where "
         "the callback is reachable, not here.",
    technique=E1, design_ref="4 C14")
CLAIMS["C15"] = dict(
    text="CountersManager/CountersReader on 2-slot buffers: allocate/allocate/allocate(exhausted)/set/free/clock-advance/allocate with a "
         "fully symbolic clock and cool-down decides uniqueness of live ids, reuse only at/after the deadline and from value 0, "
         "side-effect-free failure; reader accessors are decided total for every i32 id; for_each enumerates exactly live counters; "
         "label 380/381 and key 112/113 boundaries.",
    note="2 slots, labels <= 3 bytes except the 380/381-byte instances, clock and timeout < 2^62; exact-size buffers so CBMC pointer "
         "checks catch any out-of-buffer access; one fixed operation history shape (not arbitrary histories).",
    technique=E1, design_ref="4 C15")

NOT_YET = "check not built yet in this session (planned in DESIGN.md section 4); no claim is made"
NA = {}


def main():
    props = [json.loads(l)["id"] for l in open(os.path.join(HERE, "properties.jsonl"))]
    hooks = subprocess.run(["git", "-C", "/repo", "log", "--format=%H %s", "--grep", "^verif hook"], stdout=subprocess.PIPE, text=True).stdout
    commits = [l.split()[0] for l in hooks.splitlines()]
    checks = []
    na = []
    for p in props:
        c = CLAIMS.get(p)
        if c:
            checks.append({
                "property_id": p,
                "quick_cmd": "./check %s --tier quick" % p,
                "thorough_cmd": "./check %s --tier thorough" % p,
                "evidence_file": "/verif/evidence/%s.json" % p,
                "replay_cmd_template": "./check %s --replay {path}" % p,
                "engine": "kani-cbmc" + ("+mirsmt" if c.get("e2") else ""),
                "level_claimed": {"category": "model_checking", "text": c["text"], "design_ref": "DESIGN.md section " + c["design_ref"]},
                "level_note": c["note"],
                "technique": c["technique"],
            })
        else:
            na.append({"property_id": p, "reason": NA.get(p, NOT_YET)})
    m = {
        "version": 1,
        "setup_cmd": "./setup.sh",
        "hooks": {
            "guard": "cfg(kani)",
            "enable": "cargo kani sets --cfg kani itself; harnesses in /verif/kani are compiled into the crate through #[cfg(kani)] #[path] mod lines",
            "baseline_off_cmd": BASELINE_OFF,
            "source_commits": commits,
            "add_only": True,
        },
        "engines": [
            {"name": "kani-cbmc", "path": "/verif/lib/kanirun.py", "serves_properties": sorted(CLAIMS),
             "kind_free_text": "Kani front end compiles #[kani::proof] harnesses over the real crate to goto binaries; CBMC decides every "
                               "assertion / overflow / pointer check / unwinding assertion with a SAT solver"},
        ],
        "checks": checks,
        "not_applicable": na,
        "notes": "Exit codes: 0 held within the stated bounds; 1 + VIOLATION line; 2 inconclusive (timeout, out of memory, vacuous harness, "
                 "build failure) - never reported as success. Known findings: /verif/known_findings.json.",
    }
    json.dump(m, open(os.path.join(HERE, "MANIFEST.json"), "w"), indent=1)
    print("claimed:", [c["property_id"] for c in checks], "n/a:", len(na))


if __name__ == "__main__":
    main()
