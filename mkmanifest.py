#!/usr/bin/env python3
"""Regenerates MANIFEST.json from the table below (one place to keep claims, levels and N/A reasons in sync)."""
import json
import os
import subprocess

HERE = os.path.dirname(os.path.abspath(__file__))

BASELINE_OFF = ("cd /repo && cargo nextest run --workspace --no-fail-fast --tool-config-file pb:/w/lib/nextest.toml --profile pb "
                "--test-threads 8 --offline || cargo test --workspace --no-fail-fast --offline")

E1 = "bounded model checking of the compiled Rust (Kani 0.68 -> CBMC 6.11, SAT/CaDiCaL) over symbolic inputs"
E2 = "MIR -> SMT-LIB2 bit-vector translation decided by z3, cross-checked by cvc5"

# property -> dict(text, note, technique, design_ref) ; absent => not_applicable[reason]
CLAIMS = {
    "C17": dict(
        text="Closed-form position / partition / raw-tail arithmetic and the rotate_log step are decided for every i32 initial term id "
             "(wrapped ids included), every elapsed-term count < 2^31, all 15 legal term lengths and all aligned offsets: the solver "
             "shows the real functions equal the wrap-free specification, or returns the concrete ids that break it. rotate_log is an "
             "inductive step from an arbitrary valid meta-data state (CAS loop unwound 3, unwinding assertions on).",
        note="Dev-profile semantics (overflow checks on) for E1; logging disabled; Header::position checked for frame offsets in a 256-byte "
             "window (frame length / term id / term length full width).",
        technique=E1, design_ref="4 C17"),
}

CLAIMS["C16"] = dict(
    text="For every AtomicBuffer / Flyweight accessor the solver decides, over ALL i32 offsets and lengths (negative, huge, overflowing "
         "sums included) on a 32-byte region with guard zones: the accessor either panics before touching memory or stays inside the "
         "region, guard bytes are unchanged, and the value read/written is the region's. CBMC's pointer checks flag any access "
         "outside the allocation.",
    note="Dev profile (a dev-only overflow panic counts as a loud refusal); region 32 B, copies <= 40 B, strings <= 12 B; atomics assumed "
         "naturally aligned (caller precondition); slices longer than 2^31 are outside the bound.",
    technique=E1, design_ref="4 C16")
CLAIMS["C14"] = dict(
    text="All 25 members of the command/event type set are checked against the Aeron control-protocol code table in both directions, and "
         "every event flyweight getter is compared with an independent protocol-offset encoder for all field values and strings of "
         "0..8 bytes (image-ready: two consecutive strings with alignment padding).",
    note="Strings <= 8 bytes without NUL; dispatch from DriverListenerAdapter into the conductor is covered by C09/C10 harnesses where "
         "the callback is reachable, not here.",
    technique=E1, design_ref="4 C14")
CLAIMS["C15"] = dict(
    text="CountersManager/CountersReader on 2-slot buffers: allocate/allocate/allocate(exhausted)/set/free/clock-advance/allocate with a "
         "fully symbolic clock and cool-down decides uniqueness of live ids, reuse only at/after the deadline and from value 0, "
         "side-effect-free failure; reader accessors are decided total for every i32 id; for_each enumerates exactly live counters; "
         "label 380/381 and key 112/113 boundaries.",
    note="2 slots, labels <= 3 bytes except the 380/381-byte instances, clock and timeout < 2^62; exact-size buffers so CBMC pointer "
         "checks catch any out-of-buffer access; one fixed operation history shape (not arbitrary histories).",
    technique=E1, design_ref="4 C15")

CLAIMS["C18"] = dict(
    text="Differential twin-log harnesses: the real vectored appends (shared unfragmented / fragmented, exclusive unfragmented) vs the real "
         "contiguous appends from an identical symbolic log state; the solver compares resulting offset, raw tail and every term byte "
         "(symbolic probe) for all payload bytes, term ids, session/stream ids and prior term contents.",
    note="(tail offset, message length, number of buffers 1..3, split points) are concrete instances (8 quick / 18 thorough: empty buffers, "
         "split inside a fragment, split on a fragment boundary, term end tripped): a copy whose destination offset and size are both "
         "symbolic costs 15 M SAT variables on a 256-byte term. Term 256 B, MTU payload 32. Publication::offer_bulk itself is not "
         "driven (its body is the same guard as offer_opt, decided in C04).",
    technique=E1 + " (differential)", design_ref="4 C18")
CLAIMS["C19"] = dict(
    text="Setter frame conditions of ChannelUriStringBuilder from an arbitrary builder state (every Option field symbolic): each of the 23 "
         "setters, the reset_* and clear methods sets exactly its own field to exactly the given value and leaves every other field "
         "bit-identical; illegal values (mtu, term length, term offset, linger, prefix, media, control mode) are rejected without any "
         "field changing; one chained harness calls all setters once.",
    note="PARTIAL: build(), ChannelUri::parse, Display and add_session_id are string formatting/parsing and are out of reach of the "
         "engine here (20-minute probes without verdict); the parameter-name wiring, parse/print identity and 'arbitrary strings never "
         "panic' are NOT decided by the solver (a native round-trip test exists as supplementary evidence only). Strings <= 9 bytes.",
    technique=E1, design_ref="4 C19")
CLAIMS["C01"] = dict(
    text="Producer side of stream fidelity as inductive single steps on the real appenders: unfragmented / fragmented append, claim + "
         "commit / abort, for the shared and the exclusive appender, from any tail offset (including tails beyond the term end): "
         "returned offset, raw tail advance, every header field, flags per fragment, payload bytes (symbolic probe), reserved value, "
         "exactly one padding frame at the term end, nothing written outside the claimed range, stale-term refusal. Single-session "
         "reassembly (FragmentAssembler + BufferBuilder) is decided by the c01_reassembly harnesses; publication-level positions by "
         "the C04 harnesses; the consumer side by C05.",
    note="Term 256 B, MTU payload 32; each instance has either the tail offset or the message length symbolic (both symbolic costs "
         "> 10 M SAT variables), message lengths 0..96. 'What was offered is what is delivered' is composed from the producer-side "
         "frame predicate here and the consumer-side harnesses of C05/C20 - the composition itself is an argument, not a solver query. "
         "Interleavings of offers with polls: see C03.",
    technique=E1, design_ref="4 C01")
CLAIMS["C04"] = dict(
    text="One offer / try_claim+commit on the real Publication and ExclusivePublication over a real LogBuffers object, for symbolic "
         "publication limit (any i64), connected flag, closed flag, payload and ids: accepted only if position < limit; refusal kind "
         "exactly BackPressured / NotConnected / MaxPositionExceeded / PublicationClosed / over-length; refused calls leave log, tail and "
         "term count unchanged; accepted calls return position-after, advance the tail by the aligned length and put the bytes in the "
         "log; end of term pads, rotates exactly once and reports AdminAction; the last term reports MaxPositionExceeded.",
    note="Regime R1: term 512 B, MTU 64, one contiguous 5632-byte log; (elapsed term count, tail offset, message length) are concrete "
         "instances (14 quick / 22 thorough, term counts 0,1,2,3,4,5,6 and 2^31-1; initial term id i32::MAX-1 so term ids wrap); "
         "probes for 'unchanged' are fixed concrete positions. Exclusive offers only on partitions reachable with term count multiple "
         "of 3 (raw-pointer tail access is intractable otherwise); constructor covered for the other partitions. Histories of limit "
         "updates reduce to this single step because the step starts from an arbitrary limit/flag state.",
    technique=E1, design_ref="4 C04")
CLAIMS["C13"] = dict(
    text="Every DriverProxy request is run against a real ManyToOneRingBuffer and the ring is decoded by an independent decoder written "
         "from the Aeron control-protocol layout: one record, protocol type code, length, every field equal to the (fully symbolic) "
         "arguments, strings byte for byte, correlation id fresh, every other byte of the ring unchanged; requests that cannot be "
         "encoded return Err and leave the ring untouched (boundary lengths per request kind).",
    note="Ring empty at index 0 (wrapped / full rings belong to C06); string lengths are concrete instances (0,1,3,4,5,8 and the "
         "boundaries around the 512-byte scratch buffer: 480/481, 484/485, 488/489, 492/493, key 112 + label 372/373/380), bytes symbolic.",
    technique=E1, design_ref="4 C13")
CLAIMS["C11"] = dict(
    text="One duty-cycle step of ClientConductor::on_heartbeat_check_timeouts from an ARBITRARY timer state (all three time bases, now, "
         "driver heartbeat, driver and inter-service timeouts symbolic up to 2^62 / 2^40): closes exactly when the gap exceeds the "
         "inter-service timeout, declares the driver dead exactly when its heartbeat is older than the driver timeout at a keep-alive "
         "check, refreshes the client heartbeat counter to now at every keep-alive check while it is live, updates the time bases, "
         "reports each timeout once, and refuses requests (writing nothing) after driver death. Boundary instants are covered.",
    note="Conductor built by struct literal (real DriverProxy/ring/counters buffers, recording fn handlers, empty resource maps); the "
         "real wall clock and AgentRunner are outside the claim; histories reduce to this step because it starts from any timer state. "
         "find_* registration timeouts are decided in C09.",
    technique=E1, design_ref="4 C11")

E12 = E1 + "; leaf arithmetic additionally by " + E2
for k in ("C17", "C16", "C04"):
    CLAIMS[k]["technique"] = E12
    CLAIMS[k]["e2"] = True
CLAIMS["C17"]["note"] += " E2 (mirsmt) decides the 9 leaf functions at full width in BOTH the checked (dev) and the wrapping (release) profile, each SMT definition validated against the natively compiled function on >= 56 vectors per run."
CLAIMS["C16"]["note"] += " E2 decides bounds_check in the wrapping (release) profile too, where Kani cannot look."
CLAIMS["C04"]["note"] += " E2 decides the branch arithmetic of back_pressure_status / new_position (both publications) at full 64-bit width in both profiles."
CLAIMS["C03"] = dict(
    text="Producer side: every appender entry point (shared and exclusive: unfragmented, fragmented x2/x3, claim+commit/abort, end-of-term "
         "padding) is run with the shared-memory access hook stopping it after its k-th access for SYMBOLIC k; the state left behind "
         "satisfies commit_complete (a positive length word implies final header + payload; committed frames form a prefix). An "
         "ordering-class monitor over the recorded accesses shows the first and last store of every frame are release stores of the "
         "length word with all plain stores in between, and that readers load frame bytes only after an acquire load of a positive "
         "length word and never touch an uncommitted frame beyond its length word. Consumer side: term_reader::read and all six Image "
         "poll variants (c05_havoc_*) on a term whose tail is symbolic garbage. One publisher preempted by a complete append of a "
         "second one at a symbolic access point.",
    note="Crash points and one preemption are symbolic integers over the REAL code's access sequence (hook H5); memcpy counts as one "
         "access; memory is sequentially consistent in the model - the monitors check the release/acquire DISCIPLINE by accessor "
         "class, they do not establish that fence + plain unaligned access is a synchronises-with edge in the Rust memory model. "
         "Term 256 B, concrete tails/lengths per instance, <= 3 frames in flight, 2 publishers, 1 preemption; arbitrary "
         "reader/producer interleavings reduce to 'reader runs on some crash-prefix state' by the stated composition argument.",
    technique=E1 + " with a symbolic crash point / preemption point via the access hook", design_ref="4 C03")
CLAIMS["C05"] = dict(
    text="All six Image poll flavours (poll, bounded_poll, controlled_poll, bounded_controlled_poll, controlled_peek, block_poll) plus "
         "set_position and the closed-image paths against a reference walker written from the property: return value, delivered "
         "(offset, length, header) sequence, position seen by the handler, final position, bound / limit / action handling (Abort, "
         "Break, Commit, Continue symbolic per fragment), for symbolic fragment limits (any i32), bounds (any i64), block limits (any "
         "i32), frame types, flags, ids and payload.",
    note="R1 instances: literal frame layouts (<= 3 frames, gaps, claimed frames, term end) on a real 4864-byte LogBuffers, term counts "
         "0,1,3,5,2^23+3,2^31-1; thorough tier adds R2 harnesses with symbolic term count / offsets / lengths on a 128-byte term. "
         "More than 3 frames per call is outside the bound; repeated polls reduce to the single step from any start position.",
    technique=E1, design_ref="4 C05")
CLAIMS["C06"] = dict(
    text="ManyToOneRingBuffer write / read steps from literal ring states covering every head alignment, occupancy and counter magnitude "
         "(0, 3 laps, 2^31-32, 2^32, 2^40) on a capacity-32 ring with an i128 placement oracle: accepted iff the space really "
         "suffices, record / padding / tail exact, nothing else changed; reads deliver in order, once, intact, zero what they consume; "
         "head <= tail; correlation ids unique from any counter value; stale head cache; one preemption of a producer by a complete "
         "second producer write or consumer read at a symbolic access point.",
    note="Capacity 32 only (max message 4 bytes); 26 quick / 122 thorough instances; 2 producers + 1 consumer, one preemption; memcpy "
         "is one access; 3 producers and >= 2 preemptions are outside the bound.",
    technique=E1 + " with a symbolic preemption point via the access hook", design_ref="4 C06")
CLAIMS["C07"] = dict(
    text="Producer side: the real write is stopped after every access k (plain and wrapped claims, optional surviving producer) and the "
         "ring satisfies the dead-claim predicate field by field. Consumer side: from constructed dead-claim states (including claims "
         "that wrapped and unwritten wrap-padding slots) unblock / read / fresh write / read: padding only inside the data area and "
         "ending at the claim end, 768-byte trailer byte-for-byte unchanged, survivors delivered once and intact, head <= tail, "
         "unblock()==true implies the next read advances, afterwards a fresh command is accepted and delivered.",
    note="Capacity 32; literal indices per instance, symbolic contents; the producer and consumer obligations are glued by the "
         "dead-claim state predicate (asserted by one side, constructed by the other).",
    technique=E1 + " with a symbolic crash point via the access hook", design_ref="4 C07")
CLAIMS["C08"] = dict(
    text="BroadcastTransmitter / BroadcastReceiver / CopyBroadcastReceiver on a 64-byte (one instance 128) buffer: a receiver sees exactly "
         "the transmitted record for any 8-aligned tail < 2^40, any legal type, any length; sequences of 3 in order; overrun reported "
         "before anything newer is delivered and the receiver resumes at a valid record; the lap test equals the 64-bit specification "
         "for all counters < 2^62 (also decided by E2 in the release profile); a transmitter's complete transmits injected at a "
         "symbolic access point of CopyBroadcastReceiver::receive never yield torn data or a panic; a transmitter stopped after a "
         "symbolic access never yields a half-written record.",
    note="Copy-receiver harnesses use literal layouts with symbolic types and bytes (scratch allocation trimmed to 256 real bytes via a "
         "stub of alloc_buffer_aligned, nominal capacity 4096); one preemption; memcpy is one access; sequentially consistent memory "
         "(the release-profile fence reordering found natively is outside what the engine models).",
    technique=E12 + "; symbolic preemption / crash point via the access hook", design_ref="4 C08", e2=True)

CLAIMS["C02"] = dict(
    text="(i) Non-interference of claims: an append's only access to shared meta data is the fetch-add on the tail, and every later "
         "access lies inside the byte range that fetch-add handed out (access trace over the real appender, any tail offset) - other "
         "publishers influence it only through the returned value. (ii) One preemption at publication level: the real "
         "Publication::offer_opt of publisher A with COMPLETE offers of publisher B (incl. B tripping the term end, rotating and "
         "retrying) injected before A's access number j: both accepted in distinct, intact, gap-free frames with consistent "
         "positions; or exactly one padding frame, exactly one rotation, and each publisher either placed or told to retry.",
    note="Context-bounded: 2 publishers, ONE preemption, j concrete per instance (before limit read / before tail read / before and "
         "after the fetch-add / before commit; 4 quick + 5 thorough instances), sequentially consistent memory, term 512 B; 3 "
         "publishers, >= 2 preemptions and weak-memory reorderings of the RMWs are NOT decided. Crash of one publisher: see C03.",
    technique=E1 + " with an injected second publisher via the access hook", design_ref="4 C02")
CLAIMS["C09"] = dict(
    text="PARTIAL. For counters, subscriptions, publications and exclusive publications on a struct-literal conductor with a real "
         "DriverProxy/ring: add sends exactly one well-formed command (independent decoder) with a fresh correlation id and returns "
         "it; answers for foreign ids are ignored; a driver error is reported once and then the registration is gone; an unanswered "
         "registration is 'not ready' until exactly the driver timeout has passed (symbolic clock, boundary covered) and a driver "
         "timeout afterwards; release sends exactly one remove command with a fresh id and a second release sends nothing.",
    note="NOT decided: 'ready event -> lookup yields the usable resource, the same one on repeated lookups' and release-by-drop - every "
         "path on which a handle (Arc<Counter>, Arc<Mutex<Subscription>>, publication) exists drags the destructor glue of a whole "
         "ClientConductor into symex and does not finish (25 min / 24 GB, see DESIGN 9.2); destinations; mixed kinds in one history; "
         "client-close on conductor drop. Histories of length 3, one resource at a time, ids concrete.",
    technique=E1, design_ref="4 C09, 9.2")
CLAIMS["C10"] = dict(
    text="PARTIAL. (a) A duty cycle on a conductor whose broadcast receiver has been lapped reports the loss through its result, keeps "
         "the driver listener, and the next duty cycle processes the next event; (b) a client-timeout event for this client (with an "
         "Awaiting counter / subscription / publication or none) closes everything once: error handler and close handlers fire "
         "exactly once, registrations are dropped, later API calls return ClientConductorClosed and write nothing, a second timeout "
         "and an orderly close fire nothing again; a timeout for a foreign client id is ignored.",
    note="NOT applicable / not decided: 'returns in bounded time / no hang' (re-entrant conductor mutex from handle destructors - Kani "
         "has no model of blocking; recorded as an observation in DESIGN 9.3), closes with live handles or images, fault sequences "
         "longer than two steps, AgentRunner.",
    technique=E1, design_ref="4 C10, 9.2")
CLAIMS["C12"] = dict(
    text="PARTIAL. The linger arithmetic of the managed-resource check as a single step from an arbitrary (stamp, now, linger period) "
         "state on the real conductor: a retired image list is kept exactly until more than the linger period has passed (boundary "
         "and 'clock below linger period' covered).",
    note="NOT decided: image available / unavailable notifications (need a live subscription handle, see C09 note), the HashMap path "
         "of the same check for mapped log buffers (out of memory at 24 GB; same arithmetic, repaired together), and everything "
         "about real mmap/munmap (FFI, not applicable).",
    technique=E1, design_ref="4 C12, 9.2")
CLAIMS["C20"] = dict(
    text="Real Subscription::poll / controlled_poll over 2 (quick) and 3 (thorough) real Images for every rotation state, backlog "
         "combination and any i32 fragment limit: delivered == returned <= limit == min(limit, backlog), each image polled at most "
         "once per call and in stream order, every image with data served within n+1 calls (a twin claiming n fails), list shrink / "
         "add_image between polls safe. FragmentAssembler: single-session reassembly (C01) and two interleaved sessions, a session "
         "joined mid-message yields nothing until its next BEGIN; all payload bytes symbolic.",
    note="Assembler flag patterns and interleavings are literal per instance (hashbrown probing is not constant-folded); two live "
         "builders at once, the real remove_image, > 3 images, > 2 frames per image and symbolic session ids did not fit (out of "
         "memory at 24 GB) and are not decided.",
    technique=E1, design_ref="4 C20, 9.2")

CLAIMS["C06"]["technique"] = E12 + "; symbolic preemption point via the access hook"
CLAIMS["C06"]["e2"] = True
CLAIMS["C06"]["note"] += " E2 (mirsmt, back-edge cut = one iteration of the CAS loop) decides ManyToOneRingBuffer::claim for ANY power-of-two capacity 8..2^30 and 64-bit head / tail / head-cache values in both profiles: refusal iff the record does not fit with the true head, exact new tail / index / padding header on acceptance, no store but the head-cache refresh on CAS failure (assumption: tail - head cache < 2^31)."
CLAIMS["C14"]["text"] += " Dispatch: publication-ready / exclusive-publication-ready, unavailable-counter, client-timeout (quick) and error-response (thorough) events written with literal protocol offsets into a real broadcast buffer travel through CopyBroadcastReceiver, DriverListenerAdapter and ClientConductor::do_work to the matching registration / callback with every field in its own place."
CLAIMS["C14"]["note"] = "Strings <= 8 bytes without NUL; dispatch of subscription-ready, counter-ready and image events creates handles whose destructor glue does not fit (see C09 note) and is not decided; mmap replaced by a heap LogBuffers stub."
CLAIMS["C09"]["text"] += " The publication-ready event (through the real broadcast / adapter path) marks exactly the matching registration Registered with the event's fields."
CLAIMS["C12"]["text"] += " A re-acquired (cached) log mapping is the same mapping and stops its linger countdown; an image announced for an awaiting or unknown subscription is ignored (no callback, nothing mapped, no bookkeeping)."

CLAIMS["C09"]["text"] = CLAIMS["C09"]["text"].replace("PARTIAL. ", "") + " Ready events: a counter / subscription / publication / exclusive publication whose ready event arrived is found as a usable resource carrying the driver's ids, repeated lookups (also after a DUPLICATED ready event) yield the same object while it is held, callbacks fire with the registration's id."
CLAIMS["C09"]["note"] = ("Struct-literal conductor, real DriverProxy/ring, HashMaps with a fixed RandomState; Arc::drop_slow is stubbed by a function that "
    "asserts false - i.e. the solver proves no handle's last reference is dropped inside a harness (handles are forgotten), which cuts "
    "the destructor glue of ClientConductor out of symex. NOT decided: release-by-drop of a handle (Drop -> conductor mutex), release "
    "of a counter while its handle is alive, destinations, mixed kinds in one history, client-close on conductor drop. Histories of "
    "length <= 4, one resource at a time, ids concrete, mmap replaced by a heap LogBuffers stub.")
CLAIMS["C10"]["text"] += " With a live counter handle: the handle is closed, the unavailable-counter callback fires exactly once, registrations are dropped. A reclaimed client-heartbeat counter (driver timed the client out, event lost) closes the client at the next keep-alive check."
CLAIMS["C10"]["note"] = CLAIMS["C10"]["note"].replace("closes with live handles or images", "closes with live subscription / publication handles or images (do not fit)")
CLAIMS["C12"]["note"] = CLAIMS["C12"]["note"].replace("image available / unavailable notifications (need a live subscription handle, see C09 note)", "image available / unavailable notifications on a LIVE subscription (Image::create + the copy-on-write image vector run out of memory at 24 GB)")

NOT_YET = "check not built yet in this session (planned in DESIGN.md section 4); no claim is made"
NA = {}


def main():
    props = [json.loads(l)["id"] for l in open(os.path.join(HERE, "properties.jsonl"))]
    hooks = subprocess.run(["git", "-C", "/repo", "log", "--format=%H %s", "--grep", "^verif hook"], stdout=subprocess.PIPE, text=True).stdout
    commits = [l.split()[0] for l in hooks.splitlines()]
    checks = []
    na = []
    for p in props:
        c = CLAIMS.get(p)
        if c:
            checks.append({
                "property_id": p,
                "quick_cmd": "./check %s --tier quick" % p,
                "thorough_cmd": "./check %s --tier thorough" % p,
                "evidence_file": "/verif/evidence/%s.json" % p,
                "replay_cmd_template": "./check %s --replay {path}" % p,
                "engine": "kani-cbmc" + ("+mirsmt" if c.get("e2") else ""),
                "level_claimed": {"category": "model_checking", "text": c["text"], "design_ref": "DESIGN.md section " + c["design_ref"]},
                "level_note": c["note"],
                "technique": c["technique"],
            })
        else:
            na.append({"property_id": p, "reason": NA.get(p, NOT_YET)})
    m = {
        "version": 1,
        "setup_cmd": "./setup.sh",
        "hooks": {
            "guard": "cfg(kani)",
            "enable": "cargo kani sets --cfg kani itself; harnesses in /verif/kani are compiled into the crate through #[cfg(kani)] #[path] mod lines",
            "baseline_off_cmd": BASELINE_OFF,
            "source_commits": commits,
            "add_only": True,
        },
        "engines": [
            {"name": "kani-cbmc", "path": "/verif/lib/kanirun.py", "serves_properties": sorted(CLAIMS),
             "kind_free_text": "Kani front end compiles #[kani::proof] harnesses over the real crate to goto binaries; CBMC decides every "
                               "assertion / overflow / pointer check / unwinding assertion with a SAT solver"},
            {"name": "mirsmt", "path": "/verif/lib/mirsmt.py", "serves_properties": sorted(k for k in CLAIMS if CLAIMS[k].get("e2")) + ["C05"],
             "kind_free_text": "translates loop-free integer functions from rustc's MIR dump of /repo into SMT-LIB2 bit-vectors (checked and "
                               "wrapping profile), decided by z3 and cross-checked by cvc5; translator validated against the native build each run"},
        ],
        "checks": checks,
        "not_applicable": na,
        "notes": "Exit codes: 0 held within the stated bounds; 1 + VIOLATION line; 2 inconclusive (timeout, out of memory, vacuous harness, "
                 "build failure) - never reported as success. Known findings: /verif/known_findings.json.",
    }
    json.dump(m, open(os.path.join(HERE, "MANIFEST.json"), "w"), indent=1)
    print("claimed:", [c["property_id"] for c in checks], "n/a:", len(na))


if __name__ == "__main__":
    main()
