#!/usr/bin/env python3
"""Replaces the seeded-change table at the end of DESIGN.md section 9.4 with the current output of seed_table.py."""
import os, subprocess
V = os.path.dirname(os.path.dirname(os.path.abspath(__file__)))
t = subprocess.run(["python3", os.path.join(V, "tools", "seed_table.py")], stdout=subprocess.PIPE, stderr=subprocess.DEVNULL, text=True).stdout
rows = [l for l in t.splitlines() if l.startswith("|")]
p = os.path.join(V, "DESIGN.md")
lines = open(p).read().split("\n")
hdr = "| seeded change | check run | files | result | first failing harness / assertion |"
i = lines.index(hdr)
j = i
while j < len(lines) and lines[j].startswith("|"):
    j += 1
open(p, "w").write("\n".join(lines[:i] + rows + lines[j:]))
print(len(rows) - 2, "rows")
