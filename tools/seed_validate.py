#!/usr/bin/env python3
"""seed_validate.py <dir-with-patch.diff+demo.rs> <ID> <name> [--tier quick|thorough] [--only substr] [--skip-demo]

Confirms a seeded change independently, then runs the property's check against it:
  1. scratch worktree /tmp/wt_val (pristine /repo HEAD): demo passes without the patch, fails with it;
     `cargo test --offline --lib` still 227 passed with the patch;
  2. patch applied to /repo itself, `./check <ID>` run, patch undone (`git -C /repo checkout -- .`);
  3. /verif/seeded/<name>/{patch.diff, demo.rs, notes.md, meta.json} written.
/repo must be clean when this starts; it is always restored."""
import json
import os
import re
import shutil
import subprocess
import sys
import time

VERIF = os.path.dirname(os.path.dirname(os.path.abspath(__file__)))
WT = "/tmp/wt_val"
ENV = dict(os.environ, CARGO_NET_OFFLINE="true")


def sh(cmd, cwd=None, timeout=3600):
    p = subprocess.run(cmd, cwd=cwd, shell=True, stdout=subprocess.PIPE, stderr=subprocess.STDOUT, text=True, env=ENV, timeout=timeout)
    return p.returncode, p.stdout


def main():
    args = sys.argv[1:]
    src, pid, name = args[0], args[1].upper(), args[2]
    tier = "quick"
    only = None
    skip_demo = "--skip-demo" in args
    if "--tier" in args:
        tier = args[args.index("--tier") + 1]
    if "--only" in args:
        only = args[args.index("--only") + 1]
    patch = os.path.join(src, "patch.diff")
    demo = os.path.join(src, "demo.rs")
    meta = {"property": pid, "name": name, "source_dir": src, "ran": []}
    rc, out = sh("git -C /repo status --porcelain")
    if out.strip():
        print("ERROR: /repo is not clean:\n" + out)
        sys.exit(3)
    # ---- 1. scratch worktree ---------------------------------------------------------------------------------------
    if not os.path.isdir(WT):
        sh("git -C /repo worktree add -q %s HEAD" % WT)
    sh("git checkout -q --detach $(git -C /repo rev-parse HEAD) && git checkout -- . && git clean -fdq tests src", cwd=WT)
    # demo kind: first line of notes.md `DEMO: integration` (default) or `DEMO: unit <src file> <cargo test filter>`
    unit = None
    notes = os.path.join(src, "notes.md")
    if os.path.exists(notes):
        first = open(notes).readline().strip()
        m = re.match(r"DEMO:\s*unit\s+(\S+)\s+(\S+)", first)
        if m:
            unit = (m.group(1), m.group(2))

    def place_demo():
        if unit:
            with open(os.path.join(WT, unit[0]), "a") as f:
                f.write("\n" + open(demo).read())
            return "cargo test --offline --lib %s 2>&1 | tail -25" % unit[1]
        shutil.copy(demo, os.path.join(WT, "tests", "seed_demo.rs"))
        return "cargo test --offline --test seed_demo 2>&1 | tail -25"

    have_demo = (not skip_demo) and os.path.exists(demo)
    if have_demo:
        cmd_demo = place_demo()
        rc0, out0 = sh(cmd_demo, cwd=WT)
        ok_without = "test result: ok" in out0 and "0 passed" not in out0
        meta["demo_without_patch"] = "passes" if ok_without else "FAILS"
        meta["ran"].append("pristine worktree: %s -> %s" % (cmd_demo.split(" 2>&1")[0], "ok" if ok_without else "not ok"))
        sh("git checkout -- . && git clean -fdq tests src", cwd=WT)
    rc, out = sh("git apply %s" % patch, cwd=WT)
    if rc != 0:
        print("ERROR: patch does not apply to pristine HEAD:\n" + out)
        sys.exit(3)
    rc1, out1 = sh("cargo test --offline --lib 2>&1 | grep -E '^test result|^error' | head -3", cwd=WT)
    meta["lib_tests_with_patch"] = out1.strip()
    meta["ran"].append("patched worktree: cargo test --offline --lib -> " + out1.strip())
    suite_ok = "227 passed; 0 failed" in out1
    if have_demo:
        cmd_demo = place_demo()
        rc2, out2 = sh(cmd_demo, cwd=WT)
        fails_with = "test result: FAILED" in out2 or "error: test failed" in out2
        meta["demo_with_patch"] = "fails" if fails_with else "PASSES"
        meta["ran"].append("patched worktree: %s -> %s" % (cmd_demo.split(" 2>&1")[0], "FAILED (as required)" if fails_with else "passed (demo does not show the defect)"))
    sh("git checkout -- . && git clean -fdq tests src", cwd=WT)
    # ---- 2. the check against the real /repo -----------------------------------------------------------------------
    rc, out = sh("git -C /repo apply %s" % patch)
    t0 = time.time()
    try:
        cmd = "./check %s --tier %s --no-evidence" % (pid, tier) + (" --only %s" % only if only else "")
        rc3, out3 = sh(cmd, cwd=VERIF, timeout=4 * 3600)
    finally:
        sh("git -C /repo checkout -- .")
    rcs, outs = sh("git -C /repo status --porcelain")
    assert not outs.strip(), "repo not restored"
    lines = [l for l in out3.splitlines() if l.startswith(("VIOLATION", "INCONCLUSIVE", "OK ", "KNOWN-FINDING")) or l.lstrip().startswith("FAILED")]
    meta["check_cmd"] = cmd
    meta["check_exit"] = rc3
    meta["check_wall_s"] = round(time.time() - t0, 1)
    meta["check_lines"] = [l[:400] for l in lines[:30]]
    meta["caught"] = rc3 == 1
    meta["suite_still_passes"] = suite_ok
    # ---- 3. keep ---------------------------------------------------------------------------------------------------
    dst = os.path.join(VERIF, "seeded", name)
    os.makedirs(dst, exist_ok=True)
    shutil.copy(patch, os.path.join(dst, "patch.diff"))
    if os.path.exists(demo):
        shutil.copy(demo, os.path.join(dst, "demo.rs"))
    if os.path.exists(os.path.join(src, "notes.md")):
        shutil.copy(os.path.join(src, "notes.md"), os.path.join(dst, "notes.md"))
        txt = open(os.path.join(src, "notes.md")).read()
        meta["needs_to_manifest"] = txt[:1500]
    json.dump(meta, open(os.path.join(dst, "meta.json"), "w"), indent=1)
    # clean replays produced by the mutated run
    for f in os.listdir(os.path.join(VERIF, "replays")) if os.path.isdir(os.path.join(VERIF, "replays")) else []:
        if f.startswith(pid + "-"):
            os.remove(os.path.join(VERIF, "replays", f))
    print(json.dumps({k: meta[k] for k in ("name", "suite_still_passes", "demo_without_patch", "demo_with_patch", "check_exit", "caught", "check_wall_s") if k in meta}))
    for l in meta["check_lines"][:8]:
        print("   ", l[:220])


if __name__ == "__main__":
    main()
