#!/usr/bin/env python3
"""Markdown table of the seeded changes under /verif/seeded from their meta.json files."""
import json, os, re, glob
rows = []
for d in sorted(glob.glob('/verif/seeded/*')):
    mp = os.path.join(d, 'meta.json')
    if not os.path.exists(mp):
        continue
    m = json.load(open(mp))
    patch = open(os.path.join(d, 'patch.diff')).read()
    files = sorted(set(re.findall(r'^\+\+\+ b/(\S+)', patch, re.M)))
    fails = [l for l in m.get('check_lines', []) if l.lstrip().startswith('FAILED')]
    first = ''
    if fails:
        mm = re.match(r'\s*FAILED (\S+): (.*?) \[', fails[0])
        if mm:
            first = '%s: %s' % (mm.group(1), mm.group(2)[:90])
    verdict = 'caught (exit 1)' if m.get('caught') else ('inconclusive (exit 2)' if m.get('check_exit') == 2 else 'MISSED (exit 0)')
    rows.append((m['name'], m['property'], ', '.join(f.replace('src/', '') for f in files), m.get('check_cmd', '').replace('./check ', '').replace(' --no-evidence', ''), verdict, first))
print('| seeded change | check run | files | result | first failing harness / assertion |')
print('|---|---|---|---|---|')
for r in rows:
    print('| %s | %s | %s | %s | %s |' % (r[0], r[3], r[2], r[4], r[5]))
