#!/bin/sh
# Development runs against a pristine copy of the repository and a private copy of the harness directory
# (/dev_root/repo = git worktree of /repo HEAD, /dev_root/verif/kani = copy of /verif/kani), so that /repo and /verif/kani
# can be used by validation batches meanwhile. Created on first use; remove with
#   git -C /repo worktree remove --force /dev_root/repo && rm -r /dev_root /verif/target_dev
set -e
if [ ! -d /dev_root/repo ]; then
  mkdir -p /dev_root/verif
  git -C /repo worktree add -q /dev_root/repo HEAD
fi
if [ ! -d /dev_root/verif/kani ]; then
  mkdir -p /dev_root/verif
  cp -r /verif/kani /dev_root/verif/kani
fi
cd /verif && VERIF_REPO=/dev_root/repo VERIF_TARGET=/verif/target_dev VERIF_KANI=/dev_root/verif/kani ./check "$@" --no-evidence
