#!/bin/sh
# development runs against a pristine copy of the repository and a private copy of the harness directory
# (/dev_root/repo, /dev_root/verif/kani), so that /repo and /verif/kani can be used by validation batches meanwhile
cd /verif && VERIF_REPO=/dev_root/repo VERIF_TARGET=/verif/target_dev VERIF_KANI=/dev_root/verif/kani ./check "$@" --no-evidence
